//! C03, BER half: the RFC 3779 values written by an independent *BER* writer
//! with the liberties X.690 grants outside DER, offered to every public
//! resource decoder in `Mode::Der`, `Mode::Ber` and `Mode::Cer`.
//!
//! Liberties (each on its own and in combinations):
//!
//! * BIT STRINGs whose unused bits in the last octet are not zero (X.690
//!   8.6.2.3 / 11.2.1: those bits are not part of the value) — for prefixes and
//!   for either bound of a range, also handed to `Prefix::from_bit_string`
//!   through `BitString::new` directly;
//! * long-form lengths with 1..4 length octets where fewer would do;
//! * indefinite-length constructed values (some, or all: the CER way);
//! * constructed BIT STRINGs and constructed OCTET STRINGs (address family);
//! * range bounds whose trailing zeros (lower) / ones (upper) were not
//!   stripped (a liberty of RFC 3779 rather than of BER, but likewise only
//!   written by a foreign encoder);
//! * INTEGERs with superfluous leading zero octets (AS numbers).
//!
//! Oracle: the denotation is computed from the *values* the writer was asked
//! to write (value and number of bits), never from the octets. Whatever the
//! mode and the liberties: the decoder refuses (recorded per mode and liberty,
//! the statement leaves that open) or the collection that comes back is
//! canonical and denotes the model. Only a plain DER encoding of a canonical
//! list has to be accepted (in `Mode::Der` and in `Mode::Ber`, DER being a
//! subset of BER). A collection that came out of a BER decoder then has to
//! behave like the same set built cleanly (==, contains both ways, and for a
//! part of the cases the whole unary / pair workload of the base monitor).

use crate::c03::{as_pair, as_unary, blocks_json, check_bool, check_set, observe_as, AsCase};
use crate::c03_gen::{canonical_defect, prefix_expressible, sequence, Flavour};
use crate::c03_ip::{family, ip_pair, ip_unary, lib_block, observe_ip, IpCase};
use crate::core::{hex, Ctx, Rng, Stage};
use crate::model::IntervalSet;
use bcder::decode::IntoSource;
use bcder::{BitString, Mode};
use bytes::Bytes;
use rpki::repository::resources::{
    Addr, AsBlock, AsBlocks, AsBlocksBuilder, AsResources, Asn, IpBlock, IpBlocks, IpBlocksBuilder, IpResources, Prefix,
};
use rpki::repository::roa::RoaIpAddress;
use serde_json::{json, Value};

const MODES: [Mode; 3] = [Mode::Der, Mode::Ber, Mode::Cer];

fn mode_name(m: Mode) -> &'static str {
    match m {
        Mode::Der => "der",
        Mode::Ber => "ber",
        Mode::Cer => "cer",
    }
}

//------------ the liberties --------------------------------------------------

/// What the writer is allowed to do in one encoding.
#[derive(Clone, Copy, Debug, Default)]
struct Profile {
    pad: bool,
    longlen: bool,
    /// 0: definite lengths, 1: some constructed values indefinite, 2: all
    indef: u8,
    consbits: bool,
    consoct: bool,
    unstripped: bool,
    leadzero: bool,
}

const IP_PROFILES: &[Profile] = &[
    Profile { pad: false, longlen: false, indef: 0, consbits: false, consoct: false, unstripped: false, leadzero: false },
    Profile { pad: true, longlen: false, indef: 0, consbits: false, consoct: false, unstripped: false, leadzero: false },
    Profile { pad: true, longlen: false, indef: 0, consbits: false, consoct: false, unstripped: false, leadzero: false },
    Profile { pad: true, longlen: false, indef: 0, consbits: false, consoct: false, unstripped: false, leadzero: false },
    Profile { pad: false, longlen: true, indef: 0, consbits: false, consoct: false, unstripped: false, leadzero: false },
    Profile { pad: false, longlen: false, indef: 1, consbits: false, consoct: false, unstripped: false, leadzero: false },
    Profile { pad: false, longlen: false, indef: 2, consbits: false, consoct: false, unstripped: false, leadzero: false },
    Profile { pad: false, longlen: false, indef: 0, consbits: false, consoct: false, unstripped: true, leadzero: false },
    Profile { pad: true, longlen: false, indef: 0, consbits: false, consoct: false, unstripped: true, leadzero: false },
    Profile { pad: true, longlen: true, indef: 0, consbits: false, consoct: false, unstripped: false, leadzero: false },
    Profile { pad: true, longlen: false, indef: 2, consbits: false, consoct: false, unstripped: false, leadzero: false },
    Profile { pad: true, longlen: true, indef: 1, consbits: false, consoct: false, unstripped: true, leadzero: false },
    Profile { pad: false, longlen: false, indef: 0, consbits: true, consoct: false, unstripped: false, leadzero: false },
    Profile { pad: false, longlen: false, indef: 0, consbits: false, consoct: true, unstripped: false, leadzero: false },
    Profile { pad: true, longlen: false, indef: 0, consbits: false, consoct: true, unstripped: false, leadzero: false },
];

const AS_PROFILES: &[Profile] = &[
    Profile { pad: false, longlen: false, indef: 0, consbits: false, consoct: false, unstripped: false, leadzero: false },
    Profile { pad: false, longlen: true, indef: 0, consbits: false, consoct: false, unstripped: false, leadzero: false },
    Profile { pad: false, longlen: false, indef: 1, consbits: false, consoct: false, unstripped: false, leadzero: false },
    Profile { pad: false, longlen: false, indef: 2, consbits: false, consoct: false, unstripped: false, leadzero: false },
    Profile { pad: false, longlen: true, indef: 1, consbits: false, consoct: false, unstripped: false, leadzero: false },
    Profile { pad: false, longlen: false, indef: 0, consbits: false, consoct: false, unstripped: false, leadzero: true },
];

/// What the writer actually did (a profile that allows padding bits writes
/// none if every bit string ends on an octet boundary).
#[derive(Clone, Copy, Debug, Default)]
struct Eff {
    pad: u32,
    longlen: u32,
    indef: u32,
    definite_cons: u32,
    consbits: u32,
    consoct: u32,
    unstripped: u32,
    leadzero: u32,
}

impl Eff {
    fn parts(&self) -> Vec<&'static str> {
        let mut v = Vec::new();
        if self.pad > 0 {
            v.push("padding-bits");
        }
        if self.longlen > 0 {
            v.push("long-form-length");
        }
        if self.indef > 0 {
            v.push(if self.definite_cons == 0 { "indefinite-all" } else { "indefinite-some" });
        }
        if self.consbits > 0 {
            v.push("constructed-bit-string");
        }
        if self.consoct > 0 {
            v.push("constructed-octet-string");
        }
        if self.unstripped > 0 {
            v.push("unstripped-range-bound");
        }
        if self.leadzero > 0 {
            v.push("padded-integer");
        }
        v
    }

    fn is_der(&self) -> bool {
        self.parts().is_empty()
    }

    /// Full name, for case classes and details.
    fn name(&self) -> String {
        let p = self.parts();
        if p.is_empty() {
            "plain-der".into()
        } else {
            p.join("+")
        }
    }

    /// Short name for the counters: one liberty by name, otherwise "several".
    fn counter_name(&self) -> &'static str {
        let p = self.parts();
        match p.len() {
            0 => "plain-der",
            1 => p[0],
            _ => {
                if self.pad > 0 {
                    "several incl. padding-bits"
                } else {
                    "several"
                }
            }
        }
    }
}

//------------ the writer -----------------------------------------------------

struct Bits {
    tlv: Vec<u8>,
    unused: u8,
    octets: Vec<u8>,
}

struct W<'r> {
    rng: &'r mut Rng,
    p: Profile,
    eff: Eff,
}

fn ones_below(nbits: u32) -> u128 {
    if nbits == 0 {
        u128::MAX
    } else if nbits >= 128 {
        0
    } else {
        (1u128 << (128 - nbits)) - 1
    }
}

impl W<'_> {
    fn def_len(&mut self, len: usize) -> Vec<u8> {
        let min_n = if len < 0x100 {
            1
        } else if len < 0x1_0000 {
            2
        } else if len < 0x100_0000 {
            3
        } else {
            4
        };
        if self.p.longlen && self.rng.chance(2, 3) {
            let n = self.rng.range(min_n, 4) as usize;
            if len < 0x80 || n > min_n as usize {
                self.eff.longlen += 1;
            }
            let mut out = vec![0x80 | n as u8];
            for i in (0..n).rev() {
                out.push(((len >> (8 * i)) & 0xFF) as u8);
            }
            out
        } else if len < 0x80 {
            vec![len as u8]
        } else {
            let n = min_n as usize;
            let mut out = vec![0x80 | n as u8];
            for i in (0..n).rev() {
                out.push(((len >> (8 * i)) & 0xFF) as u8);
            }
            out
        }
    }

    fn prim(&mut self, tag: u8, content: &[u8]) -> Vec<u8> {
        let mut out = vec![tag & !0x20];
        out.extend_from_slice(&self.def_len(content.len()));
        out.extend_from_slice(content);
        out
    }

    fn cons(&mut self, tag: u8, content: &[u8]) -> Vec<u8> {
        let indef = match self.p.indef {
            0 => false,
            1 => self.rng.bool(),
            _ => true,
        };
        let mut out = vec![tag | 0x20];
        if indef {
            self.eff.indef += 1;
            out.push(0x80);
            out.extend_from_slice(content);
            out.extend_from_slice(&[0, 0]);
        } else {
            self.eff.definite_cons += 1;
            out.extend_from_slice(&self.def_len(content.len()));
            out.extend_from_slice(content);
        }
        out
    }

    /// BIT STRING holding the leading `nbits` bits of `v`.
    fn bits(&mut self, v: u128, nbits: u32) -> Bits {
        let clean = if nbits == 0 { 0 } else { v & !ones_below(nbits) };
        let n = nbits.div_ceil(8) as usize;
        let mut octets = clean.to_be_bytes()[..n].to_vec();
        let unused = ((8 - nbits % 8) % 8) as u8;
        if self.p.pad && unused > 0 {
            let mask = (1u8 << unused) - 1;
            let g = match self.rng.below(6) {
                0 | 1 => mask,
                2 => 1,
                3 => 1 << (unused - 1),
                4 => 0,
                _ => (self.rng.next_u64() as u8) & mask,
            };
            if g != 0 {
                *octets.last_mut().unwrap() |= g;
                self.eff.pad += 1;
            }
        }
        let tlv = if self.p.consbits && self.rng.chance(3, 4) {
            self.eff.consbits += 1;
            let mut segs = Vec::new();
            if octets.is_empty() {
                segs.extend_from_slice(&self.prim(0x03, &[0]));
            } else {
                // only the last segment may have unused bits
                let cut = self.rng.usize_below(octets.len());
                if cut > 0 || self.rng.chance(1, 3) {
                    let mut c = vec![0u8];
                    c.extend_from_slice(&octets[..cut]);
                    segs.extend_from_slice(&self.prim(0x03, &c));
                }
                let mut c = vec![unused];
                c.extend_from_slice(&octets[cut..]);
                segs.extend_from_slice(&self.prim(0x03, &c));
            }
            self.cons(0x23, &segs)
        } else {
            let mut c = vec![unused];
            c.extend_from_slice(&octets);
            self.prim(0x03, &c)
        };
        Bits { tlv, unused, octets }
    }

    /// INTEGER for a non-negative value.
    fn uint(&mut self, v: u128) -> Vec<u8> {
        let be = v.to_be_bytes();
        let first = be.iter().position(|b| *b != 0).unwrap_or(be.len() - 1);
        let mut c = be[first..].to_vec();
        if c[0] & 0x80 != 0 {
            c.insert(0, 0);
        }
        if self.p.leadzero && self.rng.chance(2, 3) {
            for _ in 0..1 + self.rng.below(3) {
                c.insert(0, 0);
            }
            self.eff.leadzero += 1;
        }
        self.prim(0x02, &c)
    }

    /// OCTET STRING { 00 01 } / { 00 02 }.
    fn afi(&mut self, fl: Flavour) -> Vec<u8> {
        let b = [0u8, if fl == Flavour::V4 { 1 } else { 2 }];
        if self.p.consoct && self.rng.chance(3, 4) {
            self.eff.consoct += 1;
            let cut = self.rng.usize_below(3);
            let mut segs = Vec::new();
            if cut > 0 || self.rng.bool() {
                segs.extend_from_slice(&self.prim(0x04, &b[..cut]));
            }
            if cut < 2 || self.rng.bool() {
                segs.extend_from_slice(&self.prim(0x04, &b[cut..]));
            }
            self.cons(0x24, &segs)
        } else {
            self.prim(0x04, &b)
        }
    }
}

//------------ block lists ----------------------------------------------------

/// Sorts and merges blocks in element space (the harness' own idea of a
/// canonical list; 32 / 128 bit spaces).
fn canon_elem(fl: Flavour, blocks: &[(u128, u128)]) -> Vec<(u128, u128)> {
    let mut v: Vec<(u128, u128)> = blocks.to_vec();
    v.sort();
    let mut out: Vec<(u128, u128)> = Vec::new();
    for (lo, hi) in v {
        if let Some(last) = out.last_mut() {
            if last.1 == fl.max() || lo <= last.1 + 1 {
                if hi > last.1 {
                    last.1 = hi;
                }
                continue;
            }
        }
        out.push((lo, hi));
    }
    out
}

fn prefix_len(fl: Flavour, rng: &mut Rng) -> u32 {
    let bits = fl.bits();
    match rng.below(4) {
        0 | 1 => rng.below(bits as u64 + 1) as u32,
        2 => {
            // around the octet boundaries
            let k = 8 * rng.below(bits as u64 / 8 + 1) as i64 + rng.below(3) as i64 - 1;
            k.clamp(0, bits as i64) as u32
        }
        _ => *rng.pick(&[0, 1, 2, 7, 9, 12, 15, 17, 20, 23, 25, 31]),
    }
}

fn ber_block(fl: Flavour, rng: &mut Rng) -> (u128, u128) {
    let max = fl.max();
    match rng.below(5) {
        0..=2 => {
            // a prefix: most lengths leave unused bits in the last octet
            let len = prefix_len(fl, rng);
            let host = fl.bits() - len;
            if host >= fl.bits() {
                (0, max)
            } else {
                let size = 1u128 << host;
                let lo = fl.endpoint(rng) & !(size - 1);
                (lo, lo + (size - 1))
            }
        }
        3 => fl.block(rng),
        _ => {
            let a = fl.endpoint(rng);
            (a, a.saturating_add(1 + rng.below(700) as u128).min(max))
        }
    }
}

/// Returns the list and whether it is canonical (ascending, disjoint, not adjacent).
fn ber_blocks(fl: Flavour, rng: &mut Rng) -> (Vec<(u128, u128)>, &'static str) {
    match rng.below(10) {
        0 => (vec![ber_block(fl, rng)], "single"),
        1..=6 => {
            let n = 1 + rng.usize_below(5);
            let v: Vec<(u128, u128)> = (0..n).map(|_| ber_block(fl, rng)).collect();
            (canon_elem(fl, &v), "canonical")
        }
        7 => {
            let n = 2 + rng.usize_below(4);
            ((0..n).map(|_| ber_block(fl, rng)).collect(), "as-generated")
        }
        _ => (sequence(fl, rng, 5).blocks, "arranged"),
    }
}

fn elem_canonical(fl: Flavour, blocks: &[(u128, u128)]) -> bool {
    !blocks.is_empty() && canon_elem(fl, blocks) == blocks
}

//------------ IP: encoding ---------------------------------------------------

enum IpItem {
    Prefix { tlv: Vec<u8>, unused: u8, octets: Vec<u8>, v: u128, nbits: u32 },
    Range { tlv: Vec<u8> },
}

impl IpItem {
    fn tlv(&self) -> &[u8] {
        match self {
            IpItem::Prefix { tlv, .. } => tlv,
            IpItem::Range { tlv } => tlv,
        }
    }
}

struct IpEnc {
    items: Vec<IpItem>,
    list: Vec<u8>,
    families: Vec<u8>,
    other: Option<(Flavour, Vec<(u128, u128)>)>,
    eff_items: Eff,
    eff_list: Eff,
    eff_fam: Eff,
}

fn ip_items(w: &mut W, fl: Flavour, blocks: &[(u128, u128)], force_range: bool) -> Vec<IpItem> {
    let mut items = Vec::new();
    for (lo, hi) in blocks {
        let (a, b) = fl.embed(*lo, *hi);
        if prefix_expressible(a, b) && !force_range {
            let host = if a == 0 && b == u128::MAX { 128 } else { (b - a + 1).trailing_zeros() };
            let nbits = 128 - host;
            let bits = w.bits(a, nbits);
            items.push(IpItem::Prefix { tlv: bits.tlv, unused: bits.unused, octets: bits.octets, v: a, nbits });
        } else {
            let mut nmin = if a == 0 { 0 } else { 128 - a.trailing_zeros() };
            let mut nmax = if b == u128::MAX { 0 } else { 128 - b.trailing_ones() };
            if w.p.unstripped {
                let top = fl.bits();
                if nmin < top && w.rng.chance(2, 3) {
                    nmin += 1 + w.rng.below((top - nmin) as u64) as u32;
                    w.eff.unstripped += 1;
                }
                if nmax < top && w.rng.chance(2, 3) {
                    nmax += 1 + w.rng.below((top - nmax) as u64) as u32;
                    w.eff.unstripped += 1;
                }
            }
            let x = w.bits(a, nmin);
            let y = w.bits(b, nmax);
            let mut c = x.tlv;
            c.extend_from_slice(&y.tlv);
            items.push(IpItem::Range { tlv: w.cons(0x30, &c) });
        }
    }
    items
}

fn ip_encode(rng: &mut Rng, p: Profile, fl: Flavour, blocks: &[(u128, u128)], force_range: bool) -> IpEnc {
    let mut w = W { rng, p, eff: Eff::default() };
    let items = ip_items(&mut w, fl, blocks, force_range);
    let eff_items = w.eff;
    let body: Vec<u8> = items.iter().flat_map(|i| i.tlv().to_vec()).collect();
    let list = w.cons(0x30, &body);
    let eff_list = w.eff;
    // IPAddrBlocks ::= SEQUENCE OF IPAddressFamily { addressFamily OCTET STRING, choice }
    let mut mine = w.afi(fl);
    mine.extend_from_slice(&list);
    let mine = w.cons(0x30, &mine);
    let other = if w.rng.chance(1, 4) {
        let ofl = if fl == Flavour::V4 { Flavour::V6 } else { Flavour::V4 };
        let n = 1 + w.rng.usize_below(3);
        let v: Vec<(u128, u128)> = (0..n).map(|_| ber_block(ofl, w.rng)).collect();
        Some((ofl, canon_elem(ofl, &v)))
    } else {
        None
    };
    let mut fams = Vec::new();
    match &other {
        Some((ofl, oblocks)) => {
            let oitems = ip_items(&mut w, *ofl, oblocks, false);
            let obody: Vec<u8> = oitems.iter().flat_map(|i| i.tlv().to_vec()).collect();
            let olist = w.cons(0x30, &obody);
            let mut o = w.afi(*ofl);
            o.extend_from_slice(&olist);
            let o = w.cons(0x30, &o);
            // RFC 3779: families in ascending order of the family number
            if fl == Flavour::V4 {
                fams.extend_from_slice(&mine);
                fams.extend_from_slice(&o);
            } else {
                fams.extend_from_slice(&o);
                fams.extend_from_slice(&mine);
            }
        }
        None => fams.extend_from_slice(&mine),
    }
    let families = w.cons(0x30, &fams);
    let eff_fam = w.eff;
    IpEnc { items, list, families, other, eff_items, eff_list, eff_fam }
}

//------------ IP: entry points ----------------------------------------------

pub const IP_BER_ENTRIES: &[&str] = &[
    "IpBlocks::take_from_with_family",
    "IpBlocks::take_from",
    "IpResources::take_from",
    "IpResources::take_families_from",
    "IpBlock::take_opt_from+collect",
    "IpBlock::take_opt_from_with_family+collect",
    "item:Prefix::take_from|IpBlock::take_opt_from+collect",
    "item:Prefix::parse_content|IpBlock::take_opt_from_with_family+collect",
    "item:Prefix::parse_content_with_family|IpBlock::take_opt_from+collect",
    "item:Prefix::from_bit_string(BitString::new)|IpBlock::take_opt_from+collect",
];

/// Decodes `$data` with `$op` from a borrowed slice or from a shared `Bytes`.
macro_rules! decode {
    ($mode:expr, $data:expr, $shared:expr, $op:expr) => {
        if $shared {
            $mode.decode(Bytes::copy_from_slice($data), $op).map_err(|e| e.to_string())
        } else {
            $mode.decode($data.into_source(), $op).map_err(|e| e.to_string())
        }
    };
}

fn collect_blocks(v: Vec<IpBlock>, how: u64) -> IpBlocks {
    match how % 3 {
        0 => IpBlocks::from_iter(v),
        1 => {
            let mut b = IpBlocksBuilder::new();
            for x in v {
                b.push(x);
            }
            b.finalize()
        }
        _ => {
            let mut b = IpBlocksBuilder::new();
            let cut = v.len() / 2;
            b.extend(v[..cut].iter().copied());
            b.extend(v[cut..].iter().copied());
            b.finalize()
        }
    }
}

struct IpDecoded {
    mine: IpBlocks,
    other: Option<IpBlocks>,
}

fn ip_entry(mode: Mode, which: usize, fl: Flavour, enc: &IpEnc, how: u64) -> Result<IpDecoded, String> {
    let fam = family(fl);
    let shared = how / 3 % 2 == 1;
    let only = |mine: IpBlocks| IpDecoded { mine, other: None };
    match which {
        0 => decode!(mode, enc.list.as_slice(), shared, |cons| IpBlocks::take_from_with_family(cons, fam)).map(only),
        1 => decode!(mode, enc.list.as_slice(), shared, IpBlocks::take_from).map(only),
        2 => decode!(mode, enc.list.as_slice(), shared, |cons| IpResources::take_from(cons, fam))
            .and_then(|r| r.to_blocks().map_err(|_| "inherit".to_string()))
            .map(only),
        3 => {
            let (v4, v6) = decode!(mode, enc.families.as_slice(), shared, IpResources::take_families_from)?;
            let (mine, other) = if fl == Flavour::V4 { (v4, v6) } else { (v6, v4) };
            let mine = mine.ok_or_else(|| "wrong-family: the encoded family is missing".to_string())?.to_blocks().map_err(|_| "inherit".to_string())?;
            let other = match other {
                Some(o) => Some(o.to_blocks().map_err(|_| "inherit".to_string())?),
                None => None,
            };
            if other.is_some() != enc.other.is_some() {
                return Err("wrong-family: the families that came back are not the families that were encoded".into());
            }
            Ok(IpDecoded { mine, other })
        }
        4 | 5 => {
            let v: Vec<IpBlock> = decode!(mode, enc.list.as_slice(), shared, |cons| {
                cons.take_sequence(|cons| {
                    let mut v = Vec::new();
                    while let Some(b) = if which == 4 { IpBlock::take_opt_from(cons)? } else { IpBlock::take_opt_from_with_family(cons, fam)? } {
                        v.push(b);
                    }
                    Ok(v)
                })
            })?;
            Ok(only(collect_blocks(v, how)))
        }
        _ => {
            let mut v = Vec::new();
            for item in &enc.items {
                let b: IpBlock = match item {
                    IpItem::Prefix { tlv, unused, octets, .. } => {
                        let data = tlv.as_slice();
                        let p = match which {
                            6 => decode!(mode, data, shared, Prefix::take_from),
                            7 => decode!(mode, data, shared, |cons| cons.take_value(|_, content| Prefix::parse_content(content))),
                            8 => decode!(mode, data, shared, |cons| cons.take_value(|_, content| Prefix::parse_content_with_family(content, fam))),
                            _ => Prefix::from_bit_string(&BitString::new(*unused, Bytes::copy_from_slice(octets))).map_err(|e| e.to_string()),
                        };
                        IpBlock::from(p?)
                    }
                    IpItem::Range { tlv } => {
                        let data = tlv.as_slice();
                        let r = if which == 7 {
                            decode!(mode, data, shared, |cons| IpBlock::take_opt_from_with_family(cons, fam))
                        } else {
                            decode!(mode, data, shared, IpBlock::take_opt_from)
                        };
                        r?.ok_or("no block")?
                    }
                };
                v.push(b);
            }
            Ok(only(collect_blocks(v, how)))
        }
    }
}

fn clean_ip(fl: Flavour, canon: &[(u128, u128)], mode: u64) -> IpBlocks {
    IpBlocks::from_iter(canon.iter().map(|(a, b)| lib_block(fl, *a, *b, mode)))
}

/// A collection that passed the set check against the same set built without any decoder.
fn ip_twin(ctx: &mut Ctx, fl: Flavour, entry: &str, mode: Mode, s: &IpBlocks, clean: &IpBlocks, detail: &dyn Fn() -> Value) {
    let op = format!("{}[{}]:decoded==same-set-built-cleanly", entry, mode_name(mode));
    check_bool(ctx, fl, &op, s == clean && clean == s, true, detail);
    let op = format!("{}[{}]:decoded-contains-same-set-built-cleanly", entry, mode_name(mode));
    check_bool(ctx, fl, &op, s.contains(clean) && clean.contains(s), true, detail);
}

/// What every prefix handed out by `Prefix::from_bit_string` has to say about itself.
fn prefix_laws(ctx: &mut Ctx, fl: Flavour, unused: u8, octets: &[u8], v: u128, nbits: u32) {
    let name = fl.name();
    let d = || json!({"flavour": name, "unused_bits": unused, "octets": hex(octets), "value_bits": nbits, "value": format!("{:032x}", v)});
    let Some(r) = ctx.no_panic(&format!("{}:Prefix::from_bit_string", name), d, || Prefix::from_bit_string(&BitString::new(unused, Bytes::copy_from_slice(octets)))) else { return };
    ctx.eval();
    let dirty = unused > 0 && octets.last().map(|l| l & ((1u8 << unused) - 1) != 0).unwrap_or(false);
    ctx.sig(&format!("{} Prefix::from_bit_string unused={} padding-set={} ok={}", name, unused, dirty, r.is_ok()));
    let p = match r {
        Ok(p) => p,
        Err(_) => {
            ctx.obs(if dirty { "Prefix::from_bit_string refused (padding bits set)" } else { "Prefix::from_bit_string refused (clean)" }, 1);
            return;
        }
    };
    ctx.obs(if dirty { "Prefix::from_bit_string accepted (padding bits set)" } else { "Prefix::from_bit_string accepted (clean)" }, 1);
    let vmax = v | ones_below(nbits);
    let got = (p.min().to_bits(), p.max().to_bits(), p.range().0.to_bits(), p.range().1.to_bits(), p.addr_len() as u32);
    if got != (v, vmax, v, vmax, nbits) {
        ctx.violation(
            &format!("C03:{}:Prefix::from_bit_string:wrong-range", name),
            "a prefix made from a BIT STRING does not cover exactly the addresses its bits say (unused bits are not part of the value)",
            json!({"case": d(), "min": format!("{:032x}", got.0), "max": format!("{:032x}", got.1), "range": [format!("{:032x}", got.2), format!("{:032x}", got.3)], "len": got.4, "want_min": format!("{:032x}", v), "want_max": format!("{:032x}", vmax)}),
        );
        return;
    }
    // the same prefix built from its address
    let q = Prefix::new(Addr::from_bits(v), nbits as u8);
    check_bool(ctx, fl, "Prefix::from_bit_string==Prefix::new", p == q && q == p, true, d);
    // membership questions asked with this prefix
    let first = IpBlocks::from_iter([IpBlock::from((Addr::from_bits(v), Addr::from_bits(v)))]);
    let whole = IpBlocks::from_iter([IpBlock::from((Addr::from_bits(v), Addr::from_bits(vmax)))]);
    if let Some(g) = ctx.no_panic(&format!("{}:intersects_block(prefix from bit string)", name), d, || first.intersects_block(IpBlock::Prefix(p))) {
        check_bool(ctx, fl, "intersects_block(prefix-from-bit-string)", g, true, d);
    }
    if let Some(g) = ctx.no_panic(&format!("{}:contains_block(prefix from bit string)", name), d, || whole.contains_block(IpBlock::Prefix(p))) {
        check_bool(ctx, fl, "contains_block(prefix-from-bit-string)", g, true, d);
    }
    if nbits <= fl.bits() {
        let roa = RoaIpAddress::new(p, None);
        if let Some(g) = ctx.no_panic(&format!("{}:contains_roa(prefix from bit string)", name), d, || whole.contains_roa(&roa)) {
            check_bool(ctx, fl, "contains_roa(prefix-from-bit-string)", g, true, d);
        }
        if v > 0 || vmax < u128::MAX {
            // everything but the prefix' first address does not contain it
            let rest = whole.difference(&first);
            if let Some(g) = ctx.no_panic(&format!("{}:contains_roa(prefix from bit string)", name), d, || rest.contains_roa(&roa)) {
                check_bool(ctx, fl, "contains_roa(prefix-from-bit-string)-without-first-address", g, false, d);
            }
        }
    }
    // collected into a set
    let set = IpBlocks::from_iter([IpBlock::from(p)]);
    check_set(ctx, fl, "Prefix::from_bit_string+collect", &observe_ip(&set), &IntervalSet::from_ranges(&[(v, vmax)]), d);
}

fn verdict_counter(ctx: &mut Ctx, kind: &str, mode: Mode, eff: &Eff, accepted: bool) {
    ctx.obs(&format!("ber {} [{}] {}: {}", kind, mode_name(mode), eff.counter_name(), if accepted { "accepted" } else { "refused" }), 1);
}

fn ip_case(ctx: &mut Ctx, rng: &mut Rng, fl: Flavour, deep: bool, modes: &[Mode]) {
    let name = fl.name();
    let (blocks, arrangement) = ber_blocks(fl, rng);
    let model = fl.model(&blocks);
    let canon = canon_elem(fl, &blocks);
    let canonical = elem_canonical(fl, &blocks);
    let p = *rng.pick(IP_PROFILES);
    let force_range = rng.chance(1, 8);
    let enc = ip_encode(rng, p, fl, &blocks, force_range);
    let other_model = enc.other.as_ref().map(|(ofl, b)| (*ofl, ofl.model(b)));
    let clean = clean_ip(fl, &canon, rng.below(3));
    if enc.eff_list.pad > 0 {
        ctx.obs("ber ip encodings with non-zero padding bits", 1);
    }
    // the prefixes on their own
    for item in &enc.items {
        if let IpItem::Prefix { unused, octets, v, nbits, .. } = item {
            prefix_laws(ctx, fl, *unused, octets, *v, *nbits);
        }
    }
    let mut deep_done = !deep;
    let mut verdicts: Vec<String> = Vec::new();
    for (i, entry) in IP_BER_ENTRIES.iter().enumerate() {
        let eff = match i {
            3 => enc.eff_fam,
            0..=5 => enc.eff_list,
            _ => enc.eff_items,
        };
        let bytes: &[u8] = if i == 3 { &enc.families } else { &enc.list };
        // the last entry hands the prefixes over as (unused, octets) without any decoder:
        // whatever was done to their tags and lengths is not seen there
        let kind = if i == 9 { "ip, prefixes through BitString::new" } else { "ip" };
        for &mode in modes {
            let how = rng.below(6);
            let effname = eff.name();
            let d = || json!({"flavour": name, "entry": entry, "mode": mode_name(mode), "liberties": effname, "encoding": hex(bytes), "blocks": blocks_json(&blocks), "prefix_as_range": force_range, "collector": how % 3, "source": if how / 3 % 2 == 1 { "Bytes" } else { "slice" }});
            let Some(r) = ctx.no_panic(&format!("{}:{}[{}]", name, entry, mode_name(mode)), d, || ip_entry(mode, i, fl, &enc, how)) else { continue };
            let op = format!("{}[{}]", entry, mode_name(mode));
            ctx.sig(&format!("ber {} {} {} {} -> {}", name, op, effname, arrangement, if r.is_ok() { "value" } else { "refused" }));
            if i == 0 {
                verdicts.push(format!("{}: {}", mode_name(mode), if r.is_ok() { "value" } else { "refused" }));
            }
            match r {
                Ok(dec) => {
                    verdict_counter(ctx, kind, mode, &eff, true);
                    if !check_set(ctx, fl, &op, &observe_ip(&dec.mine), &model, d) {
                        continue;
                    }
                    if let (Some(o), Some((ofl, om))) = (&dec.other, &other_model) {
                        check_set(ctx, *ofl, &format!("{}:other-family", op), &observe_ip(o), om, d);
                    }
                    ip_twin(ctx, fl, entry, mode, &dec.mine, &clean, &d);
                    if !deep_done && mode == Mode::Ber && rng.chance(1, 3) {
                        deep_done = true;
                        let a = IpCase { fl, set: dec.mine.clone(), model: model.clone(), blocks: blocks.clone() };
                        let b = IpCase { fl, set: clean.clone(), model: model.clone(), blocks: canon.clone() };
                        ctx.sig(&format!("ber {} deep workload on a value decoded via {} {}", name, op, effname));
                        ip_unary(ctx, &a);
                        ip_pair(ctx, rng, &a, &b);
                        ip_pair(ctx, rng, &b, &a);
                    }
                }
                Err(e) => {
                    ctx.eval();
                    verdict_counter(ctx, kind, mode, &eff, false);
                    if e.starts_with("wrong-family") {
                        ctx.violation(&format!("C03:{}:{}:wrong-family", name, op), "the address families that came back are not the ones that were encoded", json!({"error": e, "case": d()}));
                    } else if eff.is_der() && canonical && mode != Mode::Cer && !force_range {
                        ctx.violation(&format!("C03:{}:{}:rejects-canonical", name, op), "a canonical RFC 3779 address block encoding in plain DER was rejected", json!({"error": e, "case": d()}));
                    }
                }
            }
        }
    }
    if ctx.wants_sample(&format!("ber-{}", name)) && !enc.eff_list.is_der() {
        ctx.sample(&format!("ber-{}", name), || json!({"blocks": blocks_json(&blocks), "liberties": enc.eff_list.name(), "SEQUENCE OF IPAddressOrRange": hex(&enc.list), "IpBlocks::take_from_with_family": verdicts, "expected_set": blocks_json(&model.iv)}));
    }
    ctx.drain_chain_hook(|| json!({"flavour": name, "ber": hex(&enc.families)}));
}

//------------ AS --------------------------------------------------------------

pub const AS_BER_ENTRIES: &[&str] = &[
    "AsBlocks::take_from",
    "AsResources::take_from",
    "AsBlock::take_opt_from+collect",
    "item:AsBlock::take_opt_from+collect",
];

struct AsEnc {
    items: Vec<Vec<u8>>,
    list: Vec<u8>,
    wrapped: Vec<u8>,
    eff_items: Eff,
    eff_list: Eff,
    eff_wrapped: Eff,
}

fn as_encode(rng: &mut Rng, p: Profile, blocks: &[(u128, u128)], single_as_range: bool) -> AsEnc {
    let mut w = W { rng, p, eff: Eff::default() };
    let mut items = Vec::new();
    for (lo, hi) in blocks {
        if lo == hi && !single_as_range {
            items.push(w.uint(*lo));
        } else {
            let mut c = w.uint(*lo);
            c.extend_from_slice(&w.uint(*hi));
            items.push(w.cons(0x30, &c));
        }
    }
    let eff_items = w.eff;
    let body: Vec<u8> = items.iter().flatten().copied().collect();
    let list = w.cons(0x30, &body);
    let eff_list = w.eff;
    // ASIdentifiers ::= SEQUENCE { asnum [0] EXPLICIT SEQUENCE OF }
    let inner = w.cons(0xA0, &list);
    let wrapped = w.cons(0x30, &inner);
    let eff_wrapped = w.eff;
    AsEnc { items, list, wrapped, eff_items, eff_list, eff_wrapped }
}

fn collect_as(v: Vec<AsBlock>, how: u64) -> AsBlocks {
    match how % 3 {
        0 => AsBlocks::from_iter(v),
        1 => {
            let mut b = AsBlocksBuilder::new();
            for x in v {
                b.push(x);
            }
            b.finalize()
        }
        _ => {
            let mut b = AsBlocksBuilder::new();
            let cut = v.len() / 2;
            b.extend(v[..cut].iter().copied());
            b.extend(v[cut..].iter().copied());
            b.finalize()
        }
    }
}

/// Returns the collection and how often the skipping twin of the single-block
/// decoder took another decision than the taking one (an observation).
fn as_entry(mode: Mode, which: usize, enc: &AsEnc, how: u64) -> Result<(AsBlocks, u64), String> {
    let shared = how / 3 % 2 == 1;
    match which {
        0 => decode!(mode, enc.list.as_slice(), shared, AsBlocks::take_from).map(|b| (b, 0)),
        1 => decode!(mode, enc.wrapped.as_slice(), shared, AsResources::take_from)
            .and_then(|r| r.to_blocks().map_err(|_| "inherit".to_string()))
            .map(|b| (b, 0)),
        2 => {
            let v: Vec<AsBlock> = decode!(mode, enc.list.as_slice(), shared, |cons| {
                cons.take_sequence(|cons| {
                    let mut v = Vec::new();
                    while let Some(b) = AsBlock::take_opt_from(cons)? {
                        v.push(b);
                    }
                    Ok(v)
                })
            })?;
            Ok((collect_as(v, how), 0))
        }
        _ => {
            let mut v = Vec::new();
            let mut disagree = 0;
            for item in &enc.items {
                let data = item.as_slice();
                let skipped: Result<bool, String> = decode!(mode, data, shared, AsBlock::skip_opt_in).map(|o| o.is_some());
                let taken: Result<Option<AsBlock>, String> = decode!(mode, data, shared, AsBlock::take_opt_from);
                if let (Ok(true), Err(_)) | (Err(_), Ok(Some(_))) = (&skipped, &taken) {
                    disagree += 1;
                }
                v.push(taken?.ok_or("no block")?);
            }
            Ok((collect_as(v, how), disagree))
        }
    }
}

fn as_case(ctx: &mut Ctx, rng: &mut Rng, deep: bool, modes: &[Mode]) {
    let fl = Flavour::As;
    let (blocks, arrangement) = ber_blocks(fl, rng);
    let model = fl.model(&blocks);
    let canon = canon_elem(fl, &blocks);
    let canonical = elem_canonical(fl, &blocks);
    let p = *rng.pick(AS_PROFILES);
    let single_as_range = rng.chance(1, 8);
    let enc = as_encode(rng, p, &blocks, single_as_range);
    let clean = AsBlocks::from_iter(canon.iter().map(|(a, b)| AsBlock::from((Asn::from_u32(*a as u32), Asn::from_u32(*b as u32)))));
    let mut deep_done = !deep;
    let mut verdicts: Vec<String> = Vec::new();
    for (i, entry) in AS_BER_ENTRIES.iter().enumerate() {
        let eff = match i {
            1 => enc.eff_wrapped,
            0 | 2 => enc.eff_list,
            _ => enc.eff_items,
        };
        let bytes: &[u8] = if i == 1 { &enc.wrapped } else { &enc.list };
        for &mode in modes {
            let how = rng.below(6);
            let effname = eff.name();
            let d = || json!({"flavour": "as", "entry": entry, "mode": mode_name(mode), "liberties": effname, "encoding": hex(bytes), "blocks": blocks_json(&blocks), "single_as_range": single_as_range, "collector": how % 3, "source": if how / 3 % 2 == 1 { "Bytes" } else { "slice" }});
            let Some(r) = ctx.no_panic(&format!("as:{}[{}]", entry, mode_name(mode)), d, || as_entry(mode, i, &enc, how)) else { continue };
            let op = format!("{}[{}]", entry, mode_name(mode));
            ctx.sig(&format!("ber as {} {} {} -> {}", op, effname, arrangement, if r.is_ok() { "value" } else { "refused" }));
            if i == 0 {
                verdicts.push(format!("{}: {}", mode_name(mode), if r.is_ok() { "value" } else { "refused" }));
            }
            match r {
                Ok((s, disagree)) => {
                    if disagree > 0 {
                        ctx.obs("as_skip_and_take_disagree(observation)", disagree);
                    }
                    verdict_counter(ctx, "as", mode, &eff, true);
                    if !check_set(ctx, fl, &op, &observe_as(&s), &model, d) {
                        continue;
                    }
                    check_bool(ctx, fl, &format!("{}:decoded==same-set-built-cleanly", op), s == clean && clean == s, true, d);
                    check_bool(ctx, fl, &format!("{}:decoded-contains-same-set-built-cleanly", op), s.contains(&clean) && clean.contains(&s), true, d);
                    if !deep_done && mode == Mode::Ber && rng.chance(1, 3) {
                        deep_done = true;
                        let a = AsCase { set: s.clone(), model: model.clone(), blocks: blocks.clone() };
                        let b = AsCase { set: clean.clone(), model: model.clone(), blocks: canon.clone() };
                        ctx.sig(&format!("ber as deep workload on a value decoded via {} {}", op, effname));
                        as_unary(ctx, &a);
                        as_pair(ctx, &a, &b);
                        as_pair(ctx, &b, &a);
                    }
                }
                Err(e) => {
                    ctx.eval();
                    verdict_counter(ctx, "as", mode, &eff, false);
                    if eff.is_der() && canonical && mode != Mode::Cer && !single_as_range {
                        ctx.violation(&format!("C03:as:{}:rejects-canonical", op), "a canonical RFC 3779 AS block encoding in plain DER was rejected", json!({"error": e, "case": d()}));
                    }
                }
            }
        }
    }
    if ctx.wants_sample("ber-as") && !enc.eff_list.is_der() {
        ctx.sample("ber-as", || json!({"blocks": blocks_json(&blocks), "liberties": enc.eff_list.name(), "SEQUENCE OF ASIdOrRange": hex(&enc.list), "AsBlocks::take_from": verdicts, "expected_set": blocks_json(&model.iv)}));
    }
    ctx.drain_chain_hook(|| json!({"flavour": "as", "ber": hex(&enc.wrapped)}));
}

//------------ bit strings on their own --------------------------------------

/// `Prefix::from_bit_string` over every length and a handful of padding
/// patterns (the value bits are boundary-dense: zeros, ones, alternating, random).
fn bit_string_sweep(ctx: &mut Ctx, rng: &mut Rng, fl: Flavour, n: u64) {
    for _ in 0..n {
        let nbits = prefix_len(fl, rng);
        let raw = match rng.below(5) {
            0 => 0,
            1 => u128::MAX,
            2 => 0xAAAA_AAAA_AAAA_AAAA_AAAA_AAAA_AAAA_AAAA,
            3 => fl.embed(fl.endpoint(rng), 0).0,
            _ => rng.next_u128(),
        };
        let v = if nbits == 0 { 0 } else { raw & !ones_below(nbits) };
        let mut w = W { rng, p: Profile { pad: true, ..Profile::default() }, eff: Eff::default() };
        let bits = w.bits(v, nbits);
        prefix_laws(ctx, fl, bits.unused, &bits.octets, v, nbits);
    }
}

/// The harness' own writer and model against each other on the plain case
/// (a self-check: the canonical predicate must accept what `canon_elem` calls canonical).
fn self_check(ctx: &mut Ctx, fl: Flavour, canon: &[(u128, u128)]) {
    let obs: Vec<(u128, u128, bool)> = canon.iter().map(|(a, b)| { let (x, y) = fl.embed(*a, *b); (x, y, false) }).collect();
    if canonical_defect(&obs, false).is_some() {
        ctx.notes.push("c03_ber: harness self-check failed (canon_elem is not canonical)".into());
    }
}

pub fn run_ber(ctx: &mut Ctx) {
    let mut rng = ctx.rng("ber");
    let miri = ctx.stage == Stage::Miri;
    if miri {
        // one case per shard, flavours in turn, the mode the family is about and the DER control
        let modes = [Mode::Ber, Mode::Der];
        match ctx.shard % 3 {
            0 => ip_case(ctx, &mut rng, Flavour::V4, false, &modes),
            1 => ip_case(ctx, &mut rng, Flavour::V6, false, &modes),
            _ => as_case(ctx, &mut rng, false, &modes),
        }
        bit_string_sweep(ctx, &mut rng, if ctx.shard % 2 == 0 { Flavour::V4 } else { Flavour::V6 }, 2);
        return;
    }
    let cases = ctx.stage_budget((96_000, 3_200_000), 8_000, 0, 0);
    for i in 0..cases {
        let deep = !miri && i % 2 == 0;
        for fl in [Flavour::V4, Flavour::V6] {
            ip_case(ctx, &mut rng, fl, deep, &MODES);
        }
        as_case(ctx, &mut rng, deep, &MODES);
        bit_string_sweep(ctx, &mut rng, if i % 2 == 0 { Flavour::V4 } else { Flavour::V6 }, if miri { 2 } else { 6 });
        if i == 0 {
            let (b, _) = ber_blocks(Flavour::V4, &mut rng);
            self_check(ctx, Flavour::V4, &canon_elem(Flavour::V4, &b));
        }
    }
}
