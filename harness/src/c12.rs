//! C12 — URIs: parsed form is faithful, equality/hash agree, path algebra
//! is consistent.
//!
//! Workload: every string `rsync://`‖w and `https://`‖w for w over the small
//! alphabet Σ = {a, A, b, /, ., :, space} up to a length bound (enumerated
//! disjointly across shards by index), scheme-case and scheme-corruption
//! variants, all ordered pairs of the accepted URIs up to a smaller bound,
//! parent-of triples, sampled triples, `join` with every string over Σ up to
//! a bound, then random byte strings, single-byte substitutions and
//! structured random URI families with longer paths.
//!
//! Two further parts live in `c12_wide.rs`: every constructor door (octet,
//! `&str`, serde over every transport) on texts with one character outside
//! ASCII at every position, and families of URIs whose authority / module
//! name is 255 .. 131073 octets long (thorough: 1 MiB).
//!
//! Oracle: the laws of the property statement, written here on the *text*
//! of the URIs (own splitter, own reference equality = scheme and authority
//! ASCII-case-folded, rest exact). The library is never asked what the
//! right answer is; it is only asked for its answer.

use crate::core::{hex, Ctx, Rng, Stage, Tier};
use bytes::Bytes;
use rpki::uri::{Https, Rsync};
use serde_json::{json, Value};
use std::collections::HashMap;
use std::hash::Hash;
use std::str::FromStr;

#[path = "c12_wide.rs"]
mod wide;

const SIGMA: [u8; 7] = *b"aAb/.: ";

//------------ reference model ------------------------------------------------

/// Characters the type documentation forbids (SPACE, CONTROL and the listed
/// punctuation) plus everything outside ASCII.
fn forbidden(b: u8) -> bool {
    b <= 0x20
        || b >= 0x7f
        || matches!(
            b,
            b'"' | b'#' | b'<' | b'>' | b'?' | b'[' | b'\\' | b']' | b'^' | b'`' | b'{' | b'|' | b'}'
        )
}

fn scheme_ok(t: &[u8], name: &[u8]) -> bool {
    t.len() >= 8 && t[..5].eq_ignore_ascii_case(name) && &t[5..8] == b"://"
}

/// End of the authority: the first slash after `scheme://` or the end.
fn authority_end(t: &[u8]) -> usize {
    if t.len() <= 8 {
        return t.len();
    }
    t[8..].iter().position(|&c| c == b'/').map(|i| i + 8).unwrap_or(t.len())
}

/// Canonical form under the reference equality: scheme and authority
/// case-folded, the rest untouched.
fn ref_key(t: &[u8]) -> Vec<u8> {
    let end = authority_end(t);
    let mut k = t.to_vec();
    k[..end].make_ascii_lowercase();
    k
}

fn ref_eq(a: &[u8], b: &[u8]) -> bool {
    ref_key(a) == ref_key(b)
}

/// Removes one trailing slash if there is one.
fn strip1(t: &[u8]) -> &[u8] {
    match t.last() {
        Some(b'/') => &t[..t.len() - 1],
        _ => t,
    }
}

#[derive(Clone, Copy, Debug)]
struct RsyncParts {
    auth_end: usize,   // authority = t[8..auth_end]
    module_end: usize, // module name = t[auth_end+1..module_end]
    path_start: usize, // = module_end + 1
}

/// Splits an rsync URI text and checks the requirements of the statement:
/// scheme, non-empty authority and module, a slash after the module, no
/// empty or dot segment in module/path (a trailing slash is allowed).
fn model_rsync(t: &[u8]) -> Result<RsyncParts, &'static str> {
    if !scheme_ok(t, b"rsync") {
        return Err("scheme");
    }
    let auth_end = authority_end(t);
    if auth_end == 8 {
        return Err("empty-authority");
    }
    if auth_end == t.len() {
        return Err("no-module");
    }
    let rest = &t[auth_end + 1..];
    let m = match rest.iter().position(|&c| c == b'/') {
        Some(m) => m,
        None => return Err("module-without-slash"),
    };
    if m == 0 {
        return Err("empty-module");
    }
    let module_end = auth_end + 1 + m;
    let path_start = module_end + 1;
    let module = &t[auth_end + 1..module_end];
    if module == b"." || module == b".." {
        return Err("dot-segment");
    }
    let path = &t[path_start..];
    if !path.is_empty() {
        let segs: Vec<&[u8]> = path.split(|&c| c == b'/').collect();
        for (i, s) in segs.iter().enumerate() {
            if s.is_empty() && i + 1 != segs.len() {
                return Err("empty-segment");
            }
            if *s == b"." || *s == b".." {
                return Err("dot-segment");
            }
        }
    }
    Ok(RsyncParts { auth_end, module_end, path_start })
}

/// The two texts differ in nothing but the case of letters of the module
/// name (used only to name the signature of a finding precisely).
fn differs_in_module_case_only(a: &[u8], b: &[u8]) -> bool {
    match (model_rsync(a), model_rsync(b)) {
        (Ok(pa), Ok(pb)) => {
            pa.auth_end == pb.auth_end
                && pa.module_end == pb.module_end
                && a[..pa.auth_end].eq_ignore_ascii_case(&b[..pb.auth_end])
                && a[pa.auth_end..pa.path_start].eq_ignore_ascii_case(&b[pb.auth_end..pb.path_start])
                && a[pa.auth_end..pa.path_start] != b[pb.auth_end..pb.path_start]
        }
        _ => false,
    }
}

fn hash_of<T: Hash>(t: &T) -> u64 {
    // SipHash and a word-at-a-time hasher (sensitive to the sequence of write calls)
    crate::core::hash2_of(t)
}

fn show(t: &[u8]) -> Value {
    if t.len() > 8192 {
        // the wide families: the case is regenerated from seed and shard; head, tail and a digest identify it
        let cut = |x: &[u8]| String::from_utf8_lossy(x).into_owned();
        let slashes: Vec<usize> = t.iter().enumerate().filter(|(_, c)| **c == b'/').map(|(i, _)| i).take(6).collect();
        return json!({
            "octets": t.len(), "head": cut(&t[..64]), "tail": cut(&t[t.len() - 64..]),
            "first_slashes_at": slashes, "fnv64": format!("{:016x}", crate::core::fnv64(t)),
        });
    }
    match std::str::from_utf8(t) {
        Ok(s) if !s.chars().any(|c| c.is_control()) => json!(s),
        _ => json!({ "hex": hex(t) }),
    }
}

//------------ findings -------------------------------------------------------

struct Finding {
    sig: String,
    desc: String,
    detail: Value,
}

#[derive(Default)]
struct Findings {
    list: Vec<Finding>,
    /// not findings, only recorded: another constructor refused what from_slice accepted
    alt_rejected: u64,
    /// relative_to() was None for a join result although the base is its parent
    relative_none_for_child: u64,
}

impl Findings {
    fn push(&mut self, sig: String, desc: String, detail: Value) {
        // messages quote accessor results: keep those of the wide families readable
        let desc = if desc.len() > 1200 {
            let head: String = desc.chars().take(400).collect();
            let tail: Vec<char> = desc.chars().rev().take(200).collect();
            format!("{head} ... [{} octets] ... {}", desc.len(), tail.into_iter().rev().collect::<String>())
        } else {
            desc
        };
        if self.list.len() < 256 {
            self.list.push(Finding { sig, desc, detail });
        }
    }
    fn flush(self, ctx: &mut Ctx) {
        if self.alt_rejected > 0 {
            ctx.obs("other_constructor_rejected_what_from_slice_accepted", self.alt_rejected);
        }
        if self.relative_none_for_child > 0 {
            ctx.obs("relative_to_none_for_join_result", self.relative_none_for_child);
        }
        for f in self.list {
            ctx.violation(&f.sig, &f.desc, f.detail);
        }
    }
}

type Law = Result<(), (String, String)>;

fn law(name: &str, msg: String) -> Law {
    Err((name.to_string(), msg))
}

//------------ value laws -----------------------------------------------------

/// Laws every `Rsync` value must satisfy with respect to `text`, the text it
/// is supposed to carry.
fn rsync_value_laws(u: &Rsync, text: &[u8]) -> Law {
    if u.as_slice() != text || u.as_str().as_bytes() != text || u.to_string().as_bytes() != text {
        return law("text-changed", format!("as_str() = {:?}", u.as_str()));
    }
    if let Some(c) = text.iter().find(|c| forbidden(**c)) {
        return law("forbidden-char", format!("contains byte {c:#04x}"));
    }
    let parts = match model_rsync(text) {
        Ok(p) => p,
        Err(why) => return law(&format!("invalid-{why}"), format!("value is not a valid rsync URI ({why})")),
    };
    let s = u.as_str();
    let rec = format!("{}{}/{}/{}", &s[..8], u.authority(), u.module_name(), u.path());
    if rec != s {
        return law("recompose", format!("scheme+authority+module+path recompose to {rec:?}"));
    }
    let module = format!("{}{}/{}/", &s[..8], u.authority(), u.module_name());
    if u.module() != module || !s.starts_with(u.module()) {
        return law("module-not-prefix", format!("module() = {:?}", u.module()));
    }
    if u.authority().as_bytes() != &text[8..parts.auth_end]
        || u.module_name().as_bytes() != &text[parts.auth_end + 1..parts.module_end]
        || u.path().as_bytes() != &text[parts.path_start..]
    {
        return law(
            "accessor-split",
            format!(
                "authority {:?} / module {:?} / path {:?} do not split the text at its slashes",
                u.authority(),
                u.module_name(),
                u.path()
            ),
        );
    }
    Ok(())
}

/// The value's text re-parses to an equal value with the same components.
fn rsync_reparse_laws(u: &Rsync) -> Law {
    let text = u.as_slice().to_vec();
    let v = match Rsync::from_slice(&text) {
        Ok(v) => v,
        Err(e) => return law("reparse-rejected", format!("own text does not parse: {e}")),
    };
    if !(v == *u) || !(*u == v) {
        return law("reparse-unequal", "re-parsed value compares unequal".into());
    }
    if v.authority() != u.authority() || v.module_name() != u.module_name() || v.path() != u.path() {
        return law(
            "reparse-components",
            format!(
                "re-parsed components ({:?},{:?},{:?}) differ from ({:?},{:?},{:?})",
                v.authority(),
                v.module_name(),
                v.path(),
                u.authority(),
                u.module_name(),
                u.path()
            ),
        );
    }
    if hash_of(&v) != hash_of(u) {
        return law("reparse-hash", "re-parsed value hashes differently".into());
    }
    Ok(())
}

fn https_value_laws(u: &Https, text: &[u8]) -> Law {
    if u.as_slice() != text || u.as_str().as_bytes() != text || u.to_string().as_bytes() != text {
        return law("text-changed", format!("as_str() = {:?}", u.as_str()));
    }
    if let Some(c) = text.iter().find(|c| forbidden(**c)) {
        return law("forbidden-char", format!("contains byte {c:#04x}"));
    }
    if !scheme_ok(text, b"https") {
        return law("invalid-scheme", "value does not start with https://".into());
    }
    let s = u.as_str();
    if !u.scheme().as_str().eq_ignore_ascii_case(&s[..5]) {
        return law("recompose", format!("scheme() = {:?}", u.scheme().as_str()));
    }
    let rec = format!("{}{}{}", &s[..8], u.authority(), u.path());
    if rec != s {
        return law("recompose", format!("scheme+authority+path recompose to {rec:?}"));
    }
    let end = authority_end(text);
    if u.authority().as_bytes() != &text[8..end] || u.path().as_bytes() != &text[end..] {
        return law(
            "accessor-split",
            format!(
                "authority {:?} / path {:?} do not split the text at its first slash",
                u.authority(),
                u.path()
            ),
        );
    }
    Ok(())
}

fn https_reparse_laws(u: &Https) -> Law {
    let text = u.as_slice().to_vec();
    let v = match Https::from_slice(&text) {
        Ok(v) => v,
        Err(e) => return law("reparse-rejected", format!("own text does not parse: {e}")),
    };
    if !(v == *u) || !(*u == v) {
        return law("reparse-unequal", "re-parsed value compares unequal".into());
    }
    if v.authority() != u.authority() || v.path() != u.path() {
        return law(
            "reparse-components",
            format!(
                "re-parsed components ({:?},{:?}) differ from ({:?},{:?})",
                v.authority(),
                v.path(),
                u.authority(),
                u.path()
            ),
        );
    }
    if hash_of(&v) != hash_of(u) {
        return law("reparse-hash", "re-parsed value hashes differently".into());
    }
    Ok(())
}

//------------ single-URI checks ---------------------------------------------

/// Laws for a freshly parsed rsync URI, its other constructors and parent().
fn rsync_single(u: &Rsync, text: &[u8], f: &mut Findings) -> u64 {
    let mut n = 1;
    if let Err((l, m)) = rsync_value_laws(u, text) {
        f.push(format!("C12:rsync-parse:{l}"), format!("accepted rsync URI: {m}"), json!({"input": show(text)}));
        return n;
    }
    if let Err((l, m)) = rsync_reparse_laws(u) {
        f.push(format!("C12:rsync-parse:{l}"), format!("accepted rsync URI: {m}"), json!({"input": show(text)}));
    }
    // the other constructors
    let s = std::str::from_utf8(text).unwrap_or("");
    let alt = [
        Rsync::from_str(s).ok(),
        Rsync::from_string(s.to_string()).ok(),
        Rsync::from_bytes(Bytes::copy_from_slice(text)).ok(),
        Rsync::try_from(s.to_string()).ok(),
    ];
    for (i, a) in alt.iter().enumerate() {
        n += 1;
        match a {
            Some(a) if a == u && a.as_slice() == text && hash_of(a) == hash_of(u) => {}
            Some(_) => f.push(
                "C12:rsync-parse:constructors-disagree".into(),
                format!("constructor #{i} (from_str/from_string/from_bytes/try_from) yields a value that differs from from_slice's"),
                json!({"input": show(text)}),
            ),
            // acceptance is not obliged; the caller records it
            None => f.alt_rejected += 1,
        }
    }
    // reflexivity, also through the generic PartialEq<AsRef<[u8]>>
    n += 1;
    let c = u.clone();
    if !(*u == c) || hash_of(u) != hash_of(&c) || !(*u == text) {
        f.push("C12:rsync-eq-not-reflexive".into(), "value is not equal to its clone / own text".into(), json!({"input": show(text)}));
    }
    // parent
    n += 1;
    if let Some(p) = u.parent() {
        let ptext = p.as_slice().to_vec();
        let d = || json!({"uri": show(text), "parent": show(&ptext)});
        if let Err((l, m)) = rsync_value_laws(&p, &ptext).and_then(|_| rsync_reparse_laws(&p)) {
            f.push(format!("C12:rsync-parent:{l}"), format!("parent(): {m}"), d());
        } else if !p.authority().eq_ignore_ascii_case(u.authority()) {
            f.push("C12:rsync-parent:authority-changed".into(), "parent() has a different authority".into(), d());
        } else if !p.is_parent_of(u) {
            f.push("C12:rsync-parent:not-parent-of-child".into(), "parent(u).is_parent_of(u) is false".into(), d());
        }
        // equality is decided by the text, also for values that share storage with each other
        n += 1;
        let want = ref_eq(&ptext, text);
        if (p == *u) != want || (*u == p) != want || (want && hash_of(&p) != hash_of(u)) {
            f.push("C12:rsync-eq-vs-reference:parent-and-child".into(), "== between a URI and its parent() disagrees with their texts".into(), d());
        }
    }
    // path_into_dir keeps the value a valid URI: same text or text plus one slash
    n += 1;
    {
        let mut dval = u.clone();
        dval.path_into_dir();
        let dtext = dval.as_slice().to_vec();
        let d = || json!({"uri": show(text), "after_path_into_dir": show(&dtext)});
        let mut with_slash = text.to_vec();
        with_slash.push(b'/');
        if let Err((l, m)) = rsync_value_laws(&dval, &dtext).and_then(|_| rsync_reparse_laws(&dval)) {
            f.push(format!("C12:rsync-path_into_dir:{l}"), format!("path_into_dir(): {m}"), d());
        } else if dtext != text && dtext != with_slash {
            f.push("C12:rsync-path_into_dir:text-changed".into(), "path_into_dir() changed more than a trailing slash".into(), d());
        } else if !dval.authority().eq_ignore_ascii_case(u.authority()) {
            f.push("C12:rsync-path_into_dir:authority-changed".into(), "path_into_dir() changed the authority".into(), d());
        }
    }
    n
}

fn https_single(u: &Https, text: &[u8], f: &mut Findings) -> u64 {
    let mut n = 1;
    if let Err((l, m)) = https_value_laws(u, text) {
        f.push(format!("C12:https-parse:{l}"), format!("accepted https URI: {m}"), json!({"input": show(text)}));
        return n;
    }
    if let Err((l, m)) = https_reparse_laws(u) {
        f.push(format!("C12:https-parse:{l}"), format!("accepted https URI: {m}"), json!({"input": show(text)}));
    }
    let s = std::str::from_utf8(text).unwrap_or("");
    let alt = [
        Https::from_str(s).ok(),
        Https::from_string(s.to_string()).ok(),
        Https::from_bytes(Bytes::copy_from_slice(text)).ok(),
        Https::try_from(s.to_string()).ok(),
    ];
    for (i, a) in alt.iter().enumerate() {
        n += 1;
        match a {
            Some(a) if a == u && a.as_slice() == text && hash_of(a) == hash_of(u) => {}
            Some(_) => f.push(
                "C12:https-parse:constructors-disagree".into(),
                format!("constructor #{i} (from_str/from_string/from_bytes/try_from) yields a value that differs from from_slice's"),
                json!({"input": show(text)}),
            ),
            None => f.alt_rejected += 1,
        }
    }
    n += 1;
    let c = u.clone();
    if !(*u == c) || hash_of(u) != hash_of(&c) {
        f.push("C12:https-eq-not-reflexive".into(), "value is not equal to its clone".into(), json!({"input": show(text)}));
    }
    n += 1;
    if let Some(p) = u.parent() {
        let ptext = p.as_slice().to_vec();
        let d = || json!({"uri": show(text), "parent": show(&ptext)});
        let end = authority_end(text);
        let pend = authority_end(&ptext);
        if let Err((l, m)) = https_value_laws(&p, &ptext).and_then(|_| https_reparse_laws(&p)) {
            f.push(format!("C12:https-parent:{l}"), format!("parent(): {m}"), d());
        } else if !ptext[8..pend].eq_ignore_ascii_case(&text[8..end]) {
            f.push("C12:https-parent:authority-changed".into(), "parent() has a different authority".into(), d());
        } else if !(ptext.len() < text.len() && text[end..].starts_with(&ptext[pend..])) {
            f.push("C12:https-parent:not-above-child".into(), "path of parent() is not a proper prefix of the child's path".into(), d());
        }
        // equality is decided by the text, also for values that share storage with each other
        n += 1;
        let want = ref_eq(&ptext, text);
        if (p == *u) != want || (*u == p) != want || (want && hash_of(&p) != hash_of(u)) {
            f.push("C12:https-eq-vs-reference:parent-and-child".into(), "== between a URI and its parent() disagrees with their texts".into(), d());
        }
    }
    // path_into_dir keeps the value a valid URI: same text or text plus one slash
    n += 1;
    {
        let mut dval = u.clone();
        dval.path_into_dir();
        let dtext = dval.as_slice().to_vec();
        let d = || json!({"uri": show(text), "after_path_into_dir": show(&dtext)});
        let mut with_slash = text.to_vec();
        with_slash.push(b'/');
        if let Err((l, m)) = https_value_laws(&dval, &dtext).and_then(|_| https_reparse_laws(&dval)) {
            f.push(format!("C12:https-path_into_dir:{l}"), format!("path_into_dir(): {m}"), d());
        } else if dtext != text && dtext != with_slash {
            f.push("C12:https-path_into_dir:text-changed".into(), "path_into_dir() changed more than a trailing slash".into(), d());
        }
    }
    n
}

/// `base.join(arg)` for rsync. Returns (evaluations, joined?).
fn rsync_join(base: &Rsync, arg: &[u8], f: &mut Findings) -> (u64, bool) {
    let r = match base.join(arg) {
        Ok(r) => r,
        Err(_) => return (1, false),
    };
    let bt = base.as_slice();
    let rt = r.as_slice().to_vec();
    let d = || json!({"base": show(bt), "arg": show(arg), "result": show(&rt)});
    if let Err((l, m)) = rsync_value_laws(&r, &rt).and_then(|_| rsync_reparse_laws(&r)) {
        f.push(format!("C12:rsync-join:{l}"), format!("join(): {m}"), d());
    } else if !r.authority().eq_ignore_ascii_case(base.authority()) {
        f.push("C12:rsync-join:authority-changed".into(), "join() result has a different authority".into(), d());
    } else if arg.is_empty() {
        // join with the empty path: the statement only says "beneath base";
        // the base itself (what the documentation promises) is accepted too
        if !(r == *base) && !base.is_parent_of(&r) {
            f.push("C12:rsync-join:empty-arg-elsewhere".into(), "join(\"\") is neither the base nor beneath it".into(), d());
        }
    } else if !base.is_parent_of(&r) {
        f.push("C12:rsync-join:not-beneath-base".into(), "base.is_parent_of(base.join(p)) is false".into(), d());
    } else {
        // the relative path back from the result must lead to the result again
        match r.relative_to(base) {
            Some(x) if !x.is_empty() => match base.join(x.as_bytes()) {
                Ok(again) if again == r && ref_eq(again.as_slice(), &rt) => {}
                _ => f.push(
                    "C12:rsync-join:relative_to-roundtrip".into(),
                    "join(base, relative_to(join(base,p), base)) differs from join(base,p)".into(),
                    d(),
                ),
            },
            Some(_) => {
                if !ref_eq(strip1(&rt), strip1(bt)) {
                    f.push(
                        "C12:rsync-join:relative_to-empty-for-unequal".into(),
                        "relative_to(join(base,p), base) is the empty path although the two differ by more than a trailing slash".into(),
                        d(),
                    );
                }
            }
            // the statement says nothing about when relative_to must answer; recorded only
            None => f.relative_none_for_child += 1,
        }
    }
    (1, true)
}

fn https_join(base: &Https, arg: &[u8], f: &mut Findings) -> (u64, bool) {
    let r = match base.join(arg) {
        Ok(r) => r,
        Err(_) => return (1, false),
    };
    let bt = base.as_slice();
    let rt = r.as_slice().to_vec();
    let bend = authority_end(bt);
    // the class of the base is part of the signature: joining onto a URI
    // without any path is a different code path than onto one with a path
    let class = if bend == bt.len() { "https-join-no-path" } else { "https-join" };
    let d = || json!({"base": show(bt), "arg": show(arg), "result": show(&rt)});
    if let Err((l, m)) = https_value_laws(&r, &rt).and_then(|_| https_reparse_laws(&r)) {
        f.push(format!("C12:{class}:{l}"), format!("join(): {m}"), d());
    } else {
        let rend = authority_end(&rt);
        if !rt[8..rend].eq_ignore_ascii_case(&bt[8..bend]) {
            f.push(format!("C12:{class}:authority-changed"), "join() result has a different authority".into(), d());
        } else if !rt[rend..].starts_with(&bt[bend..]) {
            f.push(format!("C12:{class}:not-beneath-base"), "path of join() result does not start with the base path".into(), d());
        }
    }
    (1, true)
}

//------------ enumeration ----------------------------------------------------

/// Calls `f(global_index, w)` for every w over Σ with |w| <= max_len, in
/// length-then-lexicographic order. The global index is what shards split on.
fn for_each_word(max_len: usize, mut f: impl FnMut(u64, &[u8])) {
    let mut g: u64 = 0;
    for len in 0..=max_len {
        let total = (SIGMA.len() as u64).pow(len as u32);
        let mut w = vec![SIGMA[0]; len];
        for idx in 0..total {
            let mut x = idx;
            for pos in (0..len).rev() {
                w[pos] = SIGMA[(x % SIGMA.len() as u64) as usize];
                x /= SIGMA.len() as u64;
            }
            f(g, &w);
            g += 1;
        }
    }
}

fn words(max_len: usize) -> Vec<Vec<u8>> {
    let mut v = Vec::new();
    for_each_word(max_len, |_, w| v.push(w.to_vec()));
    v
}

const RSYNC_SCHEMES: [&[u8]; 3] = [b"rsync://", b"RSYNC://", b"rSyNc://"];
const HTTPS_SCHEMES: [&[u8]; 3] = [b"https://", b"HTTPS://", b"hTtPs://"];
const BROKEN_SCHEMES: [&[u8]; 16] = [
    b"", b"rsync:/", b"rsync//", b"rsync:", b"rsynd://", b"rsyn://", b"rsyncc://", b" rsync://", b"rsync ://",
    b"http://", b"https:/", b"https//", b"httpss://", b"ttps://", b"https:\\\\", b"rsync:/ /",
];

struct Bounds {
    /// |w| bound of the main enumeration
    l_enum: usize,
    /// |w| bound of the scheme variants / corruptions
    l_variant: usize,
    /// |w| bound of the rsync / https pair domains (plain scheme) and of their scheme variants
    l_pair_rsync: usize,
    l_pair_rsync_var: usize,
    l_pair_https: usize,
    l_pair_https_var: usize,
    /// join arguments: all words up to this length for bases with |w| <= l_join_base, up to 1 beyond
    l_join_arg: usize,
    l_join_base_rsync: usize,
    l_join_base_https: usize,
}

fn bounds(ctx: &Ctx) -> Bounds {
    match (ctx.stage, ctx.tier) {
        (Stage::Native, Tier::Thorough) => Bounds {
            l_enum: 7, l_variant: 5, l_pair_rsync: 7, l_pair_rsync_var: 5, l_pair_https: 5, l_pair_https_var: 3,
            l_join_arg: 4, l_join_base_rsync: 7, l_join_base_https: 5,
        },
        (Stage::Native, Tier::Quick) => Bounds {
            l_enum: 6, l_variant: 4, l_pair_rsync: 6, l_pair_rsync_var: 5, l_pair_https: 4, l_pair_https_var: 3,
            l_join_arg: 3, l_join_base_rsync: 6, l_join_base_https: 4,
        },
        (Stage::Asan, _) | (Stage::Valgrind, _) => Bounds {
            l_enum: 5, l_variant: 4, l_pair_rsync: 6, l_pair_rsync_var: 4, l_pair_https: 3, l_pair_https_var: 2,
            l_join_arg: 3, l_join_base_rsync: 5, l_join_base_https: 3,
        },
        // Miri: the pair domains are fixed lists (MIRI_RSYNC / MIRI_HTTPS), not enumerated
        (Stage::Miri, _) => Bounds {
            l_enum: 4, l_variant: 1, l_pair_rsync: 0, l_pair_rsync_var: 0, l_pair_https: 0, l_pair_https_var: 0,
            l_join_arg: 1, l_join_base_rsync: 4, l_join_base_https: 4,
        },
    }
}

/// Pair domains of the Miri stage: small, but with every relation the laws
/// talk about (equal by case, equal up to a slash, parent chains of depth 3,
/// name-prefix siblings, other module / authority).
const MIRI_RSYNC: [&str; 18] = [
    "rsync://a/a/", "rsync://A/a/", "RSYNC://a/a/", "rsync://a/A/", "rsync://a/a/a", "rsync://a/a/a/", "rsync://a/a/A",
    "rsync://a/a/a/b", "rsync://a/a/a/b/", "rsync://a/a/ab", "rsync://a/a/a/b/a.b", "rsync://A/a/a/b", "rsync://b/a/",
    "rsync://a/b/", "rsync://a/a/b", "rsync://a:1/a/", "rsync://a/a/...", "rSyNc://a/a/a/b/",
];
const MIRI_HTTPS: [&str; 12] = [
    "https://", "https://a", "https://A", "HTTPS://a", "https://a/", "https://a/b", "https://A/b", "https://a/B",
    "https://a/b/", "https://a//", "https://a/b/a.b", "https://b",
];

//------------ pair domains ---------------------------------------------------

struct Entry<U> {
    text: Vec<u8>,
    uri: U,
    hash: u64,
    /// id of the reference-equality class
    cls: u32,
    /// id of the class under "equal up to one trailing slash"
    scls: u32,
    /// index of the first member of the same reference-equality class
    rep: usize,
    /// bucket id: scheme, authority and module name all case-folded (rsync)
    bucket: u32,
}

fn intern(map: &mut HashMap<Vec<u8>, u32>, key: Vec<u8>) -> u32 {
    let n = map.len() as u32;
    *map.entry(key).or_insert(n)
}

fn build_domain<U: Hash>(items: Vec<(Vec<u8>, U)>, rsync: bool) -> (Vec<Entry<U>>, Vec<Vec<usize>>) {
    let mut cls_map = HashMap::new();
    let mut scls_map = HashMap::new();
    let mut bucket_map = HashMap::new();
    let mut first_of_cls: HashMap<u32, usize> = HashMap::new();
    let mut out: Vec<Entry<U>> = Vec::with_capacity(items.len());
    let mut buckets: Vec<Vec<usize>> = Vec::new();
    for (text, uri) in items {
        let cls = intern(&mut cls_map, ref_key(&text));
        let scls = intern(&mut scls_map, ref_key(strip1(&text)));
        let bkey = if rsync {
            match model_rsync(&text) {
                Ok(p) => text[..p.path_start].to_ascii_lowercase(),
                Err(_) => text.to_ascii_lowercase(),
            }
        } else {
            text[..authority_end(&text)].to_ascii_lowercase()
        };
        let bucket = intern(&mut bucket_map, bkey);
        let idx = out.len();
        let rep = *first_of_cls.entry(cls).or_insert(idx);
        if bucket as usize >= buckets.len() {
            buckets.push(Vec::new());
        }
        buckets[bucket as usize].push(idx);
        let hash = hash_of(&uri);
        out.push(Entry { text, uri, hash, cls, scls, rep, bucket });
    }
    (out, buckets)
}

/// All laws about one ordered pair of rsync URIs. Returns (is related, a is parent of b).
#[inline]
fn rsync_pair(dom: &[Entry<Rsync>], i: usize, j: usize, f: &mut Findings) -> (bool, bool) {
    let (a, b) = (&dom[i], &dom[j]);
    let eq = a.uri == b.uri;
    let want_eq = a.cls == b.cls;
    if eq != want_eq {
        f.push(
            "C12:rsync-eq-vs-reference".into(),
            format!("(a == b) is {eq} but scheme/authority-folded texts are {}", if want_eq { "equal" } else { "different" }),
            json!({"a": show(&a.text), "b": show(&b.text)}),
        );
    }
    if eq && a.hash != b.hash {
        f.push("C12:rsync-eq-hash".into(), "equal URIs hash differently".into(), json!({"a": show(&a.text), "b": show(&b.text)}));
    }
    let rel = a.uri.relative_to(&b.uri);
    let same_up_to_slash = a.scls == b.scls;
    let case = |a: &[u8], b: &[u8]| if differs_in_module_case_only(strip_to_module(a), strip_to_module(b)) { "-module-case" } else { "" };
    match rel {
        Some("") => {
            if !same_up_to_slash {
                f.push(
                    format!("C12:rsync-relative_to{}:empty-for-unequal", case(&a.text, &b.text)),
                    "relative_to() reports the empty path for URIs that are not equal up to one trailing slash".into(),
                    json!({"self": show(&a.text), "other": show(&b.text)}),
                );
            }
        }
        Some(x) => {
            if same_up_to_slash {
                f.push(
                    "C12:rsync-relative_to:nonempty-for-equal".into(),
                    format!("relative_to() reports {x:?} for URIs equal up to one trailing slash"),
                    json!({"self": show(&a.text), "other": show(&b.text)}),
                );
            }
            match b.uri.join(x.as_bytes()) {
                Ok(r) if r == a.uri && a.uri == r && ref_eq(r.as_slice(), &a.text) => {}
                other => f.push(
                    format!("C12:rsync-relative_to{}:join-roundtrip", case(&a.text, &b.text)),
                    format!(
                        "other.join(self.relative_to(other)) = {} which is not self",
                        match &other {
                            Ok(r) => format!("{:?}", r.as_str()),
                            Err(e) => format!("Err({e})"),
                        }
                    ),
                    json!({"self": show(&a.text), "other": show(&b.text), "relative": x}),
                ),
            }
        }
        None => {
            if same_up_to_slash {
                f.push(
                    "C12:rsync-relative_to:none-for-equal".into(),
                    "relative_to() is None for URIs equal up to one trailing slash".into(),
                    json!({"self": show(&a.text), "other": show(&b.text)}),
                );
            }
        }
    }
    let par = a.uri.is_parent_of(&b.uri);
    if par && want_eq {
        f.push("C12:rsync-is_parent_of:reflexive".into(), "a URI is a parent of an equal URI".into(), json!({"a": show(&a.text), "b": show(&b.text)}));
    }
    if a.rep != i || b.rep != j {
        let par2 = dom[a.rep].uri.is_parent_of(&dom[b.rep].uri);
        if par2 != par {
            f.push(
                "C12:rsync-is_parent_of:not-invariant-under-equality".into(),
                format!("is_parent_of(a,b) = {par} but {par2} after replacing both by equal URIs"),
                json!({"a": show(&a.text), "b": show(&b.text), "a_equal": show(&dom[a.rep].text), "b_equal": show(&dom[b.rep].text)}),
            );
        }
    }
    (want_eq || eq || rel.is_some() || par, par)
}

/// For classification only: the text up to and including the slash after
/// the module name plus a dummy tail, so that two URIs with different paths
/// can be compared for "module name differs in case only".
fn strip_to_module(t: &[u8]) -> &[u8] {
    match model_rsync(t) {
        Ok(p) => &t[..p.path_start],
        Err(_) => t,
    }
}

//------------ random generators ----------------------------------------------

const HOST_CHARS: &[u8] = b"abcxyzABCXYZ0129.-:";
const SEG_CHARS: &[u8] = b"abcxyzABCXYZ0129.-_~!$%&'()*+,;=:";

/// Segment shapes a parser, `join` or a later "hardening" may single out:
/// percent-encoded dots, slashes and NUL, runs of dots, hidden files,
/// single punctuation characters, names with bracket-like structure. Which
/// of them are valid is decided by the reference model, not here.
const SEG_DICT: &[&[u8]] = &[
    b"%2e", b"%2E", b"%2e%2e", b"%2E%2E", b"%2e%2E", b".%2e", b"%2e.", b"%2e%2e%2e", b"a%2eb", b"%2f", b"%2F", b"%5c",
    b"%00", b"%", b"%%", b"%2", b"%zz", b"...", b"....", b".a", b"a.", b"..a", b"a..", b".-", b".git", b".rsync-filter",
    b"~", b"~a", b"-", b"_", b"--", b"*", b"+", b"$", b"!", b"'", b"(", b")", b"(a)", b",", b";", b"=", b"a=b", b"a;b",
    b"@", b"a@b", b":", b"::", b"a:b", b"&", b"a&b", b"&amp;", b"0", b"00", b"index.html", b"a.cer", b"con", b"nul",
    b"[a]", b"{a}", b"<a>", b"\"a\"", b"a?b=c", b"a#b", b"a b", b"a\\b", b"a|b", b"a^b", b"a`b", b"\xc3\xa4",
];

/// Authorities with structure: ports, user info, IP literals in brackets,
/// dotted quads, punycode, forbidden characters in plausible positions.
const AUTH_DICT: &[&[u8]] = &[
    b"host:873", b"host:", b":873", b"user@host", b"user:pw@host", b"[::1]", b"[2001:db8::1]", b"[2001:DB8::1]:873",
    b"[::ffff:192.0.2.1]", b"[v1.a]", b"[host]", b"[]", b"[", b"]", b"[::1", b"::1]", b"a[::1]", b"192.0.2.1",
    b"192.0.2.1:443", b"xn--bcher-kva.example", b"example.com.", b"EXAMPLE.com", b"a..b", b"-a-", b"a_b", b"a b",
    b"a\"b", b"<host>", b"{host}", b"a|b", b"a^b", b"a`b", b"a\\b", b"a#b", b"a?b", b"%41", b"a%2fb", b"localhost",
];

/// A path segment or module name: random over the permitted characters, or
/// (one time in four) one of the structured shapes above.
fn rand_seg(rng: &mut Rng, min: usize, max: usize) -> Vec<u8> {
    if rng.chance(1, 4) {
        return rng.pick(SEG_DICT).to_vec();
    }
    rand_token(rng, SEG_CHARS, min, max)
}

fn rand_auth(rng: &mut Rng, min: usize, max: usize) -> Vec<u8> {
    if rng.chance(1, 5) {
        return rng.pick(AUTH_DICT).to_vec();
    }
    rand_token(rng, HOST_CHARS, min, max)
}

fn rand_token(rng: &mut Rng, chars: &[u8], min: usize, max: usize) -> Vec<u8> {
    loop {
        let n = rng.range(min as u64, max as u64) as usize;
        let t: Vec<u8> = (0..n).map(|_| *rng.pick(chars)).collect();
        if t != b"." && t != b".." {
            return t;
        }
    }
}

fn flip_case(rng: &mut Rng, t: &mut [u8]) {
    for c in t.iter_mut() {
        if c.is_ascii_alphabetic() && rng.chance(1, 2) {
            *c ^= 0x20;
        }
    }
}

/// A family of related rsync URI texts: one base, its ancestors, trailing
/// slash variants, case variants in every component, a sibling.
fn rsync_family(rng: &mut Rng) -> Vec<Vec<u8>> {
    let auth = rand_auth(rng, 1, 10);
    let module = rand_seg(rng, 1, 6);
    let nseg = rng.below(5) as usize;
    let segs: Vec<Vec<u8>> = (0..nseg).map(|_| rand_seg(rng, 1, 5)).collect();
    let build = |scheme: &[u8], auth: &[u8], module: &[u8], segs: &[Vec<u8>], slash: bool| {
        let mut t = scheme.to_vec();
        t.extend_from_slice(auth);
        t.push(b'/');
        t.extend_from_slice(module);
        t.push(b'/');
        for (i, s) in segs.iter().enumerate() {
            if i > 0 {
                t.push(b'/');
            }
            t.extend_from_slice(s);
        }
        if slash && !segs.is_empty() {
            t.push(b'/');
        }
        t
    };
    let mut fam = Vec::new();
    for k in 0..=nseg {
        fam.push(build(b"rsync://", &auth, &module, &segs[..k], false));
        if k > 0 && rng.chance(2, 3) {
            fam.push(build(b"rsync://", &auth, &module, &segs[..k], true));
        }
    }
    // case variants
    let mut a2 = auth.clone();
    flip_case(rng, &mut a2);
    fam.push(build(*rng.pick(&RSYNC_SCHEMES), &a2, &module, &segs, rng.bool()));
    let mut m2 = module.clone();
    flip_case(rng, &mut m2);
    fam.push(build(b"rsync://", &auth, &m2, &segs, rng.bool()));
    if nseg > 0 {
        let mut s2 = segs.clone();
        let k = rng.usize_below(nseg);
        flip_case(rng, &mut s2[k]);
        fam.push(build(b"rsync://", &auth, &module, &s2, false));
        // sibling sharing a name prefix
        let mut s3 = segs.clone();
        s3[nseg - 1].push(*rng.pick(SEG_CHARS));
        fam.push(build(b"rsync://", &auth, &module, &s3, false));
        let mut s4 = segs[..nseg - 1].to_vec();
        s4.push(rand_seg(rng, 1, 4));
        fam.push(build(b"rsync://", &a2, &module, &s4, rng.bool()));
    }
    fam
}

fn https_family(rng: &mut Rng) -> Vec<Vec<u8>> {
    let auth = rand_auth(rng, 0, 10);
    let nseg = rng.below(5) as usize;
    let segs: Vec<Vec<u8>> = (0..nseg).map(|_| rand_seg(rng, 0, 5)).collect();
    let build = |scheme: &[u8], auth: &[u8], segs: &[Vec<u8>], slash: bool| {
        let mut t = scheme.to_vec();
        t.extend_from_slice(auth);
        for s in segs {
            t.push(b'/');
            t.extend_from_slice(s);
        }
        if slash {
            t.push(b'/');
        }
        t
    };
    let mut fam = Vec::new();
    for k in 0..=nseg {
        fam.push(build(b"https://", &auth, &segs[..k], false));
        if rng.chance(1, 2) {
            fam.push(build(b"https://", &auth, &segs[..k], true));
        }
    }
    let mut a2 = auth.clone();
    flip_case(rng, &mut a2);
    fam.push(build(*rng.pick(&HTTPS_SCHEMES), &a2, &segs, rng.bool()));
    if nseg > 0 {
        let mut s2 = segs.clone();
        let k = rng.usize_below(nseg);
        flip_case(rng, &mut s2[k]);
        fam.push(build(b"https://", &auth, &s2, false));
    }
    fam
}

fn rand_join_arg(rng: &mut Rng) -> Vec<u8> {
    match rng.below(10) {
        0 => Vec::new(),
        1 => b"..".to_vec(),
        2 => {
            let mut t = rand_seg(rng, 1, 4);
            t.extend_from_slice(b"/../x");
            t
        }
        3 => {
            let mut t = b"/".to_vec();
            t.extend(rand_seg(rng, 1, 4));
            t
        }
        4 => {
            let mut t = rand_seg(rng, 1, 4);
            t.extend_from_slice(b"//");
            t.extend(rand_seg(rng, 1, 4));
            t
        }
        5 => {
            let n = rng.range(1, 6) as usize;
            rng.bytes(n)
        }
        _ => {
            let n = rng.range(1, 3);
            let mut t = Vec::new();
            for i in 0..n {
                if i > 0 {
                    t.push(b'/');
                }
                t.extend(rand_seg(rng, 1, 5));
            }
            if rng.chance(1, 3) {
                t.push(b'/');
            }
            t
        }
    }
}

//------------ the monitor ----------------------------------------------------

struct Counters {
    evals: u64,
    rsync_accepted: u64,
    rsync_rejected: u64,
    https_accepted: u64,
    https_rejected: u64,
    model_valid_but_rejected: u64,
    joins_ok: u64,
    joins_err: u64,
    parents_some: u64,
    parents_none: u64,
}

/// Parses `text` with both parsers and applies the single-URI laws.
/// Returns the parsed values.
fn offer(ctx: &mut Ctx, c: &mut Counters, text: &[u8], what: &str) -> (Option<Rsync>, Option<Https>) {
    let res = ctx.no_panic(what, || json!({"input": show(text)}), || {
        let mut f = Findings::default();
        let mut n = 2u64;
        let r = Rsync::from_slice(text).ok();
        let h = Https::from_slice(text).ok();
        // every other way a text can become a URI value: the laws hold for whatever any of them accepts
        if what != "parse" || crate::core::fnv64(text) % 4 == 0 {
            n += other_doors(text, r.as_ref(), h.as_ref(), &mut f);
        }
        let mut parents = (0u64, 0u64);
        if let Some(u) = &r {
            n += rsync_single(u, text, &mut f);
            if u.parent().is_some() { parents.0 += 1 } else { parents.1 += 1 }
        }
        if let Some(u) = &h {
            n += https_single(u, text, &mut f);
            if u.parent().is_some() { parents.0 += 1 } else { parents.1 += 1 }
        }
        (r, h, f, n, parents)
    });
    match res {
        Some((r, h, f, n, parents)) => {
            c.evals += n;
            c.parents_some += parents.0;
            c.parents_none += parents.1;
            if r.is_some() {
                c.rsync_accepted += 1;
            } else {
                c.rsync_rejected += 1;
                if !text.iter().any(|b| forbidden(*b)) && model_rsync(text).is_ok() {
                    // not demanded by the statement; recorded only
                    c.model_valid_but_rejected += 1;
                    if ctx.wants_sample("rsync rejected though the statement allows it") {
                        let why = Rsync::from_slice(text).err().map(|e| e.to_string());
                        ctx.sample("rsync rejected though the statement allows it", || json!({"input": show(text), "error": why}));
                    }
                }
            }
            if h.is_some() { c.https_accepted += 1 } else { c.https_rejected += 1 }
            f.flush(ctx);
            (r, h)
        }
        None => (None, None),
    }
}

/// The constructors besides `from_slice` — `from_str`, `from_string`,
/// `from_bytes`, `TryFrom<String>`, and `Deserialize` over the token format
/// with borrowed / transient / owned strings and over `serde_json::Value` —
/// each given the same text. Whatever one of them accepts is an accepted URI:
/// the value laws and the re-parse laws apply to it, and it must equal (and
/// hash like) the value `from_slice` made if that accepted too.
fn other_doors(text: &[u8], r: Option<&Rsync>, h: Option<&Https>, f: &mut Findings) -> u64 {
    use crate::serde_tok::{from_tok, De, Strings, Tok};
    let s = match std::str::from_utf8(text) {
        Ok(s) => s,
        Err(_) => {
            // only the octet doors exist for text that is not UTF-8
            let a = Rsync::from_bytes(Bytes::copy_from_slice(text)).ok();
            let b = Https::from_bytes(Bytes::copy_from_slice(text)).ok();
            if a.is_some() || b.is_some() {
                f.push("C12:parse-from_bytes:non-utf8-accepted".into(), "from_bytes accepts text that is not UTF-8".into(), json!({"input": show(text)}));
            }
            return 2;
        }
    };
    let tok = Tok::Str(s.to_string());
    let de = |strings| De { human_readable: true, strings, structs_as_seq: false };
    let mut n = 0u64;
    let rs: [(&str, Option<Rsync>); 8] = [
        ("from_str", Rsync::from_str(s).ok()),
        ("from_string", Rsync::from_string(s.to_string()).ok()),
        ("from_bytes", Rsync::from_bytes(Bytes::copy_from_slice(text)).ok()),
        ("try_from", Rsync::try_from(s.to_string()).ok()),
        ("serde-borrowed", from_tok::<Rsync>(&tok, de(Strings::Borrowed)).ok()),
        ("serde-transient", from_tok::<Rsync>(&tok, de(Strings::Transient)).ok()),
        ("serde-owned", from_tok::<Rsync>(&tok, de(Strings::Owned)).ok()),
        ("serde-json-value", serde_json::from_value::<Rsync>(Value::String(s.to_string())).ok()),
    ];
    for (door, v) in rs.iter() {
        n += 1;
        let v = match v {
            Some(v) => v,
            None => continue,
        };
        if let Err((l, m)) = rsync_value_laws(v, text).and_then(|_| rsync_reparse_laws(v)) {
            f.push(format!("C12:rsync-parse-{door}:{l}"), format!("rsync URI accepted by {door}: {m}"), json!({"input": show(text)}));
        } else if let Some(u) = r {
            if v != u || hash_of(v) != hash_of(u) {
                f.push(format!("C12:rsync-parse-{door}:differs-from-from_slice"), "two constructors make unequal values of the same text".into(), json!({"input": show(text)}));
            }
        }
    }
    let hs: [(&str, Option<Https>); 8] = [
        ("from_str", Https::from_str(s).ok()),
        ("from_string", Https::from_string(s.to_string()).ok()),
        ("from_bytes", Https::from_bytes(Bytes::copy_from_slice(text)).ok()),
        ("try_from", Https::try_from(s.to_string()).ok()),
        ("serde-borrowed", from_tok::<Https>(&tok, de(Strings::Borrowed)).ok()),
        ("serde-transient", from_tok::<Https>(&tok, de(Strings::Transient)).ok()),
        ("serde-owned", from_tok::<Https>(&tok, de(Strings::Owned)).ok()),
        ("serde-json-value", serde_json::from_value::<Https>(Value::String(s.to_string())).ok()),
    ];
    for (door, v) in hs.iter() {
        n += 1;
        let v = match v {
            Some(v) => v,
            None => continue,
        };
        if let Err((l, m)) = https_value_laws(v, text).and_then(|_| https_reparse_laws(v)) {
            f.push(format!("C12:https-parse-{door}:{l}"), format!("https URI accepted by {door}: {m}"), json!({"input": show(text)}));
        } else if let Some(u) = h {
            if v != u || hash_of(v) != hash_of(u) {
                f.push(format!("C12:https-parse-{door}:differs-from-from_slice"), "two constructors make unequal values of the same text".into(), json!({"input": show(text)}));
            }
        }
    }
    // serialising an accepted value gives its text back, in both kinds of format
    if let Some(u) = r {
        for hr in [true, false] {
            n += 1;
            match crate::serde_tok::to_tok(u, hr) {
                Ok(t) => {
                    let back = crate::serde_tok::De::all(hr).into_iter().all(|d| matches!(from_tok::<Rsync>(&t, d), Ok(b) if b == *u && b.as_slice() == text));
                    if !back {
                        f.push("C12:rsync-serde:roundtrip".into(), format!("the serde form ({}) of an accepted URI does not read back to it over every transport", if hr { "human-readable" } else { "compact" }), json!({"input": show(text), "tokens": format!("{:?}", t)}));
                    }
                }
                Err(e) => f.push("C12:rsync-serde:serialize-failed".into(), e.to_string(), json!({"input": show(text)})),
            }
        }
    }
    if let Some(u) = h {
        for hr in [true, false] {
            n += 1;
            match crate::serde_tok::to_tok(u, hr) {
                Ok(t) => {
                    let back = crate::serde_tok::De::all(hr).into_iter().all(|d| matches!(from_tok::<Https>(&t, d), Ok(b) if b == *u && b.as_slice() == text));
                    if !back {
                        f.push("C12:https-serde:roundtrip".into(), format!("the serde form ({}) of an accepted URI does not read back to it over every transport", if hr { "human-readable" } else { "compact" }), json!({"input": show(text), "tokens": format!("{:?}", t)}));
                    }
                }
                Err(e) => f.push("C12:https-serde:serialize-failed".into(), e.to_string(), json!({"input": show(text)})),
            }
        }
    }
    n
}

//------------ family laws ------------------------------------------------------

/// Every law of the module over one family of related rsync URI texts: the
/// single-URI laws for each member, all ordered pairs, `join` with `args` on
/// every member, all parent-of chains. Returns (related pairs, members).
fn rsync_family_laws(ctx: &mut Ctx, c: &mut Counters, texts: &[Vec<u8>], args: &[Vec<u8>], what: &str) -> Option<(u64, usize)> {
    let mut items = Vec::new();
    for t in texts {
        let (r, _) = offer(ctx, c, t, &format!("parse-{what}"));
        match r {
            Some(u) => items.push((t.clone(), u)),
            None => ctx.obs(&format!("{what}_member_rejected"), 1),
        }
    }
    rsync_domain_laws(ctx, c, items, args, what)
}

/// The pair, join and chain laws over already parsed members.
fn rsync_domain_laws(ctx: &mut Ctx, c: &mut Counters, items: Vec<(Vec<u8>, Rsync)>, args: &[Vec<u8>], what: &str) -> Option<(u64, usize)> {
    let texts: Vec<Vec<u8>> = items.iter().map(|(t, _)| t.clone()).collect();
    let res = ctx.no_panic(&format!("rsync-{what}"), || json!({"family": texts.iter().map(|t| show(t)).collect::<Vec<_>>()}), || {
        let mut f = Findings::default();
        let (dom, _) = build_domain(items, true);
        let mut n = 0u64;
        let mut related = 0u64;
        let (mut ok, mut err) = (0u64, 0u64);
        for i in 0..dom.len() {
            for j in 0..dom.len() {
                let (rel, _) = rsync_pair(&dom, i, j, &mut f);
                if rel {
                    related += 1;
                }
                n += 1;
            }
            for a in args {
                let (_, joined) = rsync_join(&dom[i].uri, a, &mut f);
                if joined { ok += 1 } else { err += 1 }
                n += 1;
            }
        }
        for i in 0..dom.len() {
            for j in 0..dom.len() {
                if !dom[i].uri.is_parent_of(&dom[j].uri) {
                    continue;
                }
                for k in 0..dom.len() {
                    n += 1;
                    if dom[j].uri.is_parent_of(&dom[k].uri) && !dom[i].uri.is_parent_of(&dom[k].uri) {
                        f.push("C12:rsync-is_parent_of:not-transitive".into(), "a is parent of b, b is parent of c, but a is not parent of c".into(),
                            json!({"a": show(&dom[i].text), "b": show(&dom[j].text), "c": show(&dom[k].text)}));
                    }
                }
            }
        }
        (f, n, related, ok, err, dom.len())
    });
    let (f, n, related, ok, err, size) = res?;
    c.evals += n;
    c.joins_ok += ok;
    c.joins_err += err;
    f.flush(ctx);
    Some((related, size))
}

/// The same for https: single-URI laws, `==` against the reference equality
/// and hash agreement on all ordered pairs, `join` with `args` on every member.
/// Returns (equal pairs, members).
fn https_family_laws(ctx: &mut Ctx, c: &mut Counters, texts: &[Vec<u8>], args: &[Vec<u8>], what: &str) -> Option<(u64, usize)> {
    let mut items = Vec::new();
    for t in texts {
        let (_, h) = offer(ctx, c, t, &format!("parse-{what}"));
        match h {
            Some(u) => items.push((t.clone(), u)),
            None => ctx.obs(&format!("{what}_member_rejected"), 1),
        }
    }
    https_domain_laws(ctx, c, items, args, what)
}

fn https_domain_laws(ctx: &mut Ctx, c: &mut Counters, items: Vec<(Vec<u8>, Https)>, args: &[Vec<u8>], what: &str) -> Option<(u64, usize)> {
    let texts: Vec<Vec<u8>> = items.iter().map(|(t, _)| t.clone()).collect();
    let res = ctx.no_panic(&format!("https-{what}"), || json!({"family": texts.iter().map(|t| show(t)).collect::<Vec<_>>()}), || {
        let mut f = Findings::default();
        let (dom, _) = build_domain(items, false);
        let mut n = 0u64;
        let mut equal = 0u64;
        let (mut ok, mut err) = (0u64, 0u64);
        for a in dom.iter() {
            for bb in dom.iter() {
                n += 1;
                let eq = a.uri == bb.uri;
                if eq != (a.cls == bb.cls) {
                    f.push("C12:https-eq-vs-reference".into(), format!("(a == b) is {eq}, reference equality says otherwise"),
                        json!({"a": show(&a.text), "b": show(&bb.text)}));
                }
                if eq && a.hash != bb.hash {
                    f.push("C12:https-eq-hash".into(), "equal URIs hash differently".into(), json!({"a": show(&a.text), "b": show(&bb.text)}));
                }
                if a.cls == bb.cls {
                    equal += 1;
                }
            }
            for arg in args {
                let (_, joined) = https_join(&a.uri, arg, &mut f);
                if joined { ok += 1 } else { err += 1 }
                n += 1;
            }
        }
        (f, n, equal, ok, err, dom.len())
    });
    let (f, n, equal, ok, err, size) = res?;
    c.evals += n;
    c.joins_ok += ok;
    c.joins_err += err;
    f.flush(ctx);
    Some((equal, size))
}

//------------ size-dependent behaviour -----------------------------------------

/// Lengths around which fixed-size buffers, SIMD lanes and small-string
/// optimisations typically change behaviour.
const SIZE_EDGES: [usize; 24] = [
    15, 16, 17, 31, 32, 33, 63, 64, 65, 127, 128, 129, 255, 256, 257, 511, 512, 513, 1023, 1024, 1025, 4095, 4096, 4097,
];

#[derive(Clone, Copy, Debug, PartialEq, Eq)]
enum Comp {
    Authority,
    Module,
    Path,
}

/// One family of the size sweep: `rsync` or https, the component that is made
/// long, the target length, and whether the *component* has that length or
/// the text *up to the end of the component* has it.
#[derive(Clone, Copy, Debug)]
struct SizeSpec {
    rsync: bool,
    comp: Comp,
    len: usize,
    absolute: bool,
}

fn size_specs() -> Vec<SizeSpec> {
    let mut v = Vec::new();
    for &len in SIZE_EDGES.iter() {
        for absolute in [false, true] {
            for (rsync, comp) in [(true, Comp::Authority), (true, Comp::Module), (true, Comp::Path), (false, Comp::Authority), (false, Comp::Path)] {
                v.push(SizeSpec { rsync, comp, len, absolute });
            }
        }
    }
    v
}

const LONG_LETTERS: &[u8] = b"abcdefghijklmnopqrstuvwxyzABCDEFGHIJKLMNOPQRSTUVWXYZ";

/// `n` characters, mostly letters of both cases; `seps` are sprinkled in
/// (never first, last or twice in a row) so that long host names have labels
/// and long paths have segments.
fn long_token(rng: &mut Rng, n: usize, seps: &[u8]) -> Vec<u8> {
    let mut t: Vec<u8> = Vec::with_capacity(n);
    for i in 0..n {
        let prev_sep = t.last().map(|c| !c.is_ascii_alphanumeric()).unwrap_or(true);
        if !seps.is_empty() && !prev_sep && i + 1 < n && rng.chance(1, 12) {
            t.push(*rng.pick(seps));
        } else if rng.chance(1, 10) {
            t.push(b'0' + rng.below(10) as u8);
        } else {
            t.push(*rng.pick(LONG_LETTERS));
        }
    }
    t
}

/// The members of one size family and the range of the long component.
/// Returns (texts, component range, positions where single letters were flipped).
fn size_family(rng: &mut Rng, spec: SizeSpec, max_flips: usize) -> Option<(Vec<Vec<u8>>, (usize, usize), Vec<usize>)> {
    // short companions
    let auth = rand_token(rng, b"abcxyzABCXYZ0129", 1, 6);
    let module = rand_token(rng, b"abcxyzABCXYZ0129", 1, 5);
    let scheme: &[u8] = if spec.rsync { b"rsync://" } else { b"https://" };
    // where the long component starts
    let start = match (spec.rsync, spec.comp) {
        (_, Comp::Authority) => 8,
        (true, Comp::Module) => 8 + auth.len() + 1,
        (true, Comp::Path) => 8 + auth.len() + 1 + module.len() + 1,
        (false, Comp::Path) => 8 + auth.len() + 1,
        (false, Comp::Module) => return None,
    };
    let clen = if spec.absolute { spec.len.checked_sub(start)? } else { spec.len };
    if clen == 0 {
        return None;
    }
    let long = match spec.comp {
        Comp::Authority => {
            // labels separated by dots, sometimes a port at the end
            let mut t = long_token(rng, clen, b".-");
            if clen > 6 && rng.chance(1, 4) {
                let n = t.len();
                t[n - 4] = b':';
                for c in t[n - 3..].iter_mut() {
                    *c = b'0' + rng.below(10) as u8;
                }
                if !t[n - 5].is_ascii_alphanumeric() {
                    t[n - 5] = b'a';
                }
            }
            t
        }
        Comp::Module => long_token(rng, clen, b"-_."),
        Comp::Path => {
            if rng.bool() { long_token(rng, clen, b"/._-") } else { long_token(rng, clen, b"") }
        }
    };
    let mut base = scheme.to_vec();
    match (spec.rsync, spec.comp) {
        (true, Comp::Authority) => {
            base.extend_from_slice(&long);
            base.push(b'/');
            base.extend_from_slice(&module);
            base.extend_from_slice(b"/p/q.cer");
        }
        (true, Comp::Module) => {
            base.extend_from_slice(&auth);
            base.push(b'/');
            base.extend_from_slice(&long);
            base.extend_from_slice(b"/p/q.cer");
        }
        (true, Comp::Path) => {
            base.extend_from_slice(&auth);
            base.push(b'/');
            base.extend_from_slice(&module);
            base.push(b'/');
            base.extend_from_slice(&long);
        }
        (false, Comp::Authority) => {
            base.extend_from_slice(&long);
            if rng.chance(3, 4) {
                base.extend_from_slice(b"/p/q.xml");
            }
        }
        (false, _) => {
            base.extend_from_slice(&auth);
            base.push(b'/');
            base.extend_from_slice(&long);
        }
    }
    let end = start + clen;
    // positions of single-letter case flips: both ends of the component and
    // the neighbourhood of every edge, counted from the start of the text and
    // from the start of the component
    let mut want: Vec<usize> = vec![start, start + 1, end - 1, end.saturating_sub(2).max(start), start + clen / 2];
    for &e in SIZE_EDGES.iter() {
        for d in [e.wrapping_sub(1), e, e + 1] {
            want.push(d);
            want.push(start + d);
        }
        // counted from the end as well (tail handling of chunked loops)
        if let Some(p) = end.checked_sub(e) {
            want.push(p);
        }
    }
    let mut flips: Vec<usize> = Vec::new();
    for p in want {
        if p < start || p >= end {
            continue;
        }
        // the nearest letter at or after p (inside the component), else before
        let q = (p..end).find(|&i| base[i].is_ascii_alphabetic()).or_else(|| (start..p).rev().find(|&i| base[i].is_ascii_alphabetic()));
        if let Some(q) = q {
            if !flips.contains(&q) {
                flips.push(q);
            }
        }
    }
    if flips.len() > max_flips {
        // keep the ends and a spread of the rest
        let keep_every = flips.len().div_ceil(max_flips);
        // (the first three wanted positions are the first, second and last letter of the component)
        let ends: Vec<usize> = [flips[0], flips[2.min(flips.len() - 1)]].into_iter().collect();
        let mut rest: Vec<usize> = flips.iter().copied().skip(3).enumerate().filter(|(i, _)| i % keep_every == 0).map(|(_, p)| p).collect();
        let mut all = ends;
        all.append(&mut rest);
        all.truncate(max_flips);
        flips = all;
    }
    let mut fam: Vec<Vec<u8>> = vec![base.clone()];
    for &p in &flips {
        let mut t = base.clone();
        t[p] ^= 0x20;
        fam.push(t);
    }
    if max_flips <= 4 {
        // the interpreter stages: the base and its single-letter variants only
        return Some((fam, (start, end), flips));
    }
    // the whole component in the other case, two random multi-letter variants, scheme case
    let mut t = base.clone();
    t[start..end].make_ascii_uppercase();
    fam.push(t);
    let mut t = base.clone();
    t[start..end].make_ascii_lowercase();
    fam.push(t);
    for _ in 0..2 {
        let mut t = base.clone();
        flip_case(rng, &mut t[start..end]);
        fam.push(t);
    }
    let mut t = base.clone();
    t[..5].make_ascii_uppercase();
    if let Some(&p) = flips.last() {
        t[p] ^= 0x20;
    }
    fam.push(t);
    // neighbours in the path algebra: trailing slash, a child, the text-level parent
    if base.last() != Some(&b'/') {
        let mut t = base.clone();
        t.push(b'/');
        fam.push(t.clone());
        t.extend_from_slice(b"x");
        fam.push(t);
    }
    let floor = if spec.rsync { model_rsync(&base).map(|p| p.path_start).unwrap_or(base.len()) } else { authority_end(&base) + 1 };
    if let Some(cut) = strip1(&base).iter().rposition(|&c| c == b'/') {
        if cut + 1 >= floor.min(base.len()) && cut + 1 < base.len() {
            fam.push(base[..cut + 1].to_vec());
        }
    }
    // one character longer / shorter in the long component (sibling sharing a long prefix)
    let mut t = base.clone();
    t.insert(end, b'z');
    fam.push(t);
    if clen > 1 && base[end - 1].is_ascii_alphanumeric() && base[end - 2].is_ascii_alphanumeric() {
        let mut t = base.clone();
        t.remove(end - 1);
        fam.push(t);
    }
    fam.dedup();
    Some((fam, (start, end), flips))
}

fn size_families(ctx: &mut Ctx, c: &mut Counters) {
    let mut rng = ctx.rng("size-families");
    let specs = size_specs();
    let miri = ctx.is_miri();
    let (max_len, max_flips) = match (ctx.stage, ctx.tier) {
        (Stage::Miri, Tier::Quick) => (65, 2),
        (Stage::Miri, Tier::Thorough) => (129, 4),
        (Stage::Asan, _) | (Stage::Valgrind, _) => (1025, 24),
        (_, Tier::Quick) => (4097, 48),
        (_, Tier::Thorough) => (4097, 400),
    };
    let rounds = match (ctx.stage, ctx.tier) {
        (Stage::Native, Tier::Thorough) => 6,
        _ => 1,
    };
    let mut families = 0u64;
    let mut members = 0u64;
    let mut longest = 0u64;
    // Miri: one small family per shard, text lengths 16 / 64 / 65 through the long component
    let miri_pick = {
        let cands: Vec<usize> = (0..specs.len()).filter(|&i| matches!(specs[i].len, 16 | 64 | 65) && specs[i].absolute).collect();
        cands[(ctx.shard as usize * 7 + ctx.seed as usize) % cands.len()]
    };
    for round in 0..rounds {
        for (idx, spec) in specs.iter().enumerate() {
            if spec.len > max_len {
                continue;
            }
            if miri {
                if miri_pick != idx {
                    continue;
                }
            } else if !ctx.mine((idx + round) as u64) {
                continue;
            }
            let Some((texts, (start, end), flips)) = size_family(&mut rng, *spec, max_flips) else { continue };
            let long_arg = long_token(&mut rng, spec.len.min(600), b"");
            let mut seg_arg = long_token(&mut rng, spec.len.min(300), b"/");
            seg_arg.push(b'/');
            let args: Vec<Vec<u8>> = if miri { vec![b"x".to_vec()] } else { vec![Vec::new(), b"x/y".to_vec(), long_arg, seg_arg] };
            let scheme = if spec.rsync { "rsync" } else { "https" };
            let r = if spec.rsync {
                rsync_family_laws(ctx, c, &texts, &args, "size-family")
            } else {
                https_family_laws(ctx, c, &texts, &args, "size-family")
            };
            if let Some((related, size)) = r {
                families += 1;
                members += size as u64;
                longest = longest.max(texts.iter().map(|t| t.len()).max().unwrap_or(0) as u64);
                ctx.sig(&format!(
                    "size-family {scheme} long={:?} {}={} flips={} related={}",
                    spec.comp,
                    if spec.absolute { "text-length-through-component" } else { "component-length" },
                    spec.len,
                    flips.len().min(50),
                    if related as usize > size { "more-than-members" } else { "members-only" },
                ));
                if spec.len == 65 && spec.absolute && spec.comp == Comp::Authority {
                    ctx.sample("size family (long authority)", || json!({
                        "scheme": scheme, "component": format!("{:?}", spec.comp), "component_range": [start, end],
                        "single_letter_flips_at": flips, "members": size, "related_or_equal_pairs": related, "base": show(&texts[0]),
                    }));
                }
            }
        }
    }
    ctx.obs("size_families", families);
    ctx.obs("size_family_members", members);
    ctx.obs_max("size_family_longest_uri", longest);
}

pub fn run(ctx: &mut Ctx) {
    let b = bounds(ctx);
    let miri_scale: u64 = if ctx.tier == Tier::Thorough { 4 } else { 1 };
    let mut c = Counters {
        evals: 0, rsync_accepted: 0, rsync_rejected: 0, https_accepted: 0, https_rejected: 0,
        model_valid_but_rejected: 0, joins_ok: 0, joins_err: 0, parents_some: 0, parents_none: 0,
    };
    let join_args = words(b.l_join_arg);
    let join_args_short = words(1);

    //---- 1. bounded-exhaustive enumeration, disjoint across shards ----------
    let mut rsync_items: Vec<(Vec<u8>, Rsync)> = Vec::new();
    let mut https_items: Vec<(Vec<u8>, Https)> = Vec::new();
    let mut enum_accepted: u64 = 0;
    let miri = ctx.is_miri();
    let miri_stride: u64 = if ctx.tier == Tier::Thorough { 3 } else { 18 };
    for_each_word(b.l_enum, |g, w| {
        let mine = ctx.mine(g);
        for (scheme, is_rsync) in [(RSYNC_SCHEMES[0], true), (HTTPS_SCHEMES[0], false)] {
            let in_pairs = !miri && w.len() <= if is_rsync { b.l_pair_rsync } else { b.l_pair_https };
            if !mine && !in_pairs {
                continue;
            }
            let mut text = scheme.to_vec();
            text.extend_from_slice(w);
            // every shard needs the whole pair domain
            if in_pairs {
                if is_rsync {
                    if let Ok(u) = Rsync::from_slice(&text) {
                        rsync_items.push((text.clone(), u));
                    }
                } else if let Ok(u) = Https::from_slice(&text) {
                    https_items.push((text.clone(), u));
                }
            }
            if !mine {
                continue;
            }
            // Miri is ~10^4 times slower: every miri_stride-th word of the shard's share
            if miri && (g / ctx.nshards.max(1)) % miri_stride != 0 {
                continue;
            }
            let (r, h) = offer(ctx, &mut c, &text, "parse");
            if r.is_some() || h.is_some() {
                enum_accepted += 1;
            }
            if let Some(u) = &r {
                let args = if w.len() <= b.l_join_base_rsync { &join_args } else { &join_args_short };
                let res = ctx.no_panic("rsync-join", || json!({"base": show(&text)}), || {
                    let mut f = Findings::default();
                    let (mut ok, mut err) = (0u64, 0u64);
                    for a in args {
                        let (_, joined) = rsync_join(u, a, &mut f);
                        if joined { ok += 1 } else { err += 1 }
                    }
                    (f, ok, err)
                });
                if let Some((f, ok, err)) = res {
                    c.joins_ok += ok;
                    c.joins_err += err;
                    c.evals += ok + err;
                    f.flush(ctx);
                }
                if w.len() >= 6 && u.path().contains('/') && ctx.wants_sample("rsync accepted") {
                    ctx.sample("rsync accepted", || json!({
                        "input": show(&text), "authority": u.authority(), "module": u.module_name(), "path": u.path(),
                        "parent": u.parent().map(|p| p.as_str().to_string()),
                    }));
                }
            }
            if let Some(u) = &h {
                let args = if w.len() <= b.l_join_base_https { &join_args } else { &join_args_short };
                let res = ctx.no_panic("https-join", || json!({"base": show(&text)}), || {
                    let mut f = Findings::default();
                    let (mut ok, mut err) = (0u64, 0u64);
                    for a in args {
                        let (_, joined) = https_join(u, a, &mut f);
                        if joined { ok += 1 } else { err += 1 }
                    }
                    (f, ok, err)
                });
                if let Some((f, ok, err)) = res {
                    c.joins_ok += ok;
                    c.joins_err += err;
                    c.evals += ok + err;
                    f.flush(ctx);
                }
                if !is_rsync && w.len() >= 4 && w[1..w.len() - 1].contains(&b'/') && ctx.wants_sample("https accepted") {
                    ctx.sample("https accepted", || json!({
                        "input": show(&text), "authority": u.authority(), "path": u.path(),
                        "parent": u.parent().map(|p| p.as_str().to_string()),
                    }));
                }
            }
            if is_rsync && r.is_none() && w.len() >= 4 && w.iter().filter(|c| **c == b'/').count() >= 2 && ctx.wants_sample("rsync rejected") {
                let why = Rsync::from_slice(&text).err().map(|e| e.to_string());
                ctx.sample("rsync rejected", || json!({"input": show(&text), "error": why}));
            }
        }
    });
    // scheme-case variants and corrupted schemes (sharded by their own index)
    {
        let l_var_all = b.l_variant.max(b.l_pair_rsync_var).max(b.l_pair_https_var);
        let mut g: u64 = 0;
        for_each_word(l_var_all, |_, w| {
            for s in RSYNC_SCHEMES[1..].iter().chain(HTTPS_SCHEMES[1..].iter()) {
                g += 1;
                let mut text = s.to_vec();
                text.extend_from_slice(w);
                if ctx.mine(g) && w.len() <= b.l_variant && (!miri || g % 3 == 0) {
                    let (r, h) = offer(ctx, &mut c, &text, "parse-scheme-case");
                    if r.is_some() || h.is_some() {
                        enum_accepted += 1;
                    }
                }
                if !miri && w.len() <= b.l_pair_rsync_var {
                    if let Ok(u) = Rsync::from_slice(&text) {
                        rsync_items.push((text.clone(), u));
                    }
                }
                if !miri && w.len() <= b.l_pair_https_var {
                    if let Ok(u) = Https::from_slice(&text) {
                        https_items.push((text.clone(), u));
                    }
                }
            }
            if w.len() <= b.l_variant.min(4) {
                for s in BROKEN_SCHEMES.iter() {
                    g += 1;
                    if !ctx.mine(g) || (miri && g % 5 != 0) {
                        continue;
                    }
                    let mut text = s.to_vec();
                    text.extend_from_slice(w);
                    let (r, h) = offer(ctx, &mut c, &text, "parse-broken-scheme");
                    if r.is_some() || h.is_some() {
                        // happens when the damaged scheme plus w spells a valid URI again ("rsync:/" + "/a/a/")
                        ctx.obs("damaged_scheme_texts_accepted", 1);
                    }
                }
            }
        });
    }
    ctx.disjoint_distinct += enum_accepted;
    if ctx.stage == Stage::Native {
        ctx.exhaustive = Some(true);
    }

    //---- 2. all ordered pairs ------------------------------------------------
    if ctx.is_miri() {
        for (i, t) in MIRI_RSYNC.iter().chain(MIRI_HTTPS.iter()).enumerate() {
            if !ctx.mine(i as u64) {
                continue;
            }
            let (r, h) = offer(ctx, &mut c, t.as_bytes(), "parse");
            let res = ctx.no_panic("join", || json!({"base": t}), || {
                let mut f = Findings::default();
                let (mut ok, mut err) = (0u64, 0u64);
                for a in [&b""[..], b"a", b"a/", b"b/a", b"/a", b"..", b"a//b", b" ", b"\xff"] {
                    let joined = match (&r, &h) {
                        (Some(u), _) => rsync_join(u, a, &mut f).1,
                        (_, Some(u)) => https_join(u, a, &mut f).1,
                        _ => false,
                    };
                    if joined { ok += 1 } else { err += 1 }
                }
                (f, ok, err)
            });
            if let Some((f, ok, err)) = res {
                c.joins_ok += ok;
                c.joins_err += err;
                c.evals += ok + err;
                f.flush(ctx);
            }
        }
        rsync_items = MIRI_RSYNC.iter().filter_map(|t| Rsync::from_str(t).ok().map(|u| (t.as_bytes().to_vec(), u))).collect();
        https_items = MIRI_HTTPS.iter().filter_map(|t| Https::from_str(t).ok().map(|u| (t.as_bytes().to_vec(), u))).collect();
    }
    let (rdom, rbuckets) = build_domain(rsync_items, true);
    let (hdom, _hbuckets) = build_domain(https_items, false);
    ctx.obs_max("rsync_pair_domain", rdom.len() as u64);
    ctx.obs_max("https_pair_domain", hdom.len() as u64);
    let mut related_pairs: u64 = 0;
    let mut parent_pairs: u64 = 0;
    let mut parent_triples: u64 = 0;
    let mut equal_pairs: u64 = 0;
    for i in 0..rdom.len() {
        if !ctx.mine(i as u64) {
            continue;
        }
        let res = ctx.no_panic("rsync-pairs", || json!({"a": show(&rdom[i].text)}), || {
            let mut f = Findings::default();
            let mut related = 0u64;
            let mut children: Vec<usize> = Vec::new();
            for j in 0..rdom.len() {
                let (rel, par) = rsync_pair(&rdom, i, j, &mut f);
                if rel {
                    related += 1;
                }
                if par {
                    children.push(j);
                }
            }
            // transitivity: a > b and b > c implies a > c, for every child b and every c in b's module bucket
            let mut triples = 0u64;
            for &j in &children {
                for &k in &rbuckets[rdom[j].bucket as usize] {
                    if rdom[j].uri.is_parent_of(&rdom[k].uri) {
                        triples += 1;
                        if !rdom[i].uri.is_parent_of(&rdom[k].uri) {
                            f.push(
                                "C12:rsync-is_parent_of:not-transitive".into(),
                                "a is parent of b, b is parent of c, but a is not parent of c".into(),
                                json!({"a": show(&rdom[i].text), "b": show(&rdom[j].text), "c": show(&rdom[k].text)}),
                            );
                        }
                    }
                }
            }
            (f, related, children.len() as u64, triples)
        });
        if let Some((f, related, nchildren, triples)) = res {
            c.evals += rdom.len() as u64 + triples;
            related_pairs += related;
            parent_pairs += nchildren;
            parent_triples += triples;
            f.flush(ctx);
        }
    }
    for i in 0..hdom.len() {
        if !ctx.mine(i as u64) {
            continue;
        }
        let res = ctx.no_panic("https-pairs", || json!({"a": show(&hdom[i].text)}), || {
            let mut f = Findings::default();
            let mut equal = 0u64;
            let a = &hdom[i];
            for bb in hdom.iter() {
                let eq = a.uri == bb.uri;
                let want = a.cls == bb.cls;
                if eq != want {
                    f.push(
                        "C12:https-eq-vs-reference".into(),
                        format!("(a == b) is {eq} but scheme/authority-folded texts are {}", if want { "equal" } else { "different" }),
                        json!({"a": show(&a.text), "b": show(&bb.text)}),
                    );
                }
                if eq && a.hash != bb.hash {
                    f.push("C12:https-eq-hash".into(), "equal URIs hash differently".into(), json!({"a": show(&a.text), "b": show(&bb.text)}));
                }
                if want {
                    equal += 1;
                }
            }
            (f, equal)
        });
        if let Some((f, equal)) = res {
            c.evals += hdom.len() as u64;
            equal_pairs += equal;
            f.flush(ctx);
        }
    }
    ctx.disjoint_distinct += related_pairs + equal_pairs;
    ctx.obs("rsync_related_pairs", related_pairs);
    ctx.obs("rsync_parent_pairs", parent_pairs);
    ctx.obs("rsync_parent_triples", parent_triples);
    ctx.obs("https_equal_pairs", equal_pairs);

    //---- 3. sampled triples --------------------------------------------------
    {
        let mut rng = ctx.rng("triples");
        let n = ctx.stage_budget((1_200_000, 16_000_000), 100_000, 80 * miri_scale, 0);
        let mut f = Findings::default();
        let mut eq_chains = 0u64;
        if rdom.len() >= 3 {
            for _ in 0..n {
                let i = rng.usize_below(rdom.len());
                let bucket = &rbuckets[rdom[i].bucket as usize];
                let j = if rng.chance(7, 8) { *rng.pick(bucket) } else { rng.usize_below(rdom.len()) };
                let k = if rng.chance(7, 8) { *rng.pick(bucket) } else { rng.usize_below(rdom.len()) };
                let (a, bb, cc) = (&rdom[i].uri, &rdom[j].uri, &rdom[k].uri);
                if a == bb && bb == cc {
                    eq_chains += 1;
                    if !(a == cc) || !(cc == a) {
                        f.push("C12:rsync-eq-not-transitive".into(), "a == b and b == c but a != c".into(),
                            json!({"a": show(&rdom[i].text), "b": show(&rdom[j].text), "c": show(&rdom[k].text)}));
                    }
                }
                if (a == bb) != (bb == a) {
                    f.push("C12:rsync-eq-not-symmetric".into(), "a == b differs from b == a".into(),
                        json!({"a": show(&rdom[i].text), "b": show(&rdom[j].text)}));
                }
                if a.is_parent_of(bb) && bb.is_parent_of(cc) && !a.is_parent_of(cc) {
                    f.push("C12:rsync-is_parent_of:not-transitive".into(), "a is parent of b, b is parent of c, but a is not parent of c".into(),
                        json!({"a": show(&rdom[i].text), "b": show(&rdom[j].text), "c": show(&rdom[k].text)}));
                }
                // equal replacement on the child side
                if a == bb && a.is_parent_of(cc) != bb.is_parent_of(cc) {
                    f.push("C12:rsync-is_parent_of:not-invariant-under-equality".into(), "a == b but they disagree on being parent of c".into(),
                        json!({"a": show(&rdom[i].text), "b": show(&rdom[j].text), "c": show(&rdom[k].text)}));
                }
            }
            c.evals += n;
        }
        if hdom.len() >= 3 {
            // triples inside reference-equality classes and their neighbours
            let mut by_cls: HashMap<u32, Vec<usize>> = HashMap::new();
            for (i, e) in hdom.iter().enumerate() {
                by_cls.entry(e.cls).or_default().push(i);
            }
            for _ in 0..n {
                let i = rng.usize_below(hdom.len());
                let class = &by_cls[&hdom[i].cls];
                let j = if rng.chance(3, 4) { *rng.pick(class) } else { rng.usize_below(hdom.len()) };
                let k = if rng.chance(3, 4) { *rng.pick(class) } else { rng.usize_below(hdom.len()) };
                let (a, bb, cc) = (&hdom[i].uri, &hdom[j].uri, &hdom[k].uri);
                if a == bb && bb == cc {
                    eq_chains += 1;
                    if !(a == cc) {
                        f.push("C12:https-eq-not-transitive".into(), "a == b and b == c but a != c".into(),
                            json!({"a": show(&hdom[i].text), "b": show(&hdom[j].text), "c": show(&hdom[k].text)}));
                    }
                }
                if (a == bb) != (bb == a) {
                    f.push("C12:https-eq-not-symmetric".into(), "a == b differs from b == a".into(),
                        json!({"a": show(&hdom[i].text), "b": show(&hdom[j].text)}));
                }
            }
            c.evals += n;
        }
        ctx.obs("sampled_triples_all_equal", eq_chains);
        f.flush(ctx);
    }

    //---- 4. random byte strings and single-byte substitutions ---------------
    {
        let mut rng = ctx.rng("bytes");
        let n = ctx.stage_budget((900_000, 16_000_000), 100_000, 80 * miri_scale, 0);
        let seeds: [&[u8]; 6] = [
            b"rsync://host/module/foo/bar", b"rsync://a.b:873/m/x/", b"https://example.com/a/b.xml",
            b"https://h", b"RSYNC://H/M/", b"rsync://h/m/.../x",
        ];
        for i in 0..n {
            let text: Vec<u8> = match i % 6 {
                0 => {
                    let n = rng.below(24) as usize;
                    rng.bytes(n)
                }
                1 | 2 => {
                    let mut t = if i % 2 == 0 { b"rsync://".to_vec() } else { b"https://".to_vec() };
                    let n = rng.below(20) as usize;
                    t.extend(rng.bytes(n));
                    t
                }
                3 => {
                    // printable ASCII incl. the forbidden punctuation
                    let mut t = if rng.bool() { b"rsync://h/m/".to_vec() } else { b"https://h/".to_vec() };
                    let len = rng.below(16);
                    t.extend((0..len).map(|_| rng.range(0x20, 0x7f) as u8));
                    t
                }
                _ => {
                    // substitute one byte of a valid URI by an arbitrary byte
                    let mut t = rng.pick(&seeds).to_vec();
                    let pos = rng.usize_below(t.len());
                    t[pos] = rng.below(256) as u8;
                    t
                }
            };
            let (r, h) = offer(ctx, &mut c, &text, "parse-random-bytes");
            if i < 2_000 {
                let kind = ["random", "scheme+random", "scheme+random", "scheme+printable", "substitution", "substitution"][(i % 6) as usize];
                ctx.sig(&format!("bytes kind={kind} rsync={} https={} nonascii={}", r.is_some(), h.is_some(), text.iter().any(|b| *b >= 0x80)));
            }
        }
        // every byte value at every position of the seeds (systematic, shard 0 only)
        if ctx.shard == 0 && ctx.stage != Stage::Miri {
            for s in seeds.iter() {
                for pos in 0..s.len() {
                    for v in 0..=255u8 {
                        let mut t = s.to_vec();
                        t[pos] = v;
                        offer(ctx, &mut c, &t, "parse-substitution");
                    }
                }
            }
            ctx.sig("bytes systematic substitution of every byte value at every position");
        }
    }

    //---- 5. structured random families (longer paths, full character set) ---
    {
        let mut rng = ctx.rng("families");
        // a family costs ~700 law evaluations: under Miri only the thorough tier affords one per shard
        let n = if miri && ctx.tier == Tier::Quick { 0 } else { ctx.stage_budget((90_000, 1_600_000), 10_000, 1, 0) };
        for fi in 0..n {
            // rsync
            let texts = rsync_family(&mut rng);
            let args: Vec<Vec<u8>> = (0..3).map(|_| rand_join_arg(&mut rng)).collect();
            if let Some((related, size)) = rsync_family_laws(ctx, &mut c, &texts, &args, "family") {
                if fi < 3_000 {
                    ctx.sig(&format!("rsync family size={size} related-pairs={}", related.min(40)));
                }
                if fi == 0 {
                    ctx.sample("rsync family", || json!({"members": texts.iter().map(|t| show(t)).collect::<Vec<_>>(), "related_pairs": related}));
                }
            }
            // https
            let texts = https_family(&mut rng);
            let args: Vec<Vec<u8>> = (0..3).map(|_| rand_join_arg(&mut rng)).collect();
            https_family_laws(ctx, &mut c, &texts, &args, "family");
        }
    }

    //---- 6. size-dependent behaviour: long components, case differences at every region
    size_families(ctx, &mut c);

    //---- 7. every constructor door on text with characters outside ASCII
    // (Miri: the even shards)
    if !miri || ctx.shard % 2 == 0 {
        wide::non_ascii_doors(ctx, &mut c);
    }

    //---- 8. authority / module name of 255 .. 131073 octets (thorough: 1 MiB)
    // (Miri: the odd shards)
    if !miri || ctx.shard % 2 == 1 {
        wide::wide_families(ctx, &mut c);
    }

    //---- evidence ------------------------------------------------------------
    ctx.evals(c.evals);
    ctx.obs("rsync_accepted", c.rsync_accepted);
    ctx.obs("rsync_rejected", c.rsync_rejected);
    ctx.obs("https_accepted", c.https_accepted);
    ctx.obs("https_rejected", c.https_rejected);
    ctx.obs("joins_ok", c.joins_ok);
    ctx.obs("joins_rejected", c.joins_err);
    ctx.obs("parent_some", c.parents_some);
    ctx.obs("parent_none", c.parents_none);
    ctx.obs("rsync_rejected_though_statement_allows", c.model_valid_but_rejected);
    if c.model_valid_but_rejected > 0 {
        ctx.notes.push(
            "some rsync texts the statement would allow were rejected by the parser (authority '.' or '..', e.g. rsync://./a/); \
             the statement does not oblige acceptance, so this is recorded only"
                .into(),
        );
    }
    if c.rsync_accepted == 0 || c.https_accepted == 0 {
        ctx.notes.push("no URI was accepted by one of the parsers: nothing could be observed".into());
    }
    if ctx.shard == 0 {
        // two literal pairs for the reader
        if let (Ok(a), Ok(bb)) = (Rsync::from_str("rsync://a/b/a"), Rsync::from_str("RSYNC://A/b/")) {
            ctx.sample("rsync pair", || json!({
                "self": a.as_str(), "other": bb.as_str(), "relative_to": a.relative_to(&bb),
                "other_is_parent_of_self": bb.is_parent_of(&a), "eq": a == bb,
            }));
        }
        if let (Ok(a), Ok(bb)) = (Https::from_str("https://a/b"), Https::from_str("HTTPS://A/b")) {
            ctx.sample("https pair", || json!({"a": a.as_str(), "b": bb.as_str(), "eq": a == bb, "hash_eq": hash_of(&a) == hash_of(&bb)}));
        }
    }
}
