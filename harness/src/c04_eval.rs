//! C04 — evaluate one input: decode a byte string through one decoding entry
//! point of rpki-rs and, if a value comes out, run the accessor sweep over it.
//!
//! Nothing in here looks at the verdict of the library (accept / reject /
//! valid / invalid): the property is panic-freedom and bounded resource use,
//! which the callers (the native / ASan / Miri stages in `c04.rs` and the
//! libFuzzer targets in `harness/fuzz`) observe from the outside
//! (catch_unwind, allocator window, CPU clock, process death).
//!
//! This module has no dependency on `Ctx` so that the fuzz targets can use it.

use bcder::decode::DecodeError;
use bcder::encode::{PrimitiveContent, Values};
use bcder::Mode;
use bytes::Bytes;
use rpki::ca::csr::{BgpsecCsr, Csr, RpkiCaCsr};
use rpki::ca::idcert::IdCert;
use rpki::ca::provisioning::ProvisioningCms;
use rpki::ca::publication::PublicationCms;
use rpki::ca::sigmsg::SignedMessage;
use rpki::crypto::{KeyIdentifier, PublicKey, RpkiSignatureAlgorithm, Signature, SignatureAlgorithm};
use rpki::repository::aspa::Aspa;
use rpki::repository::cert::{Cert, Overclaim, ResourceCert};
use rpki::repository::crl::{Crl, CrlEntry, RevokedCertificates, TbsCertList};
use rpki::repository::manifest::{Manifest, ManifestContent};
use rpki::repository::resources::{
    AddressFamily, AsBlock, AsBlocks, AsResources, Asn, IpBlock, IpBlocks, IpResources, Ipv4Blocks, Ipv6Blocks,
};
use rpki::repository::roa::Roa;
use rpki::repository::rta::{self, Rta};
use rpki::repository::sigobj::SignedObject;
use rpki::repository::tal::{Tal, TalInfo};
use rpki::repository::x509::{Name, Serial, Time, Validity};
use rpki::uri;
use super::c04_iter::{self as laws, LawBreak, Laws, Stats};
use std::fmt::{self, Write as _};
use std::hint::black_box;
use std::str::FromStr;

//------------ Entry points --------------------------------------------------

#[derive(Clone, Copy, Debug, PartialEq, Eq, Hash, PartialOrd, Ord)]
#[repr(u8)]
pub enum Ep {
    Cert,
    Crl,
    MftStrict,
    MftRelaxed,
    RoaStrict,
    RoaRelaxed,
    AspaStrict,
    AspaRelaxed,
    RtaStrict,
    RtaRelaxed,
    SigObjStrict,
    SigObjRelaxed,
    Tal,
    PubKey,
    CaCsr,
    BgpsecCsr,
    IdCert,
    SigMsgStrict,
    SigMsgRelaxed,
    ProvCms,
    PubCms,
    AsResDer,
    AsResBer,
    IpResDer,
    IpResBer,
    MftContentDer,
    MftContentBer,
    CrlTbsDer,
    CrlTbsBer,
    Time,
    Serial,
    Name,
}

pub const ALL_EPS: &[Ep] = &[
    Ep::Cert,
    Ep::Crl,
    Ep::MftStrict,
    Ep::MftRelaxed,
    Ep::RoaStrict,
    Ep::RoaRelaxed,
    Ep::AspaStrict,
    Ep::AspaRelaxed,
    Ep::RtaStrict,
    Ep::RtaRelaxed,
    Ep::SigObjStrict,
    Ep::SigObjRelaxed,
    Ep::Tal,
    Ep::PubKey,
    Ep::CaCsr,
    Ep::BgpsecCsr,
    Ep::IdCert,
    Ep::SigMsgStrict,
    Ep::SigMsgRelaxed,
    Ep::ProvCms,
    Ep::PubCms,
    Ep::AsResDer,
    Ep::AsResBer,
    Ep::IpResDer,
    Ep::IpResBer,
    Ep::MftContentDer,
    Ep::MftContentBer,
    Ep::CrlTbsDer,
    Ep::CrlTbsBer,
    Ep::Time,
    Ep::Serial,
    Ep::Name,
];

/// The four libFuzzer target groups.
pub const FUZZ_REPO: &[Ep] = &[
    Ep::Cert,
    Ep::Crl,
    Ep::MftStrict,
    Ep::MftRelaxed,
    Ep::RoaStrict,
    Ep::RoaRelaxed,
    Ep::AspaStrict,
    Ep::AspaRelaxed,
    Ep::RtaStrict,
    Ep::RtaRelaxed,
    Ep::SigObjStrict,
    Ep::SigObjRelaxed,
];
pub const FUZZ_CA: &[Ep] = &[
    Ep::PubKey,
    Ep::CaCsr,
    Ep::BgpsecCsr,
    Ep::IdCert,
    Ep::SigMsgStrict,
    Ep::SigMsgRelaxed,
    Ep::ProvCms,
    Ep::PubCms,
];
pub const FUZZ_RESOURCES: &[Ep] = &[
    Ep::AsResDer,
    Ep::AsResBer,
    Ep::IpResDer,
    Ep::IpResBer,
    Ep::MftContentDer,
    Ep::MftContentBer,
    Ep::CrlTbsDer,
    Ep::CrlTbsBer,
    Ep::Time,
    Ep::Serial,
    Ep::Name,
];
pub const FUZZ_TEXT: &[Ep] = &[Ep::Tal];

impl Ep {
    pub fn name(self) -> &'static str {
        match self {
            Ep::Cert => "cert",
            Ep::Crl => "crl",
            Ep::MftStrict => "manifest-strict",
            Ep::MftRelaxed => "manifest-relaxed",
            Ep::RoaStrict => "roa-strict",
            Ep::RoaRelaxed => "roa-relaxed",
            Ep::AspaStrict => "aspa-strict",
            Ep::AspaRelaxed => "aspa-relaxed",
            Ep::RtaStrict => "rta-strict",
            Ep::RtaRelaxed => "rta-relaxed",
            Ep::SigObjStrict => "sigobj-strict",
            Ep::SigObjRelaxed => "sigobj-relaxed",
            Ep::Tal => "tal",
            Ep::PubKey => "pubkey",
            Ep::CaCsr => "rpki-ca-csr",
            Ep::BgpsecCsr => "bgpsec-csr",
            Ep::IdCert => "idcert",
            Ep::SigMsgStrict => "sigmsg-strict",
            Ep::SigMsgRelaxed => "sigmsg-relaxed",
            Ep::ProvCms => "provisioning-cms",
            Ep::PubCms => "publication-cms",
            Ep::AsResDer => "asres-der",
            Ep::AsResBer => "asres-ber",
            Ep::IpResDer => "ipres-der",
            Ep::IpResBer => "ipres-ber",
            Ep::MftContentDer => "mftcontent-der",
            Ep::MftContentBer => "mftcontent-ber",
            Ep::CrlTbsDer => "crltbs-der",
            Ep::CrlTbsBer => "crltbs-ber",
            Ep::Time => "x509-time",
            Ep::Serial => "x509-serial",
            Ep::Name => "x509-name",
        }
    }

    pub fn from_name(s: &str) -> Option<Ep> {
        ALL_EPS.iter().copied().find(|e| e.name() == s)
    }

}

//------------ Fixed validation context --------------------------------------

/// The fixed issuer / time / keys every accepted value is validated against.
pub struct Fixed {
    /// A validated trust anchor certificate holding all resources (needs
    /// aws-lc to build, so `None` under Miri).
    pub issuer: Option<ResourceCert>,
    pub tal: Option<Tal>,
    /// The key identity certificates / signed messages are validated against.
    pub id_key: Option<PublicKey>,
    pub now: Time,
    pub base: uri::Rsync,
    /// Issuer-side resource sets for the resource checks that need no crypto.
    pub iss_v4: IpBlocks,
    pub iss_v6: IpBlocks,
    pub iss_as: AsBlocks,
}

impl Fixed {
    pub fn without_crypto() -> Self {
        Fixed {
            issuer: None,
            tal: None,
            id_key: None,
            now: Time::utc(2026, 1, 1, 0, 0, 0),
            base: uri::Rsync::from_str("rsync://example.com/repo/ca/").expect("base uri"),
            iss_v4: IpBlocks::from_str("10.0.0.0/8, 192.168.0.0-192.168.5.255, 193.0.0.0/16").expect("v4"),
            iss_v6: IpBlocks::from_str("2001:db8::/32, 2a00::/12").expect("v6"),
            iss_as: AsBlocks::from_str("AS1-AS70000, AS4200000000-AS4294967294").expect("as"),
        }
    }

    /// Builds the fixed issuer from pool key 0 (same construction as the seed
    /// objects in `c04.rs`, so library-built seeds validate against it).
    pub fn with_crypto() -> Self {
        let mut f = Self::without_crypto();
        let pool = crate::keys::PoolSigner::new(2);
        let ta = build_ta(&pool);
        let spki = pool.key(0).spki.clone();
        f.id_key = Some(pool.info(0));
        let tal_text = format!(
            "rsync://example.com/ta/ta.cer\nhttps://example.com/ta/ta.cer\n\n{}\n",
            b64(&spki)
        );
        f.tal = Tal::read_named("fixed".into(), &mut tal_text.as_bytes()).ok();
        f.issuer = ta
            .validate_ta_at(TalInfo::from_name("fixed".into()).into_arc(), true, f.now)
            .ok();
        f
    }
}

/// The fixed validity window of everything the harness builds.
pub fn fixed_validity() -> Validity {
    Validity::new(Time::utc(2024, 1, 1, 0, 0, 0), Time::utc(2034, 1, 1, 0, 0, 0))
}

/// Self-signed trust anchor over pool key 0 with all resources.
pub fn build_ta(pool: &crate::keys::PoolSigner) -> Cert {
    use rpki::repository::cert::{KeyUsage, TbsCert};
    use rpki::repository::resources::Prefix;
    let pubkey = pool.info(0);
    let mut cert = TbsCert::new(
        12u64.into(),
        pubkey.to_subject_name(),
        fixed_validity(),
        None,
        pubkey,
        KeyUsage::Ca,
        Overclaim::Refuse,
    );
    cert.set_basic_ca(Some(true));
    cert.set_ca_repository(Some(uri::Rsync::from_str("rsync://example.com/repo/ca/").unwrap()));
    cert.set_rpki_manifest(Some(uri::Rsync::from_str("rsync://example.com/repo/ca/ca.mft").unwrap()));
    cert.build_v4_resource_blocks(|b| b.push(Prefix::new(0, 0)));
    cert.build_v6_resource_blocks(|b| b.push(Prefix::new(0, 0)));
    cert.build_as_resource_blocks(|b| b.push((Asn::MIN, Asn::MAX)));
    cert.into_cert(pool, &0).expect("sign ta")
}

pub fn b64(data: &[u8]) -> String {
    const T: &[u8; 64] = b"ABCDEFGHIJKLMNOPQRSTUVWXYZabcdefghijklmnopqrstuvwxyz0123456789+/";
    let mut out = String::with_capacity(data.len() * 4 / 3 + 4);
    for chunk in data.chunks(3) {
        let b = [chunk[0], *chunk.get(1).unwrap_or(&0), *chunk.get(2).unwrap_or(&0)];
        let n = ((b[0] as u32) << 16) | ((b[1] as u32) << 8) | b[2] as u32;
        out.push(T[(n >> 18) as usize & 63] as char);
        out.push(T[(n >> 12) as usize & 63] as char);
        out.push(if chunk.len() > 1 { T[(n >> 6) as usize & 63] as char } else { '=' });
        out.push(if chunk.len() > 2 { T[n as usize & 63] as char } else { '=' });
    }
    out
}

pub struct Opts<'a> {
    /// false under Miri: nothing that enters aws-lc (SHA-1 key identifiers,
    /// digests, signature checks) is called.
    pub crypto: bool,
    pub fixed: &'a Fixed,
    /// true under Miri: no Debug / serde formatting in the sweep.
    pub light: bool,
}

//------------ Outcome -------------------------------------------------------

pub struct Outcome {
    pub ok: bool,
    /// "ok" or the error text with positions stripped (a class, not a case).
    pub class: String,
    /// Error position as reported by the decoder (0 when unknown / Ok).
    pub err_pos: usize,
    /// Some validation against the fixed issuer succeeded.
    pub validated: bool,
    /// Number of accessor results looked at (iterator items, getters).
    pub touched: u32,
    /// Iterators of the value under the standard adapters (c04_iter.rs):
    /// what was compared, and results that differ from `next()` stepping.
    pub laws: Stats,
    pub law_breaks: Vec<LawBreak>,
}

impl Outcome {
    fn ok(sw: Sweep) -> Self {
        Outcome { ok: true, class: "ok".into(), err_pos: 0, validated: sw.validated, touched: sw.touched, laws: sw.laws.stats, law_breaks: sw.laws.breaks }
    }

    fn err_text(text: String) -> Self {
        // "… (at position 123)" → class + position
        let mut pos = 0usize;
        let mut class = text.as_str();
        if let Some(i) = text.rfind(" (at position ") {
            let tail = &text[i + 14..];
            pos = tail.trim_end_matches(')').parse().unwrap_or(0);
            class = &text[..i];
        }
        let mut c: String = class.chars().filter(|ch| !ch.is_ascii_digit()).take(60).collect();
        if c.is_empty() {
            c.push_str("error");
        }
        Outcome { ok: false, class: c, err_pos: pos, validated: false, touched: 0, laws: Stats::default(), law_breaks: Vec::new() }
    }

    fn err<E: fmt::Display>(e: DecodeError<E>) -> Self {
        Self::err_text(e.to_string())
    }
}

//------------ Sweep helpers -------------------------------------------------

struct Sink(usize);

impl fmt::Write for Sink {
    fn write_str(&mut self, s: &str) -> fmt::Result {
        self.0 += s.len();
        Ok(())
    }
}

struct IoSink(usize);

impl std::io::Write for IoSink {
    fn write(&mut self, b: &[u8]) -> std::io::Result<usize> {
        self.0 += b.len();
        Ok(b.len())
    }
    fn flush(&mut self) -> std::io::Result<()> {
        Ok(())
    }
}

pub struct Sweep {
    pub touched: u32,
    pub validated: bool,
    /// The value under the sweep came out of a relaxed / BER-mode decoder.
    /// Where the harness itself has to choose an encoding mode for an
    /// `encode_ref()` value it then chooses BER (bcder refuses, by an
    /// assertion, to emit BER-captured pieces into a DER target; picking DER
    /// there would be the harness's misuse, not the library's). The
    /// library's own `to_captured()` methods choose their mode themselves.
    pub ber: bool,
    /// Under Miri: skip Debug / serde formatting of values (interpreting the
    /// formatting machinery costs seconds per object and is not rpki-rs code).
    pub light: bool,
    /// Iterator adapter laws (c04_iter.rs): budget (iterators per evaluation,
    /// steps per program, items stepped for the reference), counters, findings.
    pub laws: Laws,
}

/// Per evaluation: at most this many iterators go under the adapter plan,
/// a program may cost at most this many steps on an iterator without any
/// shortcut, and the reference steps at most this many items. The bounds keep
/// the cost of the sweep independent of the size of the value (the scaling
/// laws of c04_scale.rs time the sweep).
const LAWS_ITERS: u32 = 48;
const LAWS_WALK: u64 = 4096;
const LAWS_CAP: usize = 64;

impl Sweep {
    fn new() -> Self {
        Sweep { touched: 0, validated: false, ber: false, light: false, laws: if laws::switched_off() { Laws::off() } else { Laws::new(LAWS_ITERS, LAWS_WALK, LAWS_CAP) } }
    }

    fn t(&mut self) {
        self.touched = self.touched.wrapping_add(1);
    }

    fn show<T: fmt::Display + ?Sized>(&mut self, v: &T) {
        let mut s = Sink(0);
        let _ = write!(s, "{}", v);
        black_box(s.0);
        self.t();
    }

    fn dbg<T: fmt::Debug + ?Sized>(&mut self, v: &T) {
        if self.light {
            return;
        }
        let mut s = Sink(0);
        let _ = write!(s, "{:?}", v);
        black_box(s.0);
        self.t();
    }

    fn json<T: serde::Serialize + ?Sized>(&mut self, v: &T) {
        if self.light {
            return;
        }
        let mut s = IoSink(0);
        let _ = serde_json::to_writer(&mut s, v);
        black_box(s.0);
        self.t();
    }

    fn enc<V: Values>(&mut self, v: V) {
        let c = v.to_captured(if self.ber { Mode::Ber } else { Mode::Der });
        black_box(c.len());
        self.t();
    }

    fn see<T>(&mut self, v: T) {
        black_box(v);
        self.t();
    }
}

fn text_of<T: fmt::Display>(v: &T, cap: usize) -> Option<String> {
    struct Capped(String, usize, bool);
    impl fmt::Write for Capped {
        fn write_str(&mut self, s: &str) -> fmt::Result {
            if self.0.len() + s.len() > self.1 {
                self.2 = true;
                return Err(fmt::Error);
            }
            self.0.push_str(s);
            Ok(())
        }
    }
    let mut c = Capped(String::new(), cap, false);
    let _ = write!(c, "{}", v);
    if c.2 {
        None
    } else {
        Some(c.0)
    }
}

//------------ Sweeps: x509 pieces -------------------------------------------

fn sweep_serial(sw: &mut Sweep, s: Serial) {
    sw.show(&s);
    sw.dbg(&s);
    sw.see(s.into_array());
    sw.see(String::from(s));
    sw.json(&s);
    sw.enc(s.encode());
    if let Some(t) = text_of(&s, 64) {
        sw.see(Serial::from_str(&t).is_ok());
    }
    sw.see(s == Serial::default());
}

fn sweep_time(sw: &mut Sweep, t: Time, fx: &Fixed) {
    use chrono::Datelike;
    sw.dbg(&t);
    sw.see(t.timestamp());
    sw.see(t.year());
    sw.enc(t.encode_varied());
    sw.enc(t.encode_utc_time());
    sw.enc(t.encode_generalized_time());
    sw.json(&t);
    sw.see(t.verify_not_before(fx.now).is_ok());
    sw.see(t.verify_not_after(fx.now).is_ok());
    sw.see(t < fx.now);
}

fn sweep_validity(sw: &mut Sweep, v: Validity, fx: &Fixed) {
    sweep_time(sw, v.not_before(), fx);
    sweep_time(sw, v.not_after(), fx);
    sw.see(v.verify_at(fx.now).is_ok());
    sw.see(v.trim(fixed_validity()));
    sw.enc(v.encode());
    sw.json(&v);
    sw.dbg(&v);
}

fn sweep_name(sw: &mut Sweep, n: &Name) {
    sw.dbg(n);
    sw.see(n.inspect_rpki(true).is_ok());
    sw.see(n.inspect_rpki(false).is_ok());
    sw.see(n.inspect_router(true).is_ok());
    sw.see(n.inspect_router(false).is_ok());
    sw.enc(n.encode_ref());
    sw.json(n);
    sw.see(n == n);
}

fn sweep_key_id(sw: &mut Sweep, k: &KeyIdentifier) {
    sw.show(k);
    sw.dbg(k);
    sw.see(k.as_slice().len());
    sw.see(k.into_hex());
    sw.json(k);
    sw.enc(k.encode_ref());
}

fn sweep_pubkey(sw: &mut Sweep, k: &PublicKey, o: &Opts) {
    sw.see(k.algorithm());
    sw.see(k.bits().len());
    sw.see(k.bits_bytes().len());
    sw.see(k.allow_rpki_cert());
    sw.see(k.allow_router_cert());
    sw.see(k.to_info_bytes().len());
    sw.enc(k.encode_ref());
    sw.enc(k.clone().encode());
    sw.json(k);
    sw.dbg(k);
    if o.crypto {
        let id = k.key_identifier();
        sweep_key_id(sw, &id);
        sw.enc(k.encode_subject_name());
        let name = k.to_subject_name();
        sw.dbg(&name);
        // hostile key material into the verifier (verdict irrelevant)
        let sig = Signature::new(RpkiSignatureAlgorithm::default(), Bytes::from_static(&[0x5Au8; 256]));
        sw.see(k.verify(b"c04", &sig).is_ok());
        let sig = Signature::new(
            rpki::crypto::BgpsecSignatureAlgorithm::default(),
            Bytes::from_static(&[0x30, 0x06, 0x02, 0x01, 0x01, 0x02, 0x01, 0x01]),
        );
        sw.see(k.verify(b"c04", &sig).is_ok());
    }
}

fn sweep_rsync(sw: &mut Sweep, u: Option<&uri::Rsync>) {
    if let Some(u) = u {
        sw.show(u);
        sw.see(u.as_str().len());
        sw.see(u.authority().len());
        sw.see(u.module_name().len());
        sw.see(u.path().len());
        sw.see(u.path_is_dir());
        sw.see(u.parent().is_some());
        sw.see(u.canonical_authority().len());
        sw.see(u.canonical_module().len());
        sw.see(u.join(b"x.cer").is_ok());
        sw.json(u);
    }
}

fn sweep_https(sw: &mut Sweep, u: Option<&uri::Https>) {
    if let Some(u) = u {
        sw.show(u);
        sw.see(u.as_str().len());
        sw.see(u.authority().len());
        sw.see(u.path().len());
        sw.see(u.path_is_dir());
        sw.see(u.parent().is_some());
        sw.see(u.canonical_authority().len());
        sw.see(u.join(b"x.xml").is_ok());
        sw.json(u);
    }
}

//------------ Sweeps: resources ---------------------------------------------

fn sweep_asblocks(sw: &mut Sweep, b: &AsBlocks, fx: &Fixed) {
    sw.see(b.is_empty());
    sw.see(b.asn_count());
    laws::laws_as(&mut sw.laws, b, false);
    let mut n = 0usize;
    for blk in b.iter() {
        n += 1;
        if n > 4096 {
            break;
        }
        sw.see(blk.min());
        sw.see(blk.max());
        sw.see(blk.asn_count());
        sw.see(blk.is_whole_range());
        sw.show(&blk);
        sw.see(blk.iter().take(3).count());
        sw.enc(match blk {
            AsBlock::Id(id) => AsBlocks::from_iter([AsBlock::Id(id)]).encode(),
            AsBlock::Range(r) => AsBlocks::from_iter([AsBlock::Range(r)]).encode(),
        });
        if let AsBlock::Range(r) = blk {
            sw.see(r.asn_count());
            sw.show(&r);
        }
    }
    // never walk 2^32 ASNs: bounded prefix of the ASN iterator
    sw.see(b.iter_asns().take(64).count());
    sw.show(b);
    sw.dbg(b);
    sw.json(b);
    sw.enc(b.encode_ref());
    sw.enc(b.clone().encode());
    sw.see(b.contains_asn(Asn::from_u32(0)));
    sw.see(b.contains_asn(Asn::from_u32(64512)));
    sw.see(b.contains_asn(Asn::from_u32(u32::MAX)));
    sw.see(b.contains(b));
    sw.see(b.contains(&fx.iss_as));
    sw.see(fx.iss_as.contains(b));
    sw.see(b.intersection(&fx.iss_as).is_empty());
    sw.see(b.union(&fx.iss_as).is_empty());
    sw.see(b.difference(&fx.iss_as).is_empty());
    sw.see(fx.iss_as.difference(b).is_empty());
    sw.see(b.verify_covered(&AsResources::blocks(fx.iss_as.clone())).is_ok());
    if let Some(t) = text_of(b, 1 << 16) {
        sw.see(AsBlocks::from_str(&t).is_ok());
    }
}

fn sweep_asres(sw: &mut Sweep, r: &AsResources, fx: &Fixed) {
    sw.see(r.is_inherited());
    sw.see(r.is_present());
    sw.show(r);
    sw.dbg(r);
    sw.enc(r.encode_ref());
    sw.enc(r.clone().encode());
    for oc in [Overclaim::Refuse, Overclaim::Trim] {
        sw.enc(r.encode_extension(oc));
    }
    if let Ok(b) = r.to_blocks() {
        sweep_asblocks(sw, &b, fx);
    }
    for oc in [Overclaim::Refuse, Overclaim::Trim] {
        if let Ok(b) = fx.iss_as.verify_issued(r, oc) {
            sw.see(b.is_empty());
        }
        if let Some(iss) = &fx.issuer {
            sw.see(iss.as_resources().verify_issued(r, oc).is_ok());
        }
    }
    if let Some(t) = text_of(r, 1 << 16) {
        sw.see(AsResources::from_str(&t).is_ok());
    }
}

fn sweep_ipblocks(sw: &mut Sweep, b: &IpBlocks, v4: bool, fx: &Fixed) {
    let iss = if v4 { &fx.iss_v4 } else { &fx.iss_v6 };
    sw.see(b.is_empty());
    let total = b.iter().count();
    laws::laws_ip(&mut sw.laws, b, v4, false);
    let mut n = 0usize;
    for blk in b.iter() {
        n += 1;
        if n > 4096 {
            break;
        }
        sw.see(blk.min());
        sw.see(blk.max());
        sw.see(blk.is_slash_zero());
        if v4 {
            sw.show(&blk.display_v4());
        } else {
            sw.show(&blk.display_v6());
        }
        sw.enc(blk.encode());
        // both look a block up by scanning from the front: asking for every
        // block of a long list would be a quadratic of the harness's own
        // making, so long lists are probed at every 16th block and at the end
        if total <= 512 || n % 16 == 1 || n + 8 > total {
            sw.see(b.contains_block(blk));
            sw.see(b.intersects_block(blk));
        }
        match blk {
            IpBlock::Prefix(p) => {
                sw.see(p.addr());
                sw.see(p.addr_len());
                sw.see(p.to_v4());
                sw.see(p.to_v6());
                sw.see(p.range());
                sw.see(p.min());
                sw.see(p.max());
                sw.enc(p.encode());
            }
            IpBlock::Range(r) => {
                sw.see(r.min());
                sw.see(r.max());
                sw.see(r.into_prefix().is_ok());
                if v4 {
                    sw.see(r.to_v4_prefixes().count());
                } else {
                    sw.see(r.to_v6_prefixes().count());
                }
                sw.enc(r.encode());
            }
        }
    }
    if v4 {
        sw.show(&b.as_v4());
        let typed = Ipv4Blocks::from(b.clone());
        sw.show(&typed);
        sw.json(&typed);
        if let Some(t) = text_of(&typed, 1 << 16) {
            sw.see(Ipv4Blocks::from_str(&t).is_ok());
        }
        sw.see(typed.to_ip_resources().is_present());
    } else {
        sw.show(&b.as_v6());
        let typed = Ipv6Blocks::from(b.clone());
        sw.show(&typed);
        sw.json(&typed);
        if let Some(t) = text_of(&typed, 1 << 16) {
            sw.see(Ipv6Blocks::from_str(&t).is_ok());
        }
        sw.see(typed.to_ip_resources().is_present());
    }
    sw.dbg(b);
    sw.enc(b.encode_ref());
    sw.enc(b.clone().encode());
    sw.enc(b.encode_family(if v4 { AddressFamily::Ipv4 } else { AddressFamily::Ipv6 }));
    sw.enc(if v4 { AddressFamily::Ipv4 } else { AddressFamily::Ipv6 }.encode());
    sw.see(b.contains(b));
    sw.see(b.contains(iss));
    sw.see(iss.contains(b));
    sw.see(b.intersection(iss).is_empty());
    sw.see(b.union(iss).is_empty());
    sw.see(b.difference(iss).is_empty());
    sw.see(iss.difference(b).is_empty());
    sw.see(b.verify_covered(&IpResources::blocks(iss.clone())).is_ok());
}

fn sweep_ipres(sw: &mut Sweep, r: &IpResources, v4: bool, fx: &Fixed) {
    sw.see(r.is_inherited());
    sw.see(r.is_present());
    sw.dbg(r);
    sw.enc(r.encode_ref());
    sw.enc(r.clone().encode());
    sw.enc(r.encode_family(if v4 { AddressFamily::Ipv4 } else { AddressFamily::Ipv6 }));
    // the extension encoder takes both families; the other one is absent here
    let none = IpResources::missing();
    for oc in [Overclaim::Refuse, Overclaim::Trim] {
        let (a, b) = if v4 { (r, &none) } else { (&none, r) };
        if let Some(ext) = IpResources::encode_extension(oc, a, b) {
            sw.enc(ext);
        }
    }
    if let Ok(b) = r.to_blocks() {
        sweep_ipblocks(sw, &b, v4, fx);
    }
    let iss = if v4 { &fx.iss_v4 } else { &fx.iss_v6 };
    for oc in [Overclaim::Refuse, Overclaim::Trim] {
        if let Ok(b) = iss.verify_issued(r, oc) {
            sw.see(b.is_empty());
        }
        if let Some(ta) = &fx.issuer {
            let tb = if v4 { ta.v4_resources() } else { ta.v6_resources() };
            sw.see(tb.verify_issued(r, oc).is_ok());
        }
    }
}

//------------ Sweeps: certificates ------------------------------------------

fn sweep_resource_cert(sw: &mut Sweep, rc: &ResourceCert, fx: &Fixed) {
    sw.validated = true;
    sweep_ipblocks(sw, rc.v4_resources(), true, fx);
    sweep_ipblocks(sw, rc.v6_resources(), false, fx);
    sweep_asblocks(sw, rc.as_resources(), fx);
    sw.see(rc.tal().name().len());
    sw.see(rc.as_cert().serial_number());
}

fn sweep_cert(sw: &mut Sweep, c: &Cert, o: &Opts, deep: bool) {
    let fx = o.fixed;
    sweep_serial(sw, c.serial_number());
    sweep_name(sw, c.issuer());
    sweep_name(sw, c.subject());
    sweep_validity(sw, c.validity(), fx);
    sweep_pubkey(sw, c.subject_public_key_info(), o);
    sw.see(c.basic_ca());
    sweep_key_id(sw, &c.subject_key_identifier());
    if let Some(k) = c.authority_key_identifier() {
        sweep_key_id(sw, &k);
    }
    sw.see(c.key_usage());
    sw.enc(c.key_usage().encode());
    if let Some(eku) = c.extended_key_usage() {
        sw.dbg(eku);
        sw.see(eku.inspect_router().is_ok());
    }
    sweep_rsync(sw, c.crl_uri());
    sweep_rsync(sw, c.ca_issuer());
    sweep_rsync(sw, c.ca_repository());
    sweep_rsync(sw, c.rpki_manifest());
    sweep_rsync(sw, c.signed_object());
    sweep_https(sw, c.rpki_notify());
    sw.see(c.overclaim());
    sw.see(c.overclaim().policy_id());
    sweep_ipres(sw, c.v4_resources(), true, fx);
    sweep_ipres(sw, c.v6_resources(), false, fx);
    sw.see(c.has_ip_resources());
    sweep_asres(sw, c.as_resources(), fx);
    sw.see(c.is_ca());
    sw.see(c.is_self_signed());
    sw.see(c.verify_validity(fx.now).is_ok());
    if deep {
        sw.dbg(c);
    }
    if o.crypto {
        for strict in [true, false] {
            sw.see(c.inspect_ta(strict).is_ok());
            sw.see(c.inspect_ca(strict).is_ok());
            sw.see(c.inspect_ee(strict).is_ok());
            sw.see(c.inspect_detached_ee(strict).is_ok());
            sw.see(c.inspect_router(strict).is_ok());
            sw.see(c.verify_ta_ref_at(strict, fx.now).is_ok());
        }
        if let Ok(rc) = c.clone().validate_ta_at(TalInfo::from_name("c04".into()).into_arc(), true, fx.now) {
            sweep_resource_cert(sw, &rc, fx);
        }
        if let Some(iss) = &fx.issuer {
            sw.see(c.verify_issuer_claim(iss, true).is_ok());
            sw.see(c.verify_signature(iss.as_cert(), true).is_ok());
            for strict in [true, false] {
                if let Ok(rc) = c.clone().validate_ca_at(iss, strict, fx.now) {
                    sweep_resource_cert(sw, &rc, fx);
                }
                if let Ok(rc) = c.clone().validate_ee_at(iss, strict, fx.now) {
                    sweep_resource_cert(sw, &rc, fx);
                }
                if let Ok(rc) = c.clone().validate_detached_ee_at(iss, strict, fx.now) {
                    sweep_resource_cert(sw, &rc, fx);
                }
                if c.validate_router_at(iss, strict, fx.now).is_ok() {
                    sw.validated = true;
                }
            }
        }
    }
    // re-encoding last: a panic in here must not hide one in validation.
    // `encode_ref` / `to_captured` of the certificate re-use the signed
    // octets as they were captured; the to-be-signed part and the resource
    // extensions are also written *from their decoded fields*.
    sw.enc(c.encode_ref());
    sw.see(c.to_captured().len());
    {
        let tbs: &rpki::repository::cert::TbsCert = c.as_ref();
        sw.enc(tbs.encode_ref());
        for oc in [Overclaim::Refuse, Overclaim::Trim] {
            if let Some(ext) = IpResources::encode_extension(oc, c.v4_resources(), c.v6_resources()) {
                sw.enc(ext);
            }
        }
    }
    if deep {
        sw.json(c);
    }
}

//------------ Sweeps: CRL ---------------------------------------------------

fn sweep_revoked(sw: &mut Sweep, r: &RevokedCertificates, fx: &Fixed) {
    let mut first: Option<CrlEntry> = None;
    let mut last: Option<CrlEntry> = None;
    let mut n = 0u32;
    laws::laws_revoked(&mut sw.laws, r);
    for e in r.iter() {
        if first.is_none() {
            first = Some(e);
        }
        last = Some(e);
        n += 1;
        if n <= 64 {
            sw.see(e.user_certificate);
            sw.dbg(&e);
            sw.see(e.revocation_date < fx.now);
            sw.enc(e.encode());
        }
    }
    sw.see(n);
    sw.see(r.contains(Serial::from(0u64)));
    sw.see(r.contains(Serial::from(1u64)));
    sw.see(r.contains(Serial::from(u128::MAX >> 1)));
    if let Some(e) = first {
        sw.see(r.contains(e.user_certificate));
    }
    if let Some(e) = last {
        sw.see(r.contains(e.user_certificate));
    }
    sw.enc(r.encode_ref());
    sw.dbg(r);
}

fn sweep_tbs_crl(sw: &mut Sweep, t: &TbsCertList<RevokedCertificates>, fx: &Fixed) {
    sw.see(t.signature());
    sweep_name(sw, t.issuer());
    sweep_time(sw, t.this_update(), fx);
    sweep_time(sw, t.next_update(), fx);
    sw.see(t.is_stale());
    sweep_key_id(sw, t.authority_key_identifier());
    sweep_serial(sw, t.crl_number());
    sweep_revoked(sw, t.revoked_certs(), fx);
    sw.enc(t.encode_ref());
}

fn sweep_crl(sw: &mut Sweep, c: &Crl, o: &Opts) {
    let fx = o.fixed;
    sweep_tbs_crl(sw, c.as_cert_list(), fx);
    sw.see(c.signed_data().data().len());
    sw.see(c.signed_data().signature().value().len());
    sw.see(c.contains(Serial::from(0u64)));
    sw.see(c.contains(Serial::from(12u64)));
    let mut cached = c.clone();
    cached.cache_serials();
    sw.see(cached.contains(Serial::from(12u64)));
    sw.see(cached.contains(Serial::from(u128::MAX >> 1)));
    sw.dbg(c);
    sw.json(c);
    sw.see(c.to_captured().len());
    sw.enc(c.encode_ref());
    if o.crypto {
        if let Some(iss) = &fx.issuer {
            sw.see(c.verify_signature(iss.subject_public_key_info()).is_ok());
        }
        if let Some(k) = &fx.id_key {
            if c.verify_signature(k).is_ok() {
                sw.validated = true;
            }
        }
    }
}

//------------ Sweeps: signed objects ----------------------------------------

fn sweep_octets(sw: &mut Sweep, s: &bcder::OctetString) {
    sw.see(s.len());
    sw.see(s.is_empty());
    sw.see(s.as_slice().map(|x| x.len()));
    sw.see(s.iter().count());
    sw.see(s.octets().take(1 << 16).count());
    laws::laws_octets(&mut sw.laws, s);
    sw.see(s.to_bytes().len());
    sw.enc(s.encode_ref());
    sw.dbg(s);
}

fn sweep_mft_content(sw: &mut Sweep, m: &ManifestContent, o: &Opts) {
    let fx = o.fixed;
    sweep_serial(sw, m.manifest_number());
    sweep_time(sw, m.this_update(), fx);
    sweep_time(sw, m.next_update(), fx);
    sw.see(m.file_hash_alg());
    sw.see(m.len());
    sw.see(m.is_empty());
    sw.see(m.is_stale());
    laws::laws_mft(&mut sw.laws, m, &fx.base);
    let mut n = 0usize;
    for item in m.iter() {
        n += 1;
        sw.see(item.file().len());
        sw.see(item.hash().len());
        if n <= 64 {
            sw.enc(item.encode_ref());
            sw.dbg(&item);
        }
        let (f, h) = item.into_pair();
        black_box((f, h));
    }
    sw.see(n == m.len());
    let mut k = 0usize;
    for (u, h) in m.iter_uris(&fx.base) {
        k += 1;
        if k <= 64 {
            sw.show(&u);
            sw.see(u.relative_to(&fx.base).map(|s| s.len()));
            sw.see(h.algorithm());
            sw.see(h.as_slice().len());
            sw.dbg(&h);
            if o.crypto {
                sw.see(h.verify(b"c04").is_ok());
            }
        }
    }
    sw.enc(m.encode_ref());
    sw.dbg(m);
}

fn sweep_sigobj(sw: &mut Sweep, s: &SignedObject, o: &Opts) {
    let fx = o.fixed;
    sw.dbg(s.content_type());
    sw.show(s.content_type());
    sweep_octets(sw, s.content());
    sweep_time(sw, s.signing_time(), fx);
    sweep_cert(sw, s.cert(), o, false);
    sw.see(s.decode_content(|c| c.skip_all()).is_ok());
    sw.see(s.decode_content(|c| c.capture_all().map(|x| x.len())).is_ok());
    sw.enc(s.encode_ref());
    if o.crypto {
        if let Some(iss) = &fx.issuer {
            for strict in [true, false] {
                if let Ok(rc) = s.clone().validate_at(iss, strict, fx.now) {
                    sweep_resource_cert(sw, &rc, fx);
                }
                if let Ok((rc, b)) = s.clone().process(iss, strict, |_| Ok(())) {
                    sw.see(b.len());
                    sweep_resource_cert(sw, &rc, fx);
                }
            }
        }
    }
}

fn sweep_mft(sw: &mut Sweep, m: &Manifest, o: &Opts) {
    let fx = o.fixed;
    sweep_cert(sw, m.cert(), o, false);
    sweep_mft_content(sw, m.content(), o);
    sw.see(m.len());
    sw.dbg(m);
    if o.crypto {
        if let Some(iss) = &fx.issuer {
            for strict in [true, false] {
                if let Ok((rc, content)) = m.clone().validate_at(iss, strict, fx.now) {
                    sweep_resource_cert(sw, &rc, fx);
                    sw.see(content.iter().count());
                }
            }
        }
    }
    sw.see(m.to_captured().len());
    sw.enc(m.encode_ref());
    sw.json(m);
}

fn sweep_roa(sw: &mut Sweep, r: &Roa, o: &Opts) {
    use rpki::repository::roa::RouteOriginAttestation;
    let fx = o.fixed;
    fn content(sw: &mut Sweep, c: &RouteOriginAttestation, fx: &Fixed) {
        sw.see(c.as_id());
        sw.see(c.v4_addrs().is_empty());
        sw.see(c.v6_addrs().is_empty());
        laws::laws_roa(&mut sw.laws, c);
        for (addrs, v4) in [(c.v4_addrs(), true), (c.v6_addrs(), false)] {
            let iss = if v4 { &fx.iss_v4 } else { &fx.iss_v6 };
            for (i, a) in addrs.iter().enumerate() {
                if i < 256 {
                    sw.see(a.prefix());
                    sw.see(a.range());
                    sw.see(a.max_length());
                    sw.see(iss.contains_roa(&a));
                    sw.dbg(&a);
                } else {
                    sw.t();
                }
            }
        }
        for (i, f) in c.iter().enumerate() {
            if i < 256 {
                sw.see(f.prefix());
                sw.see(f.is_v4());
                sw.see(f.address());
                sw.see(f.address_length());
                sw.see(f.max_length());
                sw.show(&f);
            } else {
                sw.t();
            }
        }
        for (i, org) in c.iter_origins().enumerate() {
            if i < 256 {
                sw.see(org.prefix);
                sw.see(org.asn);
                sw.dbg(&org);
            } else {
                sw.t();
            }
        }
        sw.enc(c.encode_ref());
        sw.dbg(c);
    }
    sweep_cert(sw, r.cert(), o, false);
    content(sw, r.content(), fx);
    sw.dbg(r);
    if o.crypto {
        if let Some(iss) = &fx.issuer {
            for strict in [true, false] {
                if let Ok((rc, c)) = r.clone().process(iss, strict, |_| Ok(())) {
                    sweep_resource_cert(sw, &rc, fx);
                    content(sw, &c, fx);
                }
            }
        }
    }
    sw.see(r.to_captured().len());
    sw.enc(r.encode_ref());
    sw.json(r);
}

fn sweep_aspa(sw: &mut Sweep, a: &Aspa, o: &Opts) {
    use rpki::repository::aspa::AsProviderAttestation;
    let fx = o.fixed;
    fn content(sw: &mut Sweep, c: &AsProviderAttestation, fx: &Fixed) {
        sw.see(c.customer_as());
        let set = c.provider_as_set();
        sw.see(set.len());
        let mut n = 0usize;
        for asn in set.iter() {
            n += 1;
            black_box(asn);
        }
        sw.see(n == set.len());
        laws::laws_aspa(&mut sw.laws, c);
        let small = set.to_set();
        sw.see(small.len());
        sw.see(small.is_empty());
        sw.see(small.iter().count());
        sw.see(small.contains(c.customer_as()));
        sw.dbg(set);
        sweep_asres(sw, &c.as_resources(), fx);
        sw.enc(c.encode_ref());
        sw.dbg(c);
    }
    sweep_cert(sw, a.cert(), o, false);
    content(sw, a.content(), fx);
    sw.dbg(a);
    if o.crypto {
        if let Some(iss) = &fx.issuer {
            for strict in [true, false] {
                if let Ok((rc, c)) = a.clone().process(iss, strict, |_| Ok(())) {
                    sweep_resource_cert(sw, &rc, fx);
                    content(sw, &c, fx);
                }
            }
        }
    }
    sw.see(a.to_captured().len());
    sw.enc(a.encode_ref());
    sw.json(a);
}

fn sweep_rta(sw: &mut Sweep, r: &Rta, o: &Opts) {
    let fx = o.fixed;
    let c = r.content();
    for k in c.subject_keys() {
        sweep_key_id(sw, k);
    }
    sweep_asblocks(sw, c.as_resources(), fx);
    sweep_ipblocks(sw, c.v4_resources(), true, fx);
    sweep_ipblocks(sw, c.v6_resources(), false, fx);
    sw.see(c.digest_algorithm());
    sw.see(c.message_digest().as_ref().len());
    sw.enc(c.encode_ref());
    sw.dbg(c);
    sw.see(r.to_captured().len());
    sw.enc(r.encode_ref());
    sw.dbg(r);
    if o.crypto {
        for strict in [true, false] {
            if let Ok(mut v) = rta::Validation::new_at(r, strict, fx.now) {
                if let Some(tal) = &fx.tal {
                    sw.see(v.supply_tal(tal).is_ok());
                }
                if let Some(iss) = &fx.issuer {
                    sw.see(v.supply_ca(iss).is_ok());
                }
                if v.finalize().is_ok() {
                    sw.validated = true;
                }
            }
        }
    }
}

//------------ Sweeps: TAL, keys, CA objects ---------------------------------

fn sweep_tal(sw: &mut Sweep, t: &Tal, o: &Opts) {
    laws::laws_tal(&mut sw.laws, t);
    for u in t.uris() {
        sw.see(u.is_rsync());
        sw.see(u.is_https());
        sw.see(u.as_str().len());
        sw.show(u);
        sw.json(u);
    }
    sweep_pubkey(sw, t.key_info(), o);
    sw.see(t.info().name().len());
    let mut t2 = t.clone();
    t2.prefer_https();
    sw.see(t2.uris().count());
    sw.dbg(t);
}

fn sweep_csr_common<A: SignatureAlgorithm, T: fmt::Debug>(sw: &mut Sweep, c: &Csr<A, T>, o: &Opts) {
    sweep_name(sw, c.subject());
    sweep_pubkey(sw, c.public_key(), o);
    sw.dbg(c.attributes());
    sw.see(c.to_captured().len());
    sw.enc(c.encode_ref());
    sw.json(c);
}

fn sweep_ca_csr(sw: &mut Sweep, c: &RpkiCaCsr, o: &Opts) {
    sweep_csr_common(sw, c, o);
    sw.see(c.basic_ca());
    sw.see(c.key_usage());
    if let Some(eku) = c.extended_key_usage() {
        sw.dbg(eku);
        sw.see(eku.inspect_router().is_ok());
    }
    sweep_rsync(sw, c.ca_repository());
    sweep_rsync(sw, c.rpki_manifest());
    sweep_https(sw, c.rpki_notify());
    if o.crypto && c.verify_signature().is_ok() {
        sw.validated = true;
    }
}

fn sweep_bgpsec_csr(sw: &mut Sweep, c: &BgpsecCsr, o: &Opts) {
    sweep_csr_common(sw, c, o);
    if let Some(eku) = c.attributes().extended_key_usage() {
        sw.dbg(eku);
        sw.see(eku.inspect_router().is_ok());
    }
    if o.crypto && c.verify_signature().is_ok() {
        sw.validated = true;
    }
}

fn sweep_idcert(sw: &mut Sweep, c: &IdCert, o: &Opts) {
    let fx = o.fixed;
    sweep_pubkey(sw, c.public_key(), o);
    sweep_pubkey(sw, c.subject_public_key_info(), o);
    sweep_key_id(sw, &c.subject_key_identifier());
    sweep_key_id(sw, &c.subject_key_id());
    if let Some(k) = c.authority_key_id() {
        sweep_key_id(sw, &k);
    }
    sweep_serial(sw, c.serial_number());
    sweep_name(sw, c.subject());
    sweep_validity(sw, *c.validity(), fx);
    sw.see(c.to_captured().len());
    sw.see(c.to_bytes().len());
    sw.enc(c.encode_ref());
    {
        let tbs: &rpki::ca::idcert::TbsIdCert = c.as_ref();
        sw.enc(tbs.encode_ref());
    }
    sw.json(c);
    sw.dbg(c);
    sw.see(c == c);
    if o.crypto {
        if c.validate_ta_at(fx.now).is_ok() {
            sw.validated = true;
        }
        if let Some(k) = &fx.id_key {
            if c.validate_ee_at(k, fx.now).is_ok() {
                sw.validated = true;
            }
        }
        sw.see(c.verify_validity(fx.now).is_ok());
    }
}

fn sweep_sigmsg(sw: &mut Sweep, m: &SignedMessage, o: &Opts) {
    let fx = o.fixed;
    // validation first: a panic in re-encoding must not hide one in here
    if o.crypto {
        if let Some(k) = &fx.id_key {
            if m.validate_at(k, fx.now).is_ok() {
                sw.validated = true;
            }
        }
    }
    sw.show(m.content_type());
    sweep_octets(sw, m.content());
    sw.enc(m.encode_ref());
    sw.dbg(m);
    sw.see(m.to_captured().len());
}

//------------ evaluate ------------------------------------------------------

/// Decodes `data` through `ep` and sweeps the value if there is one.
/// Panics propagate to the caller (that is the observation).
pub fn evaluate(ep: Ep, data: &[u8], o: &Opts) -> Outcome {
    let fx = o.fixed;
    let mut sw = Sweep::new();
    sw.light = o.light;
    if o.light {
        // under Miri the adapter laws have a workload of their own (a handful of cases)
        sw.laws = Laws::off();
    }
    sw.ber = matches!(
        ep,
        Ep::MftRelaxed | Ep::RoaRelaxed | Ep::AspaRelaxed | Ep::SigObjRelaxed | Ep::SigMsgRelaxed | Ep::ProvCms | Ep::PubCms
            | Ep::AsResBer | Ep::IpResBer | Ep::MftContentBer | Ep::CrlTbsBer
    );
    macro_rules! dec {
        ($e:expr, |$v:ident| $body:block) => {
            match $e {
                Ok($v) => {
                    $body;
                    Outcome::ok(sw)
                }
                Err(e) => Outcome::err(e),
            }
        };
    }
    let mode = |ber: bool| if ber { Mode::Ber } else { Mode::Der };
    match ep {
        Ep::Cert => dec!(Cert::decode(data), |v| { sweep_cert(&mut sw, &v, o, true) }),
        Ep::Crl => dec!(Crl::decode(data), |v| { sweep_crl(&mut sw, &v, o) }),
        Ep::MftStrict | Ep::MftRelaxed => {
            dec!(Manifest::decode(data, ep == Ep::MftStrict), |v| { sweep_mft(&mut sw, &v, o) })
        }
        Ep::RoaStrict | Ep::RoaRelaxed => {
            dec!(Roa::decode(data, ep == Ep::RoaStrict), |v| { sweep_roa(&mut sw, &v, o) })
        }
        Ep::AspaStrict | Ep::AspaRelaxed => {
            dec!(Aspa::decode(data, ep == Ep::AspaStrict), |v| { sweep_aspa(&mut sw, &v, o) })
        }
        Ep::RtaStrict | Ep::RtaRelaxed => {
            dec!(Rta::decode(data, ep == Ep::RtaStrict), |v| { sweep_rta(&mut sw, &v, o) })
        }
        Ep::SigObjStrict | Ep::SigObjRelaxed => {
            dec!(SignedObject::decode(data, ep == Ep::SigObjStrict), |v| { sweep_sigobj(&mut sw, &v, o) })
        }
        Ep::Tal => {
            let mut rd = data;
            match Tal::read("c04.tal", &mut rd) {
                Ok(t) => {
                    sweep_tal(&mut sw, &t, o);
                    Outcome::ok(sw)
                }
                Err(e) => {
                    let mut s = Sink(0);
                    let _ = write!(s, "{}", e);
                    let mut d = Sink(0);
                    let _ = write!(d, "{:?}", e);
                    let kind = match e {
                        rpki::repository::tal::ReadError::Io(_) => "tal: io",
                        rpki::repository::tal::ReadError::UnexpectedEof => "tal: unexpected eof",
                        rpki::repository::tal::ReadError::BadUri(_) => "tal: bad uri",
                        rpki::repository::tal::ReadError::BadKeyInfoEncoding(_) => "tal: bad base64",
                        rpki::repository::tal::ReadError::BadKeyInfo(_) => "tal: bad key info",
                    };
                    Outcome::err_text(kind.into())
                }
            }
        }
        Ep::PubKey => dec!(PublicKey::decode(data), |v| { sweep_pubkey(&mut sw, &v, o) }),
        Ep::CaCsr => dec!(RpkiCaCsr::decode(data), |v| { sweep_ca_csr(&mut sw, &v, o) }),
        Ep::BgpsecCsr => dec!(BgpsecCsr::decode(data), |v| { sweep_bgpsec_csr(&mut sw, &v, o) }),
        Ep::IdCert => dec!(IdCert::decode(data), |v| { sweep_idcert(&mut sw, &v, o) }),
        Ep::SigMsgStrict | Ep::SigMsgRelaxed => {
            dec!(SignedMessage::decode(data, ep == Ep::SigMsgStrict), |v| { sweep_sigmsg(&mut sw, &v, o) })
        }
        Ep::ProvCms => match ProvisioningCms::decode(data) {
            Ok(c) => {
                if o.crypto {
                    if let Some(k) = &fx.id_key {
                        if c.validate_at(k, fx.now).is_ok() {
                            sw.validated = true;
                        }
                    }
                }
                sw.dbg(c.message());
                sw.see(c.message().to_xml_string().len());
                sw.see(c.message().sender().as_str().len());
                sw.see(c.message().recipient().as_str().len());
                sw.dbg(&c);
                sw.see(c.to_bytes().len());
                let (sm, msg) = c.unpack();
                sw.dbg(msg.payload());
                sweep_sigmsg(&mut sw, &sm, o);
                Outcome::ok(sw)
            }
            Err(e) => Outcome::err_text(format!("prov: {}", e)),
        },
        Ep::PubCms => match PublicationCms::decode(data) {
            Ok(c) => {
                if o.crypto {
                    if let Some(k) = &fx.id_key {
                        if c.validate_at(k, fx.now).is_ok() {
                            sw.validated = true;
                        }
                    }
                }
                sw.dbg(&c);
                sw.see(c.to_bytes().len());
                let (sm, msg) = c.unpack();
                sw.see(msg.to_xml_string().len());
                sw.dbg(&msg);
                sweep_sigmsg(&mut sw, &sm, o);
                Outcome::ok(sw)
            }
            Err(e) => Outcome::err_text(format!("pub: {}", e)),
        },
        Ep::AsResDer | Ep::AsResBer => {
            let m = mode(ep == Ep::AsResBer);
            // both public decoders of the AS resources module on the same bytes
            let a = m.decode(data, AsResources::take_from);
            let b = m.decode(data, AsBlocks::take_from);
            if let Ok(b) = &b {
                sweep_asblocks(&mut sw, b, fx);
            }
            match (a, b) {
                (Ok(r), _) => {
                    sweep_asres(&mut sw, &r, fx);
                    Outcome::ok(sw)
                }
                (Err(_), Ok(_)) => Outcome::ok(sw),
                (Err(e), Err(_)) => Outcome::err(e),
            }
        }
        Ep::IpResDer | Ep::IpResBer => {
            // every public decoder of the IP resources module on the same
            // bytes, one after the other: decode, sweep, drop (keeping all
            // five values alive at once would be the harness's memory, not
            // the library's)
            let m = mode(ep == Ep::IpResBer);
            let mut any = false;
            let mut first_err = None;
            match m.decode(data, IpResources::take_families_from) {
                Ok((a, b)) => {
                    any = true;
                    if let Some(a) = &a {
                        sweep_ipres(&mut sw, a, true, fx);
                    }
                    if let Some(b) = &b {
                        sweep_ipres(&mut sw, b, false, fx);
                    }
                }
                Err(e) => first_err = Some(e),
            }
            if let Ok(r) = m.decode(data, |c| IpResources::take_from(c, AddressFamily::Ipv4)) {
                any = true;
                sweep_ipres(&mut sw, &r, true, fx);
            }
            if let Ok(r) = m.decode(data, |c| IpResources::take_from(c, AddressFamily::Ipv6)) {
                any = true;
                sweep_ipres(&mut sw, &r, false, fx);
            }
            if let Ok(b) = m.decode(data, IpBlocks::take_from) {
                any = true;
                sweep_ipblocks(&mut sw, &b, false, fx);
            }
            if let Ok(b) = m.decode(data, |c| IpBlocks::take_from_with_family(c, AddressFamily::Ipv4)) {
                any = true;
                sweep_ipblocks(&mut sw, &b, true, fx);
            }
            match (any, first_err) {
                (false, Some(e)) => Outcome::err(e),
                _ => Outcome::ok(sw),
            }
        }
        Ep::MftContentDer | Ep::MftContentBer => {
            let m = mode(ep == Ep::MftContentBer);
            dec!(m.decode(data, ManifestContent::take_from), |v| { sweep_mft_content(&mut sw, &v, o) })
        }
        Ep::CrlTbsDer | Ep::CrlTbsBer => {
            let m = mode(ep == Ep::CrlTbsBer);
            let tbs = m.decode(data, TbsCertList::take_from);
            let rev = m.decode(data, RevokedCertificates::take_from);
            let ent = m.decode(data, CrlEntry::take_from);
            if let Ok(r) = &rev {
                sweep_revoked(&mut sw, r, fx);
            }
            if let Ok(e) = &ent {
                sw.dbg(e);
                sw.enc(e.encode());
            }
            match (tbs, rev.is_ok() || ent.is_ok()) {
                (Ok(t), _) => {
                    sweep_tbs_crl(&mut sw, &t, fx);
                    Outcome::ok(sw)
                }
                (Err(_), true) => Outcome::ok(sw),
                (Err(e), false) => Outcome::err(e),
            }
        }
        Ep::Time => {
            let m1 = Mode::Der.decode(data, Time::take_from);
            let m2 = Mode::Ber.decode(data, |c| Time::take_opt_from(c));
            let m3 = Mode::Der.decode(data, Validity::take_from);
            if let Ok(Some(t)) = &m2 {
                sweep_time(&mut sw, *t, fx);
            }
            if let Ok(v) = &m3 {
                sweep_validity(&mut sw, *v, fx);
            }
            match m1 {
                Ok(t) => {
                    sweep_time(&mut sw, t, fx);
                    Outcome::ok(sw)
                }
                Err(e) => {
                    if m3.is_ok() {
                        Outcome::ok(sw)
                    } else {
                        Outcome::err(e)
                    }
                }
            }
        }
        Ep::Serial => {
            let b = Mode::Ber.decode(data, Serial::take_from);
            if let Ok(s) = &b {
                sweep_serial(&mut sw, *s);
            }
            dec!(Mode::Der.decode(data, Serial::take_from), |v| { sweep_serial(&mut sw, v) })
        }
        Ep::Name => {
            let b = Mode::Ber.decode(data, Name::take_from);
            if let Ok(n) = &b {
                sw.ber = true;
                sweep_name(&mut sw, n);
                sw.ber = false;
            }
            dec!(Mode::Der.decode(data, Name::take_from), |v| { sweep_name(&mut sw, &v) })
        }
    }
}

//------------ decode only ---------------------------------------------------

/// The decoding step of `evaluate` alone: every decoder `evaluate` tries for
/// this entry point, on the same bytes, the values dropped at once and no
/// accessor touched. Returns whether any of them produced a value. Used by
/// the scaling workload (c04_scale.rs), which measures the cost of decoding
/// apart from the cost of the accessor sweep.
pub fn decode_only(ep: Ep, data: &[u8]) -> bool {
    let mode = |ber: bool| if ber { Mode::Ber } else { Mode::Der };
    match ep {
        Ep::Cert => black_box(Cert::decode(data)).is_ok(),
        Ep::Crl => black_box(Crl::decode(data)).is_ok(),
        Ep::MftStrict | Ep::MftRelaxed => black_box(Manifest::decode(data, ep == Ep::MftStrict)).is_ok(),
        Ep::RoaStrict | Ep::RoaRelaxed => black_box(Roa::decode(data, ep == Ep::RoaStrict)).is_ok(),
        Ep::AspaStrict | Ep::AspaRelaxed => black_box(Aspa::decode(data, ep == Ep::AspaStrict)).is_ok(),
        Ep::RtaStrict | Ep::RtaRelaxed => black_box(Rta::decode(data, ep == Ep::RtaStrict)).is_ok(),
        Ep::SigObjStrict | Ep::SigObjRelaxed => black_box(SignedObject::decode(data, ep == Ep::SigObjStrict)).is_ok(),
        Ep::Tal => {
            let mut rd = data;
            black_box(Tal::read("c04.tal", &mut rd)).is_ok()
        }
        Ep::PubKey => black_box(PublicKey::decode(data)).is_ok(),
        Ep::CaCsr => black_box(RpkiCaCsr::decode(data)).is_ok(),
        Ep::BgpsecCsr => black_box(BgpsecCsr::decode(data)).is_ok(),
        Ep::IdCert => black_box(IdCert::decode(data)).is_ok(),
        Ep::SigMsgStrict | Ep::SigMsgRelaxed => black_box(SignedMessage::decode(data, ep == Ep::SigMsgStrict)).is_ok(),
        Ep::ProvCms => black_box(ProvisioningCms::decode(data)).is_ok(),
        Ep::PubCms => black_box(PublicationCms::decode(data)).is_ok(),
        Ep::AsResDer | Ep::AsResBer => {
            let m = mode(ep == Ep::AsResBer);
            let a = black_box(m.decode(data, AsResources::take_from)).is_ok();
            let b = black_box(m.decode(data, AsBlocks::take_from)).is_ok();
            a || b
        }
        Ep::IpResDer | Ep::IpResBer => {
            let m = mode(ep == Ep::IpResBer);
            let a = black_box(m.decode(data, IpResources::take_families_from)).is_ok();
            let b = black_box(m.decode(data, |c| IpResources::take_from(c, AddressFamily::Ipv4))).is_ok();
            let c = black_box(m.decode(data, |c| IpResources::take_from(c, AddressFamily::Ipv6))).is_ok();
            let d = black_box(m.decode(data, IpBlocks::take_from)).is_ok();
            let e = black_box(m.decode(data, |c| IpBlocks::take_from_with_family(c, AddressFamily::Ipv4))).is_ok();
            a || b || c || d || e
        }
        Ep::MftContentDer | Ep::MftContentBer => {
            black_box(mode(ep == Ep::MftContentBer).decode(data, ManifestContent::take_from)).is_ok()
        }
        Ep::CrlTbsDer | Ep::CrlTbsBer => {
            let m = mode(ep == Ep::CrlTbsBer);
            let a = black_box(m.decode(data, TbsCertList::take_from)).is_ok();
            let b = black_box(m.decode(data, RevokedCertificates::take_from)).is_ok();
            let c = black_box(m.decode(data, CrlEntry::take_from)).is_ok();
            a || b || c
        }
        Ep::Time => {
            let a = black_box(Mode::Der.decode(data, Time::take_from)).is_ok();
            let b = black_box(Mode::Ber.decode(data, |c| Time::take_opt_from(c))).is_ok();
            let c = black_box(Mode::Der.decode(data, Validity::take_from)).is_ok();
            a || b || c
        }
        Ep::Serial => {
            let a = black_box(Mode::Ber.decode(data, Serial::take_from)).is_ok();
            let b = black_box(Mode::Der.decode(data, Serial::take_from)).is_ok();
            a || b
        }
        Ep::Name => {
            let a = black_box(Mode::Ber.decode(data, Name::take_from)).is_ok();
            let b = black_box(Mode::Der.decode(data, Name::take_from)).is_ok();
            a || b
        }
    }
}

//------------ libFuzzer entry -----------------------------------------------

thread_local! {
    static FUZZ_FIXED: std::cell::OnceCell<Fixed> = const { std::cell::OnceCell::new() };
}

/// One libFuzzer input: first byte selects the entry point within `group`,
/// the rest is the byte string. Panics (the finding) propagate; additionally
/// the heap budget of the property is asserted when a counting allocator is
/// installed by the target (`peak` callback returns the window peak).
pub fn fuzz_one(group: &[Ep], data: &[u8]) {
    let Some((sel, body)) = data.split_first() else { return };
    let ep = group[*sel as usize % group.len()];
    FUZZ_FIXED.with(|cell| {
        let fixed = cell.get_or_init(Fixed::with_crypto);
        let opts = Opts { crypto: true, fixed, light: false };
        let base = crate::alloc::window_start();
        let out = evaluate(ep, body, &opts);
        let (peak, _) = crate::alloc::window_peak(base);
        black_box(out.touched);
        if let Some(b) = out.law_breaks.first() {
            panic!("C04 iterator adapter disagrees with next() stepping: ep={} {} / {}: {}", ep.name(), b.iter, b.adapter, b.text);
        }
        let budget = heap_budget(body.len());
        if peak > budget {
            panic!("C04 heap budget exceeded: ep={} len={} peak={} budget={}", ep.name(), body.len(), peak, budget);
        }
    });
}

/// Peak-heap budget of the property for an input of `len` bytes.
pub fn heap_budget(len: usize) -> u64 {
    64 * 1024 + 64 * len as u64
}

/// CPU-time budget (ns) of the property for an input of `len` bytes.
pub fn cpu_budget_ns(len: usize) -> u64 {
    200_000_000 + 1_000 * len as u64
}
