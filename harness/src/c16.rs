//! C16 — RTR serial numbers compare and advance per RFC 1982.
//!
//! Oracle: the table in the property statement, as a function of the
//! difference d = (b - a) mod 2^32 only.
//!
//! The table is applied to *every* way the type offers to compare two serial
//! numbers (each operator and trait method, both operand orders, the mixed
//! `Serial` / `u32` comparison, comparisons reached through `Option`, slices
//! and tuples) and to every way of obtaining a `Serial` (constructors,
//! conversions, text, `Arbitrary`, `add`, `State::inc`). Where the library
//! moves a serial number over a transport - the server's query reader raced
//! against notifications, the client adopting End of Data - the octets are
//! delivered in pieces: see `c16_wire.rs`. Where the library itself relates
//! two serial numbers - the server while its source advances under an open
//! connection, the idle client that is told of a new serial - the same
//! advance / the same difference is placed at every edge of the number space
//! and on pairs that are related by their octets rather than by their
//! difference: see `c16_adv.rs` and `c16_api.rs`; the latter also walks
//! through the public PDU API item by item.

// Transport-level workloads live in `c16_wire.rs`; declared here so that
// `lib.rs` needs no extra line.
#[path = "c16_wire.rs"]
mod wire;
// The server over a source whose serial advances while a connection is open.
#[path = "c16_adv.rs"]
mod adv;
// The public PDU API, item by item, and the idle client's reaction to Serial Notify.
#[path = "c16_api.rs"]
mod api;

use crate::core::{hash2_of, Ctx, Stage, Tier};
use rpki::rtr::state::{Serial, State};
use serde_json::json;
use std::cmp::Ordering;
use std::collections::hash_map::DefaultHasher;
use std::hash::{Hash, Hasher};
use std::str::FromStr;

const BASES: [u32; 8] = [
    0,
    1,
    0x7FFF_FFFF,
    0x8000_0000,
    0x8000_0001,
    0xFFFF_FFFE,
    0xFFFF_FFFF,
    0x1234_5678,
];

fn expected(d: u32) -> Option<Ordering> {
    if d == 0 {
        Some(Ordering::Equal)
    } else if d < 0x8000_0000 {
        Some(Ordering::Less)
    } else if d == 0x8000_0000 {
        None
    } else {
        Some(Ordering::Greater)
    }
}

fn region(d: u32) -> &'static str {
    if d == 0 {
        "d=0"
    } else if d < 0x8000_0000 {
        "d<2^31"
    } else if d == 0x8000_0000 {
        "d=2^31"
    } else {
        "d>2^31"
    }
}

fn hash_of(s: Serial) -> u64 {
    let mut h = DefaultHasher::new();
    s.hash(&mut h);
    h.finish()
}

/// Checks one (a, d). Returns a description of the first disagreement.
#[inline]
fn check_pair(a: u32, d: u32) -> Option<(&'static str, String)> {
    let b = a.wrapping_add(d);
    let sa = Serial::from(a);
    let sb = Serial::from(b);
    let exp = expected(d);
    let got = sa.partial_cmp(&sb);
    if got != exp {
        return Some(("partial_cmp", format!("partial_cmp({a},{b}) = {got:?}, expected {exp:?} (d={d})")));
    }
    // antisymmetry / the reverse direction depends on -d
    let rexp = exp.map(Ordering::reverse);
    let rgot = sb.partial_cmp(&sa);
    if rgot != rexp {
        return Some(("antisymmetry", format!("partial_cmp({b},{a}) = {rgot:?}, expected {rexp:?} (d={d})")));
    }
    let eq = sa == sb;
    if eq != (d == 0) {
        return Some(("eq", format!("({a} == {b}) = {eq}, d={d}")));
    }
    // operators are derived from partial_cmp; make sure they agree anyway
    if (sa < sb) != (exp == Some(Ordering::Less)) || (sa > sb) != (exp == Some(Ordering::Greater)) {
        return Some(("operators", format!("< / > disagree with the table for ({a},{b})")));
    }
    None
}

/// Every two-operand comparison the type offers, one bit each.
const OP_NAMES: [&str; 18] = [
    "eq",
    "ne",
    "lt",
    "le",
    "gt",
    "ge",
    "eq-reversed",
    "ne-reversed",
    "lt-reversed",
    "le-reversed",
    "gt-reversed",
    "ge-reversed",
    "eq-u32",
    "ne-u32",
    "eq-u32-reversed",
    "ne-u32-reversed",
    "trait-method-ne",
    "trait-method-ge",
];

#[inline]
fn ops_observed(sa: Serial, sb: Serial, a: u32, b: u32) -> u32 {
    let mut m = 0u32;
    m |= (sa == sb) as u32;
    m |= ((sa != sb) as u32) << 1;
    m |= ((sa < sb) as u32) << 2;
    m |= ((sa <= sb) as u32) << 3;
    m |= ((sa > sb) as u32) << 4;
    m |= ((sa >= sb) as u32) << 5;
    m |= ((sb == sa) as u32) << 6;
    m |= ((sb != sa) as u32) << 7;
    m |= ((sb < sa) as u32) << 8;
    m |= ((sb <= sa) as u32) << 9;
    m |= ((sb > sa) as u32) << 10;
    m |= ((sb >= sa) as u32) << 11;
    // Serial on the left, a bare integer on the right (`PartialEq<u32>`)
    m |= ((sa == b) as u32) << 12;
    m |= ((sa != b) as u32) << 13;
    m |= ((sb == a) as u32) << 14;
    m |= ((sb != a) as u32) << 15;
    // the same through the trait methods by name (what generic code calls)
    m |= (PartialEq::ne(&sa, &sb) as u32) << 16;
    m |= (PartialOrd::ge(&sa, &sb) as u32) << 17;
    m
}

/// What the statement's table says for each bit of `ops_observed`: equal at
/// 0 only; less / greater inside the half ranges; every order comparison
/// false and `!=` true at distance 2^31.
#[inline]
fn ops_expected(d: u32) -> u32 {
    let eq = d == 0;
    let lt = d != 0 && d < 0x8000_0000;
    let gt = d > 0x8000_0000;
    let mut m = 0u32;
    m |= eq as u32;
    m |= (!eq as u32) << 1;
    m |= (lt as u32) << 2;
    m |= ((lt || eq) as u32) << 3;
    m |= (gt as u32) << 4;
    m |= ((gt || eq) as u32) << 5;
    // operands swapped: the difference is -d
    m |= (eq as u32) << 6;
    m |= (!eq as u32) << 7;
    m |= (gt as u32) << 8;
    m |= ((gt || eq) as u32) << 9;
    m |= (lt as u32) << 10;
    m |= ((lt || eq) as u32) << 11;
    m |= (eq as u32) << 12;
    m |= (!eq as u32) << 13;
    m |= (eq as u32) << 14;
    m |= (!eq as u32) << 15;
    m |= (!eq as u32) << 16;
    m |= ((gt || eq) as u32) << 17;
    m
}

/// Checks the whole operator table for (a, a+d); a disagreement names the
/// first operator that deviates.
#[inline]
fn check_ops(ctx: &mut Ctx, a: u32, d: u32) {
    let b = a.wrapping_add(d);
    let got = ops_observed(Serial::from(a), Serial::from(b), a, b);
    let want = ops_expected(d);
    if got != want {
        report_ops(ctx, a, b, d, got, want);
    }
}

#[cold]
fn report_ops(ctx: &mut Ctx, a: u32, b: u32, d: u32, got: u32, want: u32) {
    for (i, name) in OP_NAMES.iter().enumerate() {
        let g = got >> i & 1 == 1;
        let w = want >> i & 1 == 1;
        if g != w {
            let (l, r) = if name.contains("reversed") { (b, a) } else { (a, b) };
            ctx.violation(
                &format!("C16:op:{}:{}", name, region(d)),
                &format!(
                    "operator {name} on ({l:#x}, {r:#x}) gave {g}, the table says {w} (second operand of the pair is {d:#x} ahead of the first mod 2^32)"
                ),
                json!({"a": a, "b": b, "d": d, "operator": name, "left": l, "right": r, "observed": g, "expected": w}),
            );
        }
    }
}

/// The comparisons a user reaches through containers and the other
/// observables of a value (text, hash), for one pair. Slow: boundary subset.
fn check_pair_consumers(ctx: &mut Ctx, a: u32, d: u32) {
    let b = a.wrapping_add(d);
    let sa = Serial::from(a);
    let sb = Serial::from(b);
    let exp = expected(d);
    let eq = d == 0;
    let mut bad: Vec<(&'static str, String)> = Vec::new();
    // Option / slice / tuple delegate to the element's trait methods (which
    // ones exactly differs between std versions)
    if (Some(sa) == Some(sb)) != eq || (Some(sa) != Some(sb)) == eq {
        bad.push(("option-eq", format!("Some({a}) == Some({b}) is not {eq}")));
    }
    if Some(sa).partial_cmp(&Some(sb)) != exp {
        bad.push(("option-partial-cmp", format!("Some({a}).partial_cmp(Some({b})) = {:?}, expected {exp:?}", Some(sa).partial_cmp(&Some(sb)))));
    }
    if ([sa] == [sb]) != eq || ([sa][..] != [sb][..]) == eq {
        bad.push(("slice-eq", format!("[{a}] == [{b}] is not {eq}")));
    }
    if [sa][..].partial_cmp(&[sb][..]) != exp {
        bad.push(("slice-partial-cmp", format!("[{a}].partial_cmp([{b}]) = {:?}, expected {exp:?}", [sa][..].partial_cmp(&[sb][..]))));
    }
    if ([sa][..] < [sb][..]) != (exp == Some(Ordering::Less)) || ([sa][..] >= [sb][..]) != matches!(exp, Some(Ordering::Greater | Ordering::Equal)) {
        bad.push(("slice-order", format!("[{a}] < / >= [{b}] disagree with the table")));
    }
    if ((sa, 7u8) == (sb, 7u8)) != eq || ((sa, 7u8) != (sb, 7u8)) == eq {
        bad.push(("tuple-eq", format!("({a}, 7) == ({b}, 7) is not {eq}")));
    }
    if ((sa, 7u8) < (sb, 7u8)) != (exp == Some(Ordering::Less))
        || ((sa, 7u8) <= (sb, 7u8)) != matches!(exp, Some(Ordering::Less | Ordering::Equal))
        || ((sa, 7u8) > (sb, 7u8)) != (exp == Some(Ordering::Greater))
        || ((sa, 7u8) >= (sb, 7u8)) != matches!(exp, Some(Ordering::Greater | Ordering::Equal))
    {
        bad.push(("tuple-order", format!("({a}, 7) < / <= / > / >= ({b}, 7) disagree with the table")));
    }
    // through references
    if (&sa == &sb) != eq || (&sa < &sb) != (exp == Some(Ordering::Less)) || (&sa >= &sb) != matches!(exp, Some(Ordering::Greater | Ordering::Equal)) {
        bad.push(("by-reference", format!("&{a} == / < / >= &{b} disagree with the table")));
    }
    // other observables of a value: equal serials cannot be told apart,
    // different ones are not shown as the same
    let (ta, tb) = (format!("{sa}"), format!("{sb}"));
    if (ta == tb) != eq {
        bad.push(("display-vs-eq", format!("Display gives {ta:?} and {tb:?} for serials whose equality is {eq}")));
    }
    let (ta, tb) = (format!("{sa:?}"), format!("{sb:?}"));
    if (ta == tb) != eq {
        bad.push(("debug-vs-eq", format!("Debug gives {ta:?} and {tb:?} for serials whose equality is {eq}")));
    }
    if eq && (hash2_of(&sa) != hash2_of(&sb) || hash_of(sa) != hash_of(sb)) {
        bad.push(("hash-vs-eq", format!("equal serials {a} hash differently")));
    }
    for (what, msg) in bad {
        ctx.violation(&format!("C16:consumer:{}:{}", what, region(d)), &msg, json!({"a": a, "b": b, "d": d}));
    }
}

/// Number of comparisons `check_pair_consumers` makes.
const CONSUMER_EVALS: u64 = 12;

/// Every way to obtain a `Serial` with the value `a` gives the same serial,
/// and every way back to an integer gives `a`.
fn check_value(ctx: &mut Ctx, a: u32) -> u64 {
    let s = Serial::from(a);
    let mut bad: Vec<(String, String)> = Vec::new();
    let into: Serial = a.into();
    let lit = Serial(a);
    #[allow(clippy::clone_on_copy)]
    let cl = s.clone();
    let mut made: Vec<(&'static str, Serial)> = vec![("into-serial", into), ("tuple-struct-literal", lit), ("clone", cl), ("from-be-of-to-be", Serial::from_be(s.to_be()))];
    made.push(("from-be-of-be-octets", Serial::from_be(u32::from_ne_bytes(a.to_be_bytes()))));
    made.push(("state-from-parts", State::from_parts(0xA55A, s).serial()));
    made.push(("state-new-with-serial", State::new_with_serial(s).serial()));
    made.push(("add-zero", s.add(0)));
    made.push(("predecessor-add-one", Serial::from(a.wrapping_sub(1)).add(1)));
    made.push(("add-largest-increment", Serial::from(a.wrapping_sub(0x7FFF_FFFF)).add(0x7FFF_FFFF)));
    match Serial::from_str(&a.to_string()) {
        Ok(v) => made.push(("from-str-decimal", v)),
        Err(_) => ctx.obs("from_str_refused_decimal_u32", 1),
    }
    match format!("{s}").parse::<Serial>() {
        Ok(v) => made.push(("from-str-of-display", v)),
        Err(_) => ctx.obs("display_text_not_parsed_back", 1),
    }
    if format!("{s}") == a.to_string() {
        ctx.obs("display_is_decimal_u32", 1);
    }
    let n = made.len() as u64;
    for (how, v) in made {
        let back: u32 = v.into();
        if back != a || v.0 != a || u32::from(v) != a {
            bad.push((format!("{how}:value"), format!("{how} of {a:#x} holds {back:#x}")));
        } else if v != s || !(v == s) || v != a || !(v == a) || v.partial_cmp(&s) != Some(Ordering::Equal) || s.partial_cmp(&v) != Some(Ordering::Equal) {
            bad.push((format!("{how}:not-equal-to-the-same-value"), format!("{how} of {a:#x} does not compare equal to Serial::from({a:#x})")));
        } else if hash2_of(&v) != hash2_of(&s) {
            bad.push((format!("{how}:hash-vs-eq"), format!("{how} of {a:#x} hashes differently from Serial::from({a:#x})")));
        }
    }
    for (what, msg) in bad {
        ctx.violation(&format!("C16:conversion:{}", what), &msg, json!({"value": a}));
    }
    n
}

fn check_add(a: u32, n: u32) -> Option<(&'static str, String)> {
    let sa = Serial::from(a);
    let r = sa.add(n);
    let want = a.wrapping_add(n);
    if u32::from(r) != want {
        return Some(("add-value", format!("Serial({a}).add({n}) = {}, expected {want}", u32::from(r))));
    }
    if n >= 1 {
        if !(r > sa) || r.partial_cmp(&sa) != Some(Ordering::Greater) || sa.partial_cmp(&r) != Some(Ordering::Less) {
            return Some(("add-not-greater", format!("Serial({a}).add({n}) is not strictly greater than Serial({a})")));
        }
    } else if r != sa {
        return Some(("add-zero", format!("Serial({a}).add(0) != Serial({a})")));
    }
    None
}

fn check_wire(a: u32) -> Option<(&'static str, String)> {
    let s = Serial::from(a);
    // to_be yields the integer whose in-memory bytes are the big-endian form
    if s.to_be().to_ne_bytes() != a.to_be_bytes() {
        return Some(("to_be", format!("Serial({a}).to_be() bytes {:?} != {:?}", s.to_be().to_ne_bytes(), a.to_be_bytes())));
    }
    let back = Serial::from_be(u32::from_ne_bytes(a.to_be_bytes()));
    if back != s || u32::from(back) != a {
        return Some(("from_be", format!("from_be(be bytes of {a}) = {}", u32::from(back))));
    }
    if Serial::from_be(s.to_be()) != s {
        return Some(("wire-roundtrip", format!("from_be(to_be({a})) != {a}")));
    }
    if hash_of(back) != hash_of(s) {
        return Some(("hash", format!("equal serials hash differently ({a})")));
    }
    None
}

fn report(ctx: &mut Ctx, what: &str, msg: String, a: u32, x: u32) {
    ctx.violation(&format!("C16:{}", what), &msg, json!({"base": a, "arg": x}));
}

pub fn run(ctx: &mut Ctx) {
    let mut evals: u64 = 0;
    let mut op_rows: u64 = 0;
    let mut op_rows_half: u64 = 0;
    let mut consumer_rows: u64 = 0;
    // ---- comparison table
    let full = ctx.tier == Tier::Thorough && ctx.stage == Stage::Native;
    let mut ds: Vec<(u32, u32)> = Vec::new(); // inclusive ranges of d for this shard
    if full {
        // every d in 0..2^32, split into nshards contiguous ranges
        let n = ctx.nshards.max(1);
        let per = (1u64 << 32) / n;
        let lo = per * ctx.shard;
        let hi = if ctx.shard == n - 1 { (1u64 << 32) - 1 } else { lo + per - 1 };
        ds.push((lo as u32, hi as u32));
        ctx.exhaustive = Some(true);
    } else {
        let w: u32 = match ctx.stage {
            Stage::Native => 1 << 16,
            Stage::Asan => 1 << 12,
            _ => 24,
        };
        if ctx.shard == 0 {
            ds.push((0, w));
            ds.push((0x8000_0000 - w, 0x8000_0000 + w));
            ds.push((u32::MAX - w, u32::MAX));
        }
    }
    let bases: &[u32] = if full { &BASES[..7] } else { &BASES };
    for &(lo, hi) in &ds {
        for &a in bases {
            let mut d = lo;
            loop {
                if let Some((what, msg)) = check_pair(a, d) {
                    report(ctx, what, msg, a, d);
                }
                check_ops(ctx, a, d);
                evals += 1;
                op_rows += 1;
                if d == 0x8000_0000 {
                    op_rows_half += 1;
                }
                if d == hi {
                    break;
                }
                d += 1;
            }
            ctx.sig(&format!("cmp base={a:#x} {}", region(lo)));
            ctx.sig(&format!("cmp base={a:#x} {}", region(hi)));
            if lo <= 0x8000_0000 && hi >= 0x8000_0000 {
                ctx.sig(&format!("cmp base={a:#x} d=2^31"));
                if lo < 0x8000_0000 {
                    ctx.sig(&format!("cmp base={a:#x} d<2^31"));
                }
            }
            if lo == 0 {
                ctx.sig(&format!("cmp base={a:#x} d=0"));
            }
        }
    }
    // ---- the same table through containers, references, text and hash, and
    // the whole operator set from bases that are not in the list: whatever
    // `Default`, `State::new` and `Arbitrary` hand out
    if ctx.shard == 0 {
        let w: u32 = if ctx.stage == Stage::Miri { 2 } else { 48 };
        let mut more: Vec<u32> = vec![u32::from(Serial::default()), u32::from(State::new().serial()), u32::from(State::default().serial())];
        ctx.obs("default_serial_is_zero", (more[0] == 0) as u64);
        {
            use arbitrary::{Arbitrary, Unstructured};
            let mut rng = ctx.rng("arbitrary");
            let n = if ctx.stage == Stage::Miri { 4 } else { 64 };
            for i in 0..n {
                let bytes = match i {
                    0 => vec![],
                    1 => vec![0xFF; 3],
                    2 => vec![0xFF; 8],
                    3 => vec![0, 0, 0, 0x80, 0, 0],
                    _ => rng.bytes(6),
                };
                if let Ok(v) = Serial::arbitrary(&mut Unstructured::new(&bytes)) {
                    more.push(u32::from(v));
                    ctx.obs("arbitrary_serials", 1);
                }
                if let Ok(st) = State::arbitrary(&mut Unstructured::new(&bytes)) {
                    more.push(u32::from(st.serial()));
                }
            }
        }
        for &a in &more {
            evals += check_value(ctx, a);
        }
        more.truncate(if ctx.stage == Stage::Miri { 3 } else { 12 });
        let bases: Vec<u32> = BASES.iter().copied().chain(more).collect();
        for &a in &bases {
            for centre in [0u32, 0x8000_0000] {
                let mut d = centre.wrapping_sub(w);
                for _ in 0..=2 * w {
                    check_ops(ctx, a, d);
                    check_pair_consumers(ctx, a, d);
                    if let Some((what, msg)) = check_pair(a, d) {
                        report(ctx, what, msg, a, d);
                    }
                    evals += CONSUMER_EVALS + 1;
                    op_rows += 1;
                    consumer_rows += 1;
                    if d == 0x8000_0000 {
                        op_rows_half += 1;
                    }
                    d = d.wrapping_add(1);
                }
            }
        }
        ctx.sig("consumers: option / slice / tuple / reference / text / hash around d=0");
        ctx.sig("consumers: option / slice / tuple / reference / text / hash around d=2^31");
        ctx.sig("bases from Default / State::new / Arbitrary");
    }
    // ---- the distinguished differences from many bases: the table depends on
    // the difference only, so 0, +-1 and 2^31, 2^31 +- 1 must read the same
    // wherever the pair sits
    {
        let mut rng = ctx.rng("distinguished");
        let n = ctx.stage_budget((400_000, 40_000_000), 100_000, 40, 0);
        for i in 0..n {
            let a = match i % 4 {
                0 => rng.next_u32(),
                1 => 0x8000_0000u32.wrapping_add(rng.next_u32() & 0x1FFFF).wrapping_sub(0x1_0000),
                2 => (rng.next_u32() & 0x1FFFF).wrapping_sub(0x1_0000),
                _ => rng.next_u32() & 0xFFFF_0000,
            };
            for d in [0x8000_0000u32, 0x7FFF_FFFF, 0x8000_0001, 0, 1, 0xFFFF_FFFF] {
                if let Some((what, msg)) = check_pair(a, d) {
                    report(ctx, what, msg, a, d);
                }
                check_ops(ctx, a, d);
            }
            evals += 6;
            op_rows += 6;
            op_rows_half += 1;
        }
        ctx.sig("cmp many-bases d=2^31");
        ctx.sig("cmp many-bases d=2^31+-1");
        ctx.sig("cmp many-bases d=0,+-1");
    }
    // prime stride through the whole difference space (sampled, not exhaustive)
    if !full {
        let mut rng = ctx.rng("stride");
        let steps = ctx.stage_budget((4_000_000, 0), 200_000, 300, 0);
        let stride: u32 = 1_000_003;
        let mut d: u32 = rng.next_u32();
        for i in 0..steps {
            let a = if i % 3 == 0 { rng.next_u32() } else { BASES[(i % 8) as usize] };
            if let Some((what, msg)) = check_pair(a, d) {
                report(ctx, what, msg, a, d);
            }
            check_ops(ctx, a, d);
            op_rows += 1;
            if i < 2048 && ctx.stage != Stage::Miri {
                check_pair_consumers(ctx, a, d);
                evals += CONSUMER_EVALS;
                consumer_rows += 1;
            }
            evals += 1;
            if i < 64 {
                ctx.sig(&format!("cmp random-base {}", region(d)));
            }
            d = d.wrapping_add(stride);
        }
    }
    // ---- add
    {
        let mut rng = ctx.rng("add");
        let mut ns: Vec<u32> = vec![0, 1, 2, 3, 0xFF, 0x100, 0xFFFF, 0x1_0000, 0x7FFF_FFFE, 0x7FFF_FFFF, 0x4000_0000, 0x3FFF_FFFF];
        for k in 0..31 {
            ns.push(1 << k);
            ns.push((1u32 << k).wrapping_sub(1));
        }
        ns.sort();
        ns.dedup();
        for &a in &BASES {
            for &n in &ns {
                if let Some((what, msg)) = check_add(a, n) {
                    report(ctx, what, msg, a, n);
                }
                evals += 1;
            }
            ctx.sig(&format!("add base={a:#x} boundary-n"));
        }
        let random = ctx.stage_budget((2_000_000, 160_000_000), 200_000, 300, 0);
        for i in 0..random {
            let a = match i % 4 {
                0 => rng.next_u32(),
                1 => u32::MAX - (rng.next_u32() & 0xFFFF),
                2 => 0x8000_0000u32.wrapping_add(rng.next_u32() & 0xFFFF).wrapping_sub(0x8000),
                _ => BASES[(i % 8) as usize],
            };
            let n = match i % 3 {
                0 => rng.next_u32() & 0x7FFF_FFFF,
                1 => 0x7FFF_FFFF - (rng.next_u32() & 0xFFF),
                _ => rng.next_u32() & 0xFFFF,
            };
            if let Some((what, msg)) = check_add(a, n) {
                report(ctx, what, msg, a, n);
            }
            evals += 1;
            if i < 256 {
                let wraps = a.checked_add(n).is_none();
                ctx.sig(&format!("add random wraps={wraps} n-class={}", if n < 0x1_0000 { "small" } else if n > 0x7FFF_0000 { "near-max" } else { "mid" }));
            }
        }
    }
    // ---- wire conversion
    {
        let mut rng = ctx.rng("wire");
        let mut vals: Vec<u32> = BASES.to_vec();
        vals.extend_from_slice(&[0x0000_00FF, 0x0000_FF00, 0x00FF_0000, 0xFF00_0000, 0x0102_0304, 0x8040_2010]);
        let random = ctx.stage_budget((1_000_000, 50_000_000), 100_000, 200, 0);
        for _ in 0..random {
            vals.push(rng.next_u32());
            if vals.len() >= 4096 {
                for &a in &vals {
                    if let Some((what, msg)) = check_wire(a) {
                        report(ctx, what, msg, a, 0);
                    }
                    evals += 1;
                }
                vals.clear();
            }
        }
        for &a in &vals {
            if let Some((what, msg)) = check_wire(a) {
                report(ctx, what, msg, a, 0);
            }
            evals += 1;
        }
        ctx.sig("wire boundary");
        ctx.sig("wire random");
    }
    // ---- the same conversion where the library puts serials on the wire:
    // every PDU type that carries a serial must hold it big-endian at octets
    // 8..12 and its accessor must give the serial back.
    {
        use rpki::rtr::payload::Timing;
        use rpki::rtr::pdu::{EndOfData, EndOfDataV0, EndOfDataV1, SerialNotify, SerialQuery, SerialQueryPayload};
        use rpki::rtr::state::State;
        let mut rng = ctx.rng("pdu-wire");
        let mut vals: Vec<u32> = BASES.to_vec();
        vals.extend_from_slice(&[0x0000_00FF, 0xFF00_0000, 0x0102_0304, 0x8040_2010, 0x0100_0001]);
        let random = ctx.stage_budget((200_000, 5_000_000), 50_000, 60, 0);
        for _ in 0..random {
            vals.push(rng.next_u32());
        }
        let timing = Timing { refresh: 3600, retry: 600, expire: 7200 };
        for (i, &a) in vals.iter().enumerate() {
            let session = (i as u16).wrapping_mul(257);
            let state = State::from_parts(session, Serial::from(a));
            let want = a.to_be_bytes();
            let version = (i % 3) as u8;
            let mut bad: Option<&'static str> = None;
            let n = SerialNotify::new(version, state);
            if n.as_ref()[8..12] != want {
                bad = Some("serial-notify-bytes");
            }
            let q = SerialQuery::new(version, state);
            if q.as_ref()[8..12] != want {
                bad = Some("serial-query-bytes");
            }
            let qp = SerialQueryPayload::new(Serial::from(a));
            if qp.serial() != Serial::from(a) || qp.as_ref()[..] != want {
                bad = Some("serial-query-payload");
            }
            let e0 = EndOfDataV0::new(state);
            if e0.as_ref()[8..12] != want || e0.serial() != Serial::from(a) {
                bad = Some("end-of-data-v0");
            }
            let e1 = EndOfDataV1::new(version.max(1), state, timing);
            if e1.as_ref()[8..12] != want || e1.serial() != Serial::from(a) {
                bad = Some("end-of-data-v1");
            }
            let e = EndOfData::new(version, state, timing);
            if e.state().serial() != Serial::from(a) || e.state().session() != session {
                bad = Some("end-of-data-state");
            }
            evals += 6;
            if let Some(what) = bad {
                report(ctx, &format!("pdu-wire:{}", what), format!("serial {a:#x} is not carried big-endian / not read back by {what} (version {version})"), a, version as u32);
            }
        }
        // State::inc is the way a cache advances its serial: +1 across the wrap
        for (i, &a) in vals.iter().enumerate() {
            let mut st = State::from_parts(i as u16, Serial::from(a));
            st.inc();
            evals += 1;
            let want = a.wrapping_add(1);
            if u32::from(st.serial()) != want || st.session() != i as u16 || !(st.serial() > Serial::from(a)) {
                report(ctx, "state-inc", format!("State::inc of serial {a:#x} gave {:#x}, expected {want:#x} (strictly greater, wrapping)", u32::from(st.serial())), a, 1);
            }
        }
        // the same PDUs through partial I/O: a reader that hands out one octet
        // at a time (with Pending in between) and a writer that accepts only a
        // few octets per call must not change the serial that crosses the wire
        {
            use crate::c07_io::{drive, Chunking, TruncatingReader};
            let sample: Vec<u32> = vals.iter().copied().take(24).chain(vals.iter().copied().skip(24).step_by(997)).collect();
            for (i, &a) in sample.iter().enumerate() {
                let state = State::from_parts(i as u16, Serial::from(a));
                let chunkings = [Chunking::ByteWise, Chunking::Script(vec![1, 0, 2, 1, 3])];
                for ch in chunkings.iter() {
                    let mut bad: Option<&'static str> = None;
                    let bytes = a.to_be_bytes();
                    let mut rd = TruncatingReader::new(&bytes, 4, ch.clone());
                    match drive(SerialQueryPayload::read(&mut rd), 200).0 {
                        Some(Ok(p)) if p.serial() == Serial::from(a) => {}
                        _ => bad = Some("serial-query-payload-read-chunked"),
                    }
                    let full = SerialNotify::new(1, state);
                    let fb = full.as_ref().to_vec();
                    let mut rd = TruncatingReader::new(&fb, fb.len(), ch.clone());
                    match drive(SerialNotify::read(&mut rd), 400).0 {
                        Some(Ok(p)) if p.as_ref() == fb.as_slice() => {}
                        _ => bad = Some("serial-notify-read-chunked"),
                    }
                    let full = SerialQuery::new(2, state);
                    let fb = full.as_ref().to_vec();
                    let mut rd = TruncatingReader::new(&fb, fb.len(), ch.clone());
                    match drive(SerialQuery::read(&mut rd), 400).0 {
                        Some(Ok(p)) if p.as_ref() == fb.as_slice() => {}
                        _ => bad = Some("serial-query-read-chunked"),
                    }
                    evals += 3;
                    if let Some(what) = bad {
                        report(ctx, &format!("pdu-wire:{}", what), format!("serial {a:#x} does not survive a read delivered in pieces ({})", ch.label()), a, 0);
                    }
                }
                for k in [1usize, 3, 5, 11] {
                    let mut bad: Option<&'static str> = None;
                    for version in 0..3u8 {
                        let e = EndOfData::new(version, state, timing);
                        let mut w = ShortWriter { out: Vec::new(), max: k, pend: false };
                        let done = drive(e.write(&mut w), 400).0;
                        let want_len = if version == 0 { 12 } else { 24 };
                        if !matches!(done, Some(Ok(()))) || w.out.len() != want_len || w.out[8..12] != a.to_be_bytes() {
                            bad = Some("end-of-data-write-short-writes");
                        }
                    }
                    let n = SerialNotify::new(1, state);
                    let mut w = ShortWriter { out: Vec::new(), max: k, pend: false };
                    if !matches!(drive(n.write(&mut w), 400).0, Some(Ok(()))) || w.out != n.as_ref() {
                        bad = Some("serial-notify-write-short-writes");
                    }
                    evals += 4;
                    if let Some(what) = bad {
                        report(ctx, &format!("pdu-wire:{}", what), format!("serial {a:#x} is not written completely to a sink that accepts {k} octets per call"), a, k as u32);
                    }
                }
            }
            ctx.sig("pdu wire: reads delivered in pieces");
            ctx.sig("pdu wire: writes into a sink with short writes");
        }
        ctx.sig("state inc: boundary and random serials incl. 0xFFFFFFFF");
        ctx.sig("pdu wire: serial notify / serial query / end of data v0,v1,v2 boundary");
        ctx.sig("pdu wire: random serials");
    }
    // ---- every way of making a serial from an integer and back
    {
        let mut rng = ctx.rng("conversion");
        let mut vals: Vec<u32> = BASES.to_vec();
        vals.extend_from_slice(&[2, 0xFF, 0x100, 0xFFFF, 0x1_0000, 0x00FF_FFFF, 0x0100_0000, 0x7FFF_FFFE, 0x8000_0002, 0x0102_0304, 0x8040_2010, 0xFF00_00FF, 3_000_000_012]);
        for _ in 0..ctx.stage_budget((20_000, 2_000_000), 4_000, 6, 0) {
            vals.push(rng.next_u32());
        }
        if ctx.stage == Stage::Miri {
            vals.truncate(12);
        }
        for &a in &vals {
            evals += check_value(ctx, a);
        }
        ctx.obs("conversion_values", vals.len() as u64);
        ctx.sig("conversion: From / Into / literal / clone / from_be / State / add / text, boundary values");
        ctx.sig("conversion: random values");
        // State::inc several times in a row, across the wrap: every step is
        // strictly greater than all earlier ones
        for &a in vals.iter().take(64) {
            let mut st = State::from_parts(0x0F0F, Serial::from(a));
            let mut seen: Vec<Serial> = vec![st.serial()];
            for k in 1..=5u32 {
                st.inc();
                let now = st.serial();
                evals += 1;
                let want = a.wrapping_add(k);
                if u32::from(now) != want || st.session() != 0x0F0F {
                    report(ctx, "state-inc", format!("State::inc applied {k} times to serial {a:#x} gave {:#x}, expected {want:#x}", u32::from(now)), a, k);
                } else if seen.iter().any(|old| !(now > *old) || !(*old < now) || now == *old || now <= *old) {
                    report(ctx, "state-inc-not-greater", format!("serial {want:#x} reached by {k} increments from {a:#x} is not strictly greater than every earlier one"), a, k);
                }
                seen.push(now);
            }
        }
        ctx.sig("state inc: five steps in a row incl. across 0xFFFFFFFF and 0x7FFFFFFF");
    }
    ctx.obs("operator_rows", op_rows);
    ctx.obs("operator_rows_at_distance_2^31", op_rows_half);
    ctx.obs("operator_results_compared", op_rows * OP_NAMES.len() as u64);
    ctx.obs("consumer_rows", consumer_rows);
    // ---- serial numbers on a transport that delivers in pieces
    evals += wire::run(ctx);
    // ---- the source advances while a connection is open (RFC 1982 inside the server)
    evals += adv::run(ctx);
    // ---- every door of the PDU API; the idle client and pairs with one difference
    evals += api::run(ctx);
    ctx.evals(evals);
    ctx.sample("comparison", || json!({"a": 0xFFFF_FFFEu32, "d": 3, "b": 1, "expected": "Less", "observed": format!("{:?}", Serial::from(0xFFFF_FFFE).partial_cmp(&Serial::from(1)))}));
    ctx.sample("undefined", || json!({"a": 1, "d": 0x8000_0000u32, "expected": "None", "observed": format!("{:?}", Serial::from(1).partial_cmp(&Serial::from(0x8000_0001)))}));
    ctx.sample("add", || json!({"a": u32::MAX, "n": 0x7FFF_FFFF, "observed": u32::from(Serial::from(u32::MAX).add(0x7FFF_FFFF))}));
}


/// An `AsyncWrite` that accepts at most `max` octets per call and returns
/// `Pending` before every second call.
struct ShortWriter {
    out: Vec<u8>,
    max: usize,
    pend: bool,
}

impl tokio::io::AsyncWrite for ShortWriter {
    fn poll_write(mut self: std::pin::Pin<&mut Self>, cx: &mut std::task::Context<'_>, buf: &[u8]) -> std::task::Poll<std::io::Result<usize>> {
        self.pend = !self.pend;
        if self.pend {
            cx.waker().wake_by_ref();
            return std::task::Poll::Pending;
        }
        let n = buf.len().min(self.max);
        self.out.extend_from_slice(&buf[..n]);
        std::task::Poll::Ready(Ok(n))
    }
    fn poll_flush(self: std::pin::Pin<&mut Self>, _: &mut std::task::Context<'_>) -> std::task::Poll<std::io::Result<()>> {
        std::task::Poll::Ready(Ok(()))
    }
    fn poll_shutdown(self: std::pin::Pin<&mut Self>, _: &mut std::task::Context<'_>) -> std::task::Poll<std::io::Result<()>> {
        std::task::Poll::Ready(Ok(()))
    }
}
