//! C16 — RTR serial numbers compare and advance per RFC 1982.
//!
//! Oracle: the table in the property statement, as a function of the
//! difference d = (b - a) mod 2^32 only.

use crate::core::{Ctx, Stage, Tier};
use rpki::rtr::state::Serial;
use serde_json::json;
use std::cmp::Ordering;
use std::collections::hash_map::DefaultHasher;
use std::hash::{Hash, Hasher};

const BASES: [u32; 8] = [
    0,
    1,
    0x7FFF_FFFF,
    0x8000_0000,
    0x8000_0001,
    0xFFFF_FFFE,
    0xFFFF_FFFF,
    0x1234_5678,
];

fn expected(d: u32) -> Option<Ordering> {
    if d == 0 {
        Some(Ordering::Equal)
    } else if d < 0x8000_0000 {
        Some(Ordering::Less)
    } else if d == 0x8000_0000 {
        None
    } else {
        Some(Ordering::Greater)
    }
}

fn region(d: u32) -> &'static str {
    if d == 0 {
        "d=0"
    } else if d < 0x8000_0000 {
        "d<2^31"
    } else if d == 0x8000_0000 {
        "d=2^31"
    } else {
        "d>2^31"
    }
}

fn hash_of(s: Serial) -> u64 {
    let mut h = DefaultHasher::new();
    s.hash(&mut h);
    h.finish()
}

/// Checks one (a, d). Returns a description of the first disagreement.
#[inline]
fn check_pair(a: u32, d: u32) -> Option<(&'static str, String)> {
    let b = a.wrapping_add(d);
    let sa = Serial::from(a);
    let sb = Serial::from(b);
    let exp = expected(d);
    let got = sa.partial_cmp(&sb);
    if got != exp {
        return Some(("partial_cmp", format!("partial_cmp({a},{b}) = {got:?}, expected {exp:?} (d={d})")));
    }
    // antisymmetry / the reverse direction depends on -d
    let rexp = exp.map(Ordering::reverse);
    let rgot = sb.partial_cmp(&sa);
    if rgot != rexp {
        return Some(("antisymmetry", format!("partial_cmp({b},{a}) = {rgot:?}, expected {rexp:?} (d={d})")));
    }
    let eq = sa == sb;
    if eq != (d == 0) {
        return Some(("eq", format!("({a} == {b}) = {eq}, d={d}")));
    }
    // operators are derived from partial_cmp; make sure they agree anyway
    if (sa < sb) != (exp == Some(Ordering::Less)) || (sa > sb) != (exp == Some(Ordering::Greater)) {
        return Some(("operators", format!("< / > disagree with the table for ({a},{b})")));
    }
    None
}

fn check_add(a: u32, n: u32) -> Option<(&'static str, String)> {
    let sa = Serial::from(a);
    let r = sa.add(n);
    let want = a.wrapping_add(n);
    if u32::from(r) != want {
        return Some(("add-value", format!("Serial({a}).add({n}) = {}, expected {want}", u32::from(r))));
    }
    if n >= 1 {
        if !(r > sa) || r.partial_cmp(&sa) != Some(Ordering::Greater) || sa.partial_cmp(&r) != Some(Ordering::Less) {
            return Some(("add-not-greater", format!("Serial({a}).add({n}) is not strictly greater than Serial({a})")));
        }
    } else if r != sa {
        return Some(("add-zero", format!("Serial({a}).add(0) != Serial({a})")));
    }
    None
}

fn check_wire(a: u32) -> Option<(&'static str, String)> {
    let s = Serial::from(a);
    // to_be yields the integer whose in-memory bytes are the big-endian form
    if s.to_be().to_ne_bytes() != a.to_be_bytes() {
        return Some(("to_be", format!("Serial({a}).to_be() bytes {:?} != {:?}", s.to_be().to_ne_bytes(), a.to_be_bytes())));
    }
    let back = Serial::from_be(u32::from_ne_bytes(a.to_be_bytes()));
    if back != s || u32::from(back) != a {
        return Some(("from_be", format!("from_be(be bytes of {a}) = {}", u32::from(back))));
    }
    if Serial::from_be(s.to_be()) != s {
        return Some(("wire-roundtrip", format!("from_be(to_be({a})) != {a}")));
    }
    if hash_of(back) != hash_of(s) {
        return Some(("hash", format!("equal serials hash differently ({a})")));
    }
    None
}

fn report(ctx: &mut Ctx, what: &str, msg: String, a: u32, x: u32) {
    ctx.violation(&format!("C16:{}", what), &msg, json!({"base": a, "arg": x}));
}

pub fn run(ctx: &mut Ctx) {
    let mut evals: u64 = 0;
    // ---- comparison table
    let full = ctx.tier == Tier::Thorough && ctx.stage == Stage::Native;
    let mut ds: Vec<(u32, u32)> = Vec::new(); // inclusive ranges of d for this shard
    if full {
        // every d in 0..2^32, split into nshards contiguous ranges
        let n = ctx.nshards.max(1);
        let per = (1u64 << 32) / n;
        let lo = per * ctx.shard;
        let hi = if ctx.shard == n - 1 { (1u64 << 32) - 1 } else { lo + per - 1 };
        ds.push((lo as u32, hi as u32));
        ctx.exhaustive = Some(true);
    } else {
        let w: u32 = match ctx.stage {
            Stage::Native => 1 << 16,
            Stage::Asan => 1 << 12,
            _ => 24,
        };
        if ctx.shard == 0 {
            ds.push((0, w));
            ds.push((0x8000_0000 - w, 0x8000_0000 + w));
            ds.push((u32::MAX - w, u32::MAX));
        }
    }
    let bases: &[u32] = if full { &BASES[..7] } else { &BASES };
    for &(lo, hi) in &ds {
        for &a in bases {
            let mut d = lo;
            loop {
                if let Some((what, msg)) = check_pair(a, d) {
                    report(ctx, what, msg, a, d);
                }
                evals += 1;
                if d == hi {
                    break;
                }
                d += 1;
            }
            ctx.sig(&format!("cmp base={a:#x} {}", region(lo)));
            ctx.sig(&format!("cmp base={a:#x} {}", region(hi)));
            if lo <= 0x8000_0000 && hi >= 0x8000_0000 {
                ctx.sig(&format!("cmp base={a:#x} d=2^31"));
                if lo < 0x8000_0000 {
                    ctx.sig(&format!("cmp base={a:#x} d<2^31"));
                }
            }
            if lo == 0 {
                ctx.sig(&format!("cmp base={a:#x} d=0"));
            }
        }
    }
    // prime stride through the whole difference space (sampled, not exhaustive)
    if !full {
        let mut rng = ctx.rng("stride");
        let steps = ctx.stage_budget((4_000_000, 0), 200_000, 300, 0);
        let stride: u32 = 1_000_003;
        let mut d: u32 = rng.next_u32();
        for i in 0..steps {
            let a = if i % 3 == 0 { rng.next_u32() } else { BASES[(i % 8) as usize] };
            if let Some((what, msg)) = check_pair(a, d) {
                report(ctx, what, msg, a, d);
            }
            evals += 1;
            if i < 64 {
                ctx.sig(&format!("cmp random-base {}", region(d)));
            }
            d = d.wrapping_add(stride);
        }
    }
    // ---- add
    {
        let mut rng = ctx.rng("add");
        let mut ns: Vec<u32> = vec![0, 1, 2, 3, 0xFF, 0x100, 0xFFFF, 0x1_0000, 0x7FFF_FFFE, 0x7FFF_FFFF, 0x4000_0000, 0x3FFF_FFFF];
        for k in 0..31 {
            ns.push(1 << k);
            ns.push((1u32 << k).wrapping_sub(1));
        }
        ns.sort();
        ns.dedup();
        for &a in &BASES {
            for &n in &ns {
                if let Some((what, msg)) = check_add(a, n) {
                    report(ctx, what, msg, a, n);
                }
                evals += 1;
            }
            ctx.sig(&format!("add base={a:#x} boundary-n"));
        }
        let random = ctx.stage_budget((2_000_000, 160_000_000), 200_000, 300, 0);
        for i in 0..random {
            let a = match i % 4 {
                0 => rng.next_u32(),
                1 => u32::MAX - (rng.next_u32() & 0xFFFF),
                2 => 0x8000_0000u32.wrapping_add(rng.next_u32() & 0xFFFF).wrapping_sub(0x8000),
                _ => BASES[(i % 8) as usize],
            };
            let n = match i % 3 {
                0 => rng.next_u32() & 0x7FFF_FFFF,
                1 => 0x7FFF_FFFF - (rng.next_u32() & 0xFFF),
                _ => rng.next_u32() & 0xFFFF,
            };
            if let Some((what, msg)) = check_add(a, n) {
                report(ctx, what, msg, a, n);
            }
            evals += 1;
            if i < 256 {
                let wraps = a.checked_add(n).is_none();
                ctx.sig(&format!("add random wraps={wraps} n-class={}", if n < 0x1_0000 { "small" } else if n > 0x7FFF_0000 { "near-max" } else { "mid" }));
            }
        }
    }
    // ---- wire conversion
    {
        let mut rng = ctx.rng("wire");
        let mut vals: Vec<u32> = BASES.to_vec();
        vals.extend_from_slice(&[0x0000_00FF, 0x0000_FF00, 0x00FF_0000, 0xFF00_0000, 0x0102_0304, 0x8040_2010]);
        let random = ctx.stage_budget((1_000_000, 50_000_000), 100_000, 200, 0);
        for _ in 0..random {
            vals.push(rng.next_u32());
            if vals.len() >= 4096 {
                for &a in &vals {
                    if let Some((what, msg)) = check_wire(a) {
                        report(ctx, what, msg, a, 0);
                    }
                    evals += 1;
                }
                vals.clear();
            }
        }
        for &a in &vals {
            if let Some((what, msg)) = check_wire(a) {
                report(ctx, what, msg, a, 0);
            }
            evals += 1;
        }
        ctx.sig("wire boundary");
        ctx.sig("wire random");
    }
    // ---- the same conversion where the library puts serials on the wire:
    // every PDU type that carries a serial must hold it big-endian at octets
    // 8..12 and its accessor must give the serial back.
    {
        use rpki::rtr::payload::Timing;
        use rpki::rtr::pdu::{EndOfData, EndOfDataV0, EndOfDataV1, SerialNotify, SerialQuery, SerialQueryPayload};
        use rpki::rtr::state::State;
        let mut rng = ctx.rng("pdu-wire");
        let mut vals: Vec<u32> = BASES.to_vec();
        vals.extend_from_slice(&[0x0000_00FF, 0xFF00_0000, 0x0102_0304, 0x8040_2010, 0x0100_0001]);
        let random = ctx.stage_budget((200_000, 5_000_000), 50_000, 60, 0);
        for _ in 0..random {
            vals.push(rng.next_u32());
        }
        let timing = Timing { refresh: 3600, retry: 600, expire: 7200 };
        for (i, &a) in vals.iter().enumerate() {
            let session = (i as u16).wrapping_mul(257);
            let state = State::from_parts(session, Serial::from(a));
            let want = a.to_be_bytes();
            let version = (i % 3) as u8;
            let mut bad: Option<&'static str> = None;
            let n = SerialNotify::new(version, state);
            if n.as_ref()[8..12] != want {
                bad = Some("serial-notify-bytes");
            }
            let q = SerialQuery::new(version, state);
            if q.as_ref()[8..12] != want {
                bad = Some("serial-query-bytes");
            }
            let qp = SerialQueryPayload::new(Serial::from(a));
            if qp.serial() != Serial::from(a) || qp.as_ref()[..] != want {
                bad = Some("serial-query-payload");
            }
            let e0 = EndOfDataV0::new(state);
            if e0.as_ref()[8..12] != want || e0.serial() != Serial::from(a) {
                bad = Some("end-of-data-v0");
            }
            let e1 = EndOfDataV1::new(version.max(1), state, timing);
            if e1.as_ref()[8..12] != want || e1.serial() != Serial::from(a) {
                bad = Some("end-of-data-v1");
            }
            let e = EndOfData::new(version, state, timing);
            if e.state().serial() != Serial::from(a) || e.state().session() != session {
                bad = Some("end-of-data-state");
            }
            evals += 6;
            if let Some(what) = bad {
                report(ctx, &format!("pdu-wire:{}", what), format!("serial {a:#x} is not carried big-endian / not read back by {what} (version {version})"), a, version as u32);
            }
        }
        // State::inc is the way a cache advances its serial: +1 across the wrap
        for (i, &a) in vals.iter().enumerate() {
            let mut st = State::from_parts(i as u16, Serial::from(a));
            st.inc();
            evals += 1;
            let want = a.wrapping_add(1);
            if u32::from(st.serial()) != want || st.session() != i as u16 || !(st.serial() > Serial::from(a)) {
                report(ctx, "state-inc", format!("State::inc of serial {a:#x} gave {:#x}, expected {want:#x} (strictly greater, wrapping)", u32::from(st.serial())), a, 1);
            }
        }
        // the same PDUs through partial I/O: a reader that hands out one octet
        // at a time (with Pending in between) and a writer that accepts only a
        // few octets per call must not change the serial that crosses the wire
        {
            use crate::c07_io::{drive, Chunking, TruncatingReader};
            let sample: Vec<u32> = vals.iter().copied().take(24).chain(vals.iter().copied().skip(24).step_by(997)).collect();
            for (i, &a) in sample.iter().enumerate() {
                let state = State::from_parts(i as u16, Serial::from(a));
                let chunkings = [Chunking::ByteWise, Chunking::Script(vec![1, 0, 2, 1, 3])];
                for ch in chunkings.iter() {
                    let mut bad: Option<&'static str> = None;
                    let bytes = a.to_be_bytes();
                    let mut rd = TruncatingReader::new(&bytes, 4, ch.clone());
                    match drive(SerialQueryPayload::read(&mut rd), 200).0 {
                        Some(Ok(p)) if p.serial() == Serial::from(a) => {}
                        _ => bad = Some("serial-query-payload-read-chunked"),
                    }
                    let full = SerialNotify::new(1, state);
                    let fb = full.as_ref().to_vec();
                    let mut rd = TruncatingReader::new(&fb, fb.len(), ch.clone());
                    match drive(SerialNotify::read(&mut rd), 400).0 {
                        Some(Ok(p)) if p.as_ref() == fb.as_slice() => {}
                        _ => bad = Some("serial-notify-read-chunked"),
                    }
                    let full = SerialQuery::new(2, state);
                    let fb = full.as_ref().to_vec();
                    let mut rd = TruncatingReader::new(&fb, fb.len(), ch.clone());
                    match drive(SerialQuery::read(&mut rd), 400).0 {
                        Some(Ok(p)) if p.as_ref() == fb.as_slice() => {}
                        _ => bad = Some("serial-query-read-chunked"),
                    }
                    evals += 3;
                    if let Some(what) = bad {
                        report(ctx, &format!("pdu-wire:{}", what), format!("serial {a:#x} does not survive a read delivered in pieces ({})", ch.label()), a, 0);
                    }
                }
                for k in [1usize, 3, 5, 11] {
                    let mut bad: Option<&'static str> = None;
                    for version in 0..3u8 {
                        let e = EndOfData::new(version, state, timing);
                        let mut w = ShortWriter { out: Vec::new(), max: k, pend: false };
                        let done = drive(e.write(&mut w), 400).0;
                        let want_len = if version == 0 { 12 } else { 24 };
                        if !matches!(done, Some(Ok(()))) || w.out.len() != want_len || w.out[8..12] != a.to_be_bytes() {
                            bad = Some("end-of-data-write-short-writes");
                        }
                    }
                    let n = SerialNotify::new(1, state);
                    let mut w = ShortWriter { out: Vec::new(), max: k, pend: false };
                    if !matches!(drive(n.write(&mut w), 400).0, Some(Ok(()))) || w.out != n.as_ref() {
                        bad = Some("serial-notify-write-short-writes");
                    }
                    evals += 4;
                    if let Some(what) = bad {
                        report(ctx, &format!("pdu-wire:{}", what), format!("serial {a:#x} is not written completely to a sink that accepts {k} octets per call"), a, k as u32);
                    }
                }
            }
            ctx.sig("pdu wire: reads delivered in pieces");
            ctx.sig("pdu wire: writes into a sink with short writes");
        }
        ctx.sig("state inc: boundary and random serials incl. 0xFFFFFFFF");
        ctx.sig("pdu wire: serial notify / serial query / end of data v0,v1,v2 boundary");
        ctx.sig("pdu wire: random serials");
    }
    ctx.evals(evals);
    ctx.sample("comparison", || json!({"a": 0xFFFF_FFFEu32, "d": 3, "b": 1, "expected": "Less", "observed": format!("{:?}", Serial::from(0xFFFF_FFFE).partial_cmp(&Serial::from(1)))}));
    ctx.sample("undefined", || json!({"a": 1, "d": 0x8000_0000u32, "expected": "None", "observed": format!("{:?}", Serial::from(1).partial_cmp(&Serial::from(0x8000_0001)))}));
    ctx.sample("add", || json!({"a": u32::MAX, "n": 0x7FFF_FFFF, "observed": u32::from(Serial::from(u32::MAX).add(0x7FFF_FFFF))}));
}


/// An `AsyncWrite` that accepts at most `max` octets per call and returns
/// `Pending` before every second call.
struct ShortWriter {
    out: Vec<u8>,
    max: usize,
    pend: bool,
}

impl tokio::io::AsyncWrite for ShortWriter {
    fn poll_write(mut self: std::pin::Pin<&mut Self>, cx: &mut std::task::Context<'_>, buf: &[u8]) -> std::task::Poll<std::io::Result<usize>> {
        self.pend = !self.pend;
        if self.pend {
            cx.waker().wake_by_ref();
            return std::task::Poll::Pending;
        }
        let n = buf.len().min(self.max);
        self.out.extend_from_slice(&buf[..n]);
        std::task::Poll::Ready(Ok(n))
    }
    fn poll_flush(self: std::pin::Pin<&mut Self>, _: &mut std::task::Context<'_>) -> std::task::Poll<std::io::Result<()>> {
        std::task::Poll::Ready(Ok(()))
    }
    fn poll_shutdown(self: std::pin::Pin<&mut Self>, _: &mut std::task::Context<'_>) -> std::task::Poll<std::io::Result<()>> {
        std::task::Poll::Ready(Ok(()))
    }
}
