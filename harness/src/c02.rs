//! C02 — RPKI signed objects are accepted iff digest, signature, sid, EE
//! certificate and resource coverage all hold and the CRL callback agrees.
//!
//! Objects are assembled by the independent CMS assembler (`c02_cms`); the
//! embedded EE certificate is issued with the library's `TbsCert` under the
//! PoolSigner (certificate validation itself is C01's subject). The oracle is
//! the conjunction in the property statement, evaluated from the parameters
//! the harness chose — it knows which single thing it broke. Contents and
//! signer identifiers in shapes no builder produces are covered by
//! `run_econtent_shapes` / `run_sid_shapes`; every accepted ROA / ASPA /
//! manifest is compared with what an independent reader finds in its content.

use crate::c02_cms::{self as cms, Ber, Pfx, RoaFamily, SignedData};
use crate::core::{hex, Ctx, Rng, Stage, Tier};
use crate::der;
use crate::keys::{sha256, PoolSigner};
use crate::model::IntervalSet;
use rpki::repository::cert::{Cert, KeyUsage, Overclaim, ResourceCert, TbsCert};
use rpki::repository::error::{ValidationError, VerificationError};
use rpki::repository::resources::{Addr, Asn};
use rpki::repository::sigobj::SignedObject;
use rpki::repository::tal::TalInfo;
use rpki::repository::x509::{Serial, Time, Validity};
use rpki::repository::{Aspa, Manifest, Roa};
use rpki::uri;
use serde_json::{json, Value};
use std::cell::Cell;
use std::collections::HashMap;
use std::rc::Rc;
use std::str::FromStr;

//------------ small helpers -------------------------------------------------

pub fn time(t: i64) -> Time {
    Time::new(chrono::DateTime::from_timestamp(t, 0).expect("timestamp in range"))
}

const PAD96: u128 = (1u128 << 96) - 1;

fn a4(a: u8, b: u8, c: u8, d: u8) -> u32 {
    u32::from_be_bytes([a, b, c, d])
}

/// IPv4 range in the library's 128-bit model.
fn v4r(lo: u32, hi: u32) -> (u128, u128) {
    ((lo as u128) << 96, ((hi as u128) << 96) | PAD96)
}

fn v6p(addr: u128, len: u8) -> (u128, u128) {
    let p = Pfx::v6(addr, len);
    (p.min(), p.max())
}

fn asr(lo: u32, hi: u32) -> (u128, u128) {
    (lo as u128, hi as u128)
}

const V6_DOC: u128 = 0x2001_0db8_0000_0000_0000_0000_0000_0000;

//------------ EE certificates -----------------------------------------------

#[derive(Clone, Debug, PartialEq)]
enum Res {
    Missing,
    Inherit,
    Blocks(Vec<(u128, u128)>),
}

#[derive(Clone, Debug)]
struct EeSpec {
    /// pool key of the EE certificate
    key: usize,
    /// pool key that signs the certificate (0 = the issuer)
    signer: usize,
    /// pool key whose identifier goes into the AKI (0 = the issuer)
    aki: usize,
    trim: bool,
    v4: Res,
    v6: Res,
    asn: Res,
    nb: i64,
    na: i64,
    /// 0 = the EE certificate profile of RFC 6487 as the library's builder is
    /// meant to be used; otherwise an index into `EE_PROFILES`: a certificate the
    /// CA signed that departs from the profile in one respect.
    profile: u8,
}

/// EE certificates the CA could sign that depart from the RFC 6487 profile.
/// Whether each is acceptable is not written down here: the statement says the
/// object is accepted only if "the EE certificate validates under the issuer
/// (C01)", so the harness asks `Cert::validate_ee_at` about the very same
/// certificate and demands that the object validator is not more lenient.
const EE_PROFILES: [&str; 11] = [
    "standard",
    "no-sia",
    "sia-rpki-notify-only",
    "sia-signed-object-and-ca-repository",
    "basic-constraints-ca-true",
    "basic-constraints-ca-false-present",
    "key-usage-ca",
    "no-crl-uri",
    "no-ca-issuer",
    "router-extended-key-usage",
    "no-aki",
];

const T_NB: i64 = 1_704_067_200; // 2024-01-01T00:00:00Z
const T_NA: i64 = 1_811_807_999; // 2027-05-31T23:59:59Z
const T_IN: i64 = 1_750_000_000; // 2025-06-15

struct World {
    pool: PoolSigner,
    ta: ResourceCert,
    ta_v4: IntervalSet,
    ta_v6: IntervalSet,
    ta_as: IntervalSet,
    /// wall clock (whole seconds) — only used to place the validity of EE
    /// certificates of ROA / ASPA objects, whose `process` reads the clock
    now: i64,
    cache: HashMap<String, Rc<Vec<u8>>>,
    serial: u64,
    uri: uri::Rsync,
    ee_built: u64,
}

fn apply_res_ip(tbs: &mut TbsCert, v4: bool, r: &Res) {
    match r {
        Res::Missing => {}
        Res::Inherit => {
            if v4 {
                tbs.set_v4_resources_inherit()
            } else {
                tbs.set_v6_resources_inherit()
            }
        }
        Res::Blocks(b) => {
            let f = |bb: &mut rpki::repository::resources::IpBlocksBuilder| {
                for (lo, hi) in b {
                    bb.push((Addr::from_bits(*lo), Addr::from_bits(*hi)));
                }
            };
            if v4 {
                tbs.build_v4_resource_blocks(f)
            } else {
                tbs.build_v6_resource_blocks(f)
            }
        }
    }
}

fn apply_res_as(tbs: &mut TbsCert, r: &Res) {
    match r {
        Res::Missing => {}
        Res::Inherit => tbs.set_as_resources_inherit(),
        Res::Blocks(b) => tbs.build_as_resource_blocks(|bb| {
            for (lo, hi) in b {
                if lo == hi {
                    bb.push(Asn::from_u32(*lo as u32));
                } else {
                    bb.push((Asn::from_u32(*lo as u32), Asn::from_u32(*hi as u32)));
                }
            }
        }),
    }
}

impl World {
    fn new() -> World {
        let pool = PoolSigner::new(6);
        let now = Time::now().timestamp();
        let uri = uri::Rsync::from_str("rsync://verif.example/repo/obj").unwrap();
        let ta_v4 = vec![v4r(a4(10, 0, 0, 0), a4(10, 127, 255, 255)), v4r(a4(172, 16, 0, 0), a4(172, 31, 255, 255)), v4r(a4(192, 0, 2, 0), a4(192, 0, 2, 255))];
        let ta_v6 = vec![v6p(V6_DOC, 32), v6p(0x2a00u128 << 112, 12)];
        let ta_as = vec![asr(64496, 64511), asr(65536, 65551), asr(4_200_000_000, 4_200_000_000)];
        let key = pool.info(0);
        let mut tbs = TbsCert::new(
            Serial::from(1u64),
            key.to_subject_name(),
            Validity::new(time(1_577_836_800), time(2_366_841_600)), // 2020 .. 2045
            None,
            key,
            KeyUsage::Ca,
            Overclaim::Refuse,
        );
        tbs.set_basic_ca(Some(true));
        tbs.set_ca_repository(Some(uri.clone()));
        tbs.set_rpki_manifest(Some(uri.clone()));
        apply_res_ip(&mut tbs, true, &Res::Blocks(ta_v4.clone()));
        apply_res_ip(&mut tbs, false, &Res::Blocks(ta_v6.clone()));
        apply_res_as(&mut tbs, &Res::Blocks(ta_as.clone()));
        let der = tbs.into_cert(&pool, &0).expect("sign ta").to_captured().into_bytes();
        let ta = Cert::decode(der)
            .expect("ta decodes")
            .validate_ta_at(TalInfo::from_name("verif".into()).into_arc(), true, time(now))
            .expect("ta validates");
        World {
            pool,
            ta,
            ta_v4: IntervalSet::from_ranges(&ta_v4),
            ta_v6: IntervalSet::from_ranges(&ta_v6),
            ta_as: IntervalSet::from_ranges(&ta_as),
            now,
            cache: HashMap::new(),
            serial: 100,
            uri,
            ee_built: 0,
        }
    }

    /// DER of the EE certificate described by `spec` (library builder, cached).
    fn ee(&mut self, spec: &EeSpec) -> Rc<Vec<u8>> {
        let k = format!("{:?}", spec);
        if let Some(c) = self.cache.get(&k) {
            return c.clone();
        }
        self.serial += 1;
        let issuer_name = self.pool.info(spec.aki).to_subject_name();
        let mut tbs = TbsCert::new(
            Serial::from(self.serial),
            issuer_name,
            Validity::new(time(spec.nb), time(spec.na)),
            None,
            self.pool.info(spec.key),
            KeyUsage::Ee,
            if spec.trim { Overclaim::Trim } else { Overclaim::Refuse },
        );
        let prof = EE_PROFILES[spec.profile as usize % EE_PROFILES.len()];
        if prof != "no-aki" {
            tbs.set_authority_key_identifier(Some(self.pool.info(spec.aki).key_identifier()));
        }
        if prof != "no-crl-uri" {
            tbs.set_crl_uri(Some(self.uri.clone()));
        }
        if prof != "no-ca-issuer" {
            tbs.set_ca_issuer(Some(self.uri.clone()));
        }
        match prof {
            "no-sia" => {}
            "sia-rpki-notify-only" => tbs.set_rpki_notify(Some(uri::Https::from_str("https://verif.example/notify.xml").unwrap())),
            "sia-signed-object-and-ca-repository" => {
                tbs.set_signed_object(Some(self.uri.clone()));
                tbs.set_ca_repository(Some(self.uri.clone()));
            }
            _ => tbs.set_signed_object(Some(self.uri.clone())),
        }
        match prof {
            "basic-constraints-ca-true" => tbs.set_basic_ca(Some(true)),
            "basic-constraints-ca-false-present" => tbs.set_basic_ca(Some(false)),
            "key-usage-ca" => tbs.set_key_usage(KeyUsage::Ca),
            "router-extended-key-usage" => tbs.set_extended_key_usage(Some(rpki::repository::cert::ExtendedKeyUsage::create_router())),
            _ => {}
        }
        apply_res_ip(&mut tbs, true, &spec.v4);
        apply_res_ip(&mut tbs, false, &spec.v6);
        apply_res_as(&mut tbs, &spec.asn);
        let der = tbs.into_cert(&self.pool, &spec.signer).expect("sign ee").to_captured().into_bytes().to_vec();
        self.ee_built += 1;
        let rc = Rc::new(der);
        self.cache.insert(k, rc.clone());
        rc
    }

    fn validated_one(issuer: &IntervalSet, r: &Res, trim: bool) -> Option<IntervalSet> {
        match r {
            Res::Missing => Some(IntervalSet::empty()),
            Res::Inherit => Some(issuer.clone()),
            Res::Blocks(b) => {
                let claim = IntervalSet::from_ranges(b);
                if trim {
                    Some(claim.intersection(issuer))
                } else if claim.is_subset_of(issuer) {
                    Some(claim)
                } else {
                    None
                }
            }
        }
    }

    /// Model of C01's result for the EE: validated (v4, v6, as) or None when
    /// the certificate overclaims under the Refuse policy.
    fn validated(&self, s: &EeSpec) -> Option<(IntervalSet, IntervalSet, IntervalSet)> {
        Some((
            Self::validated_one(&self.ta_v4, &s.v4, s.trim)?,
            Self::validated_one(&self.ta_v6, &s.v6, s.trim)?,
            Self::validated_one(&self.ta_as, &s.asn, s.trim)?,
        ))
    }

    fn ee_violation(&self, s: &EeSpec, t: i64) -> Option<&'static str> {
        if s.signer != 0 && s.aki != 0 {
            Some("ee-wrong-issuer")
        } else if s.signer != 0 {
            Some("ee-signature-by-other-key")
        } else if s.aki != 0 {
            Some("ee-aki-other-key")
        } else if t < s.nb {
            Some("ee-not-yet-valid")
        } else if t > s.na {
            Some("ee-expired")
        } else if self.validated(s).is_none() {
            Some("ee-overclaim-refuse")
        } else {
            None
        }
    }
}

//------------ cases ---------------------------------------------------------

#[derive(Clone, Copy, Debug, PartialEq, Eq)]
enum Kind {
    Roa,
    Aspa,
    Manifest,
    Generic,
}

impl Kind {
    fn name(self) -> &'static str {
        match self {
            Kind::Roa => "roa",
            Kind::Aspa => "aspa",
            Kind::Manifest => "manifest",
            Kind::Generic => "generic",
        }
    }
}

#[derive(Clone, Copy, Debug, PartialEq, Eq)]
enum Tamper {
    None,
    // --- violations of a condition in the statement: rejection asserted
    DigestOfOtherContent,
    DigestBitFlip,
    DigestTruncated,
    SigOtherKey,
    SigCtx0,
    SigOverContent,
    SidIssuerSki,
    SidOtherKeySki,
    SidBitFlip,
    DupDigestWrongFirst,
    DupDigestWrongSecond,
    MissingDigest,
    // --- things the statement does not decide: outcome only recorded
    DupDigestSame,
    DupContentType,
    DupSigningTime,
    MissingContentType,
    MissingSigningTime,
    ExtraBinarySigningTime,
    ExtraUnknownAttr,
    CtAttrMismatch,
    DigestAlgWithNull,
    SigAlgSha256WithRsa,
    SigningTimeGeneralized,
}

const ASSERTED_TAMPERS: &[Tamper] = &[
    Tamper::DigestOfOtherContent,
    Tamper::DigestBitFlip,
    Tamper::DigestTruncated,
    Tamper::SigOtherKey,
    Tamper::SigCtx0,
    Tamper::SigOverContent,
    Tamper::SidIssuerSki,
    Tamper::SidOtherKeySki,
    Tamper::SidBitFlip,
    Tamper::DupDigestWrongFirst,
    Tamper::DupDigestWrongSecond,
    Tamper::MissingDigest,
];

const RECORDED_TAMPERS: &[Tamper] = &[
    Tamper::DupDigestSame,
    Tamper::DupContentType,
    Tamper::DupSigningTime,
    Tamper::MissingContentType,
    Tamper::MissingSigningTime,
    Tamper::ExtraBinarySigningTime,
    Tamper::ExtraUnknownAttr,
    Tamper::CtAttrMismatch,
    Tamper::DigestAlgWithNull,
    Tamper::SigAlgSha256WithRsa,
    Tamper::SigningTimeGeneralized,
];

#[derive(Clone, Copy, Debug, PartialEq, Eq)]
enum Eval {
    /// `validate_at(issuer, strict, t)` (generic objects and manifests)
    At(i64),
    /// `process(issuer, strict, callback)`; reads the wall clock inside the library
    Process { crl_ok: bool },
}

#[derive(Clone, Debug)]
struct Case {
    kind: Kind,
    ee: EeSpec,
    ct: Vec<u8>,
    content: Vec<u8>,
    /// coverage condition of the statement (true where it does not apply)
    cov_ok: bool,
    /// label of the coverage relation
    rel: String,
    /// emitted attribute order as a permutation of (content-type, message-digest, signing-time); None = DER order
    order: Option<Vec<usize>>,
    /// with an unsorted order: sign the DER (sorted) encoding instead of the emitted one
    sign_der: bool,
    tamper: Tamper,
    ber: Ber,
    strict: bool,
    eval: Eval,
    /// false: the statement leaves the outcome open, record only
    assert_outcome: bool,
    why_recorded: &'static str,
}

impl Case {
    fn new(kind: Kind, ee: EeSpec, ct: Vec<u8>, content: Vec<u8>, eval: Eval) -> Case {
        Case {
            kind,
            ee,
            ct,
            content,
            cov_ok: true,
            rel: "n/a".into(),
            order: None,
            sign_der: false,
            tamper: Tamper::None,
            ber: Ber::default(),
            strict: true,
            eval,
            assert_outcome: true,
            why_recorded: "",
        }
    }
}

/// The assembled object plus what the harness knows about it.
struct Built {
    bytes: Vec<u8>,
    attrs_len: usize,
    sorted: bool,
}

fn build(w: &mut World, c: &Case) -> Built {
    let ee_der = w.ee(&c.ee);
    let key = c.ee.key;
    let other_key = if key == 3 { 4 } else { 3 };
    let good_digest = sha256(&c.content);
    let digest: Vec<u8> = match c.tamper {
        Tamper::DigestOfOtherContent => {
            let mut other = c.content.clone();
            other.push(0);
            sha256(&other)
        }
        Tamper::DigestBitFlip => {
            let mut d = good_digest.clone();
            d[17] ^= 0x04;
            d
        }
        Tamper::DigestTruncated => good_digest[..31].to_vec(),
        _ => good_digest.clone(),
    };
    let mut wrong = good_digest.clone();
    wrong[0] ^= 0x80;
    let ct_attr = match c.tamper {
        Tamper::CtAttrMismatch => cms::attr_content_type(&der::oid(der::OID_CT_GHOSTBUSTERS)),
        _ => cms::attr_content_type(&c.ct),
    };
    let st = match c.tamper {
        Tamper::SigningTimeGeneralized => cms::attr_signing_time_general(T_IN),
        _ => cms::attr_signing_time(T_IN),
    };
    let base = [ct_attr.clone(), cms::attr_message_digest(&digest), st.clone()];
    let mut attrs: Vec<Vec<u8>> = match &c.order {
        None => cms::sort_attrs(&base),
        Some(p) => p.iter().map(|i| base[*i].clone()).collect(),
    };
    let resort = c.order.is_none();
    match c.tamper {
        Tamper::DupDigestWrongFirst => {
            let pos = attrs.iter().position(|a| *a == base[1]).unwrap();
            attrs.insert(pos, cms::attr_message_digest(&wrong));
        }
        Tamper::DupDigestWrongSecond => {
            let pos = attrs.iter().position(|a| *a == base[1]).unwrap();
            attrs.insert(pos + 1, cms::attr_message_digest(&wrong));
        }
        Tamper::DupDigestSame => attrs.push(base[1].clone()),
        Tamper::DupContentType => attrs.push(base[0].clone()),
        Tamper::DupSigningTime => attrs.push(base[2].clone()),
        Tamper::MissingDigest => attrs.retain(|a| *a != base[1]),
        Tamper::MissingContentType => attrs.retain(|a| *a != base[0]),
        Tamper::MissingSigningTime => attrs.retain(|a| *a != base[2]),
        Tamper::ExtraBinarySigningTime => attrs.push(cms::attr_binary_signing_time(T_IN)),
        Tamper::ExtraUnknownAttr => attrs.push(cms::attr_extra(7, 12)),
        _ => {}
    }
    if resort && !matches!(c.tamper, Tamper::DupDigestWrongFirst | Tamper::DupDigestWrongSecond) {
        attrs = cms::sort_attrs(&attrs);
    }
    let sorted = cms::attrs_sorted(&attrs);
    let to_sign = if c.sign_der { cms::sort_attrs(&attrs) } else { attrs.clone() };
    let signature = match c.tamper {
        Tamper::SigOtherKey => w.pool.key(other_key).sign_raw(&cms::sig_input_set(&to_sign)),
        Tamper::SigCtx0 => w.pool.key(key).sign_raw(&cms::sig_input_ctx0(&to_sign)),
        Tamper::SigOverContent => w.pool.key(key).sign_raw(&c.content),
        _ => w.pool.key(key).sign_raw(&cms::sig_input_set(&to_sign)),
    };
    let ski = cms::ski_of_spki(&w.pool.key(key).spki);
    let sid = match c.tamper {
        Tamper::SidIssuerSki => cms::ski_of_spki(&w.pool.key(0).spki),
        Tamper::SidOtherKeySki => cms::ski_of_spki(&w.pool.key(other_key).spki),
        Tamper::SidBitFlip => {
            let mut s = ski.clone();
            s[19] ^= 1;
            s
        }
        _ => ski,
    };
    let attrs_len = cms::attrs_len(&attrs);
    let mut sd = SignedData::rpki(c.ct.clone(), c.content.clone(), ee_der.to_vec(), sid, attrs, signature);
    if c.tamper == Tamper::DigestAlgWithNull {
        sd.digest_algs = vec![cms::alg_id(der::OID_SHA256, true)];
        sd.signers[0].digest_alg = cms::alg_id(der::OID_SHA256, true);
    }
    if c.tamper == Tamper::SigAlgSha256WithRsa {
        sd.signers[0].sig_alg = cms::alg_sha256_with_rsa();
    }
    sd.ber = c.ber.clone();
    Built { bytes: sd.encode(), attrs_len, sorted }
}

/// What an accepted object hands to the caller, read through the accessors.
#[derive(Clone, Debug, PartialEq)]
enum Reported {
    Nothing,
    /// origin AS, (is_v4, first address, last address, maxLength) per prefix
    Roa(u32, Vec<(bool, u128, u128, Option<u8>)>),
    /// customer, providers
    Aspa(u32, Vec<u32>),
    /// manifest number (20 octets), `len()`, (file, hash) in order
    Manifest([u8; 20], usize, Vec<(Vec<u8>, Vec<u8>)>),
}

#[derive(Debug)]
struct Seen {
    decoded: bool,
    accepted: bool,
    err: String,
    crl_calls: u32,
    crl_cert_is_ee: bool,
    reported: Reported,
}

/// Runs the library on `bytes` the way a relying party does.
fn evaluate(ctx: &mut Ctx, w: &World, kind: Kind, bytes: &[u8], strict: bool, eval: Eval, ee: &EeSpec) -> Option<Seen> {
    // what identifies the embedded EE certificate through accessors (re-encoding a
    // certificate that was decoded in relaxed mode is not possible, see report)
    let ee_ski = cms::ski_of_spki(&w.pool.key(ee.key).spki);
    let (ee_nb, ee_na) = (ee.nb, ee.na);
    let calls = Cell::new(0u32);
    let is_ee = Cell::new(false);
    let ta = &w.ta;
    let res: (bool, Result<Reported, String>) = ctx.no_panic(
        "decode-validate",
        || json!({"kind": kind.name(), "strict": strict, "object": hex(bytes)}),
        || {
            let cb = |c: &Cert| -> Result<(), ValidationError> {
                calls.set(calls.get() + 1);
                is_ee.set(
                    c.subject_key_identifier().as_slice() == &ee_ski[..]
                        && c.validity().not_before().timestamp() == ee_nb
                        && c.validity().not_after().timestamp() == ee_na,
                );
                match eval {
                    Eval::Process { crl_ok: false } => Err(VerificationError::new("harness CRL callback: revoked").into()),
                    _ => Ok(()),
                }
            };
            let data = bytes::Bytes::copy_from_slice(bytes);
            match kind {
                Kind::Roa => match Roa::decode(data, strict) {
                    Err(e) => (false, Err(e.to_string())),
                    Ok(o) => (
                        true,
                        o.process(ta, strict, cb)
                            .map(|(_, att)| {
                                let mut v: Vec<(bool, u128, u128, Option<u8>)> = Vec::new();
                                for (is_v4, list) in [(true, att.v4_addrs()), (false, att.v6_addrs())] {
                                    for a in list.iter() {
                                        let (lo, hi) = a.range();
                                        v.push((is_v4, lo.to_bits(), hi.to_bits(), a.max_length()));
                                    }
                                }
                                Reported::Roa(att.as_id().into_u32(), v)
                            })
                            .map_err(|e| e.to_string()),
                    ),
                },
                Kind::Aspa => match Aspa::decode(data, strict) {
                    Err(e) => (false, Err(e.to_string())),
                    Ok(o) => (
                        true,
                        o.process(ta, strict, cb)
                            .map(|(_, att)| Reported::Aspa(att.customer_as().into_u32(), att.provider_as_set().iter().map(|a| a.into_u32()).collect()))
                            .map_err(|e| e.to_string()),
                    ),
                },
                Kind::Manifest => match Manifest::decode(data, strict) {
                    Err(e) => (false, Err(e.to_string())),
                    Ok(o) => {
                        let t = match eval {
                            Eval::At(t) => t,
                            _ => T_IN,
                        };
                        (
                            true,
                            o.validate_at(ta, strict, time(t))
                                .map(|(_, mc)| {
                                    Reported::Manifest(
                                        mc.manifest_number().into_array(),
                                        mc.len(),
                                        mc.iter().map(|fh| (fh.file().to_vec(), fh.hash().to_vec())).collect(),
                                    )
                                })
                                .map_err(|e| e.to_string()),
                        )
                    }
                },
                Kind::Generic => match SignedObject::decode(data, strict) {
                    Err(e) => (false, Err(e.to_string())),
                    Ok(o) => match eval {
                        Eval::At(t) => (true, o.validate_at(ta, strict, time(t)).map(|_| Reported::Nothing).map_err(|e| e.to_string())),
                        Eval::Process { .. } => (true, o.process(ta, strict, cb).map(|_| Reported::Nothing).map_err(|e| e.to_string())),
                    },
                },
            }
        },
    )?;
    ctx.drain_chain_hook(|| json!({"kind": kind.name(), "object": hex(bytes)}));
    Some(Seen {
        decoded: res.0,
        accepted: res.1.is_ok(),
        err: res.1.as_ref().err().cloned().unwrap_or_default(),
        crl_calls: calls.get(),
        crl_cert_is_ee: is_ee.get(),
        reported: res.1.unwrap_or(Reported::Nothing),
    })
}

fn violation_category(v: &str) -> &'static str {
    if v.starts_with("Digest") || v.starts_with("DupDigest") || v.starts_with("MissingDigest") {
        "digest"
    } else if v.starts_with("Sig") {
        "signature"
    } else if v.starts_with("Sid") {
        "sid"
    } else if v.starts_with("ee-") {
        "ee-certificate"
    } else if v.starts_with("uncovered") {
        "coverage"
    } else if v.starts_with("crl") {
        "crl-callback"
    } else {
        "other"
    }
}

fn order_label(o: &Option<Vec<usize>>, sorted: bool) -> String {
    const N: [&str; 3] = ["ct", "md", "st"];
    match o {
        None => "der".into(),
        Some(p) => format!("{}{}", p.iter().map(|i| N[*i]).collect::<Vec<_>>().join("-"), if sorted { "(=der)" } else { "" }),
    }
}

fn case_json(w: &World, c: &Case, b: &Built) -> Value {
    json!({
        "kind": c.kind.name(),
        "strict": c.strict,
        "coverage_relation": c.rel,
        "coverage_ok": c.cov_ok,
        "attr_order": order_label(&c.order, b.sorted),
        "signed_attrs_len": b.attrs_len,
        "signed_der_sorted_instead_of_emitted": c.sign_der,
        "tamper": format!("{:?}", c.tamper),
        "ber": c.ber.describe(),
        "eval": format!("{:?}", c.eval),
        "ee": format!("{:?}", c.ee),
        "wall_clock_now": w.now,
        "object": hex(&b.bytes),
    })
}

/// Which time the library will use for the EE certificate in this case.
fn eval_time(w: &World, c: &Case) -> i64 {
    match c.eval {
        Eval::At(t) => t,
        Eval::Process { .. } => w.now,
    }
}

/// Executes one case and applies the oracle. Returns whether the library accepted.
fn run_case(ctx: &mut Ctx, w: &mut World, c: &Case) -> Option<bool> {
    let b = build(w, c);
    let t = eval_time(w, c);
    let ee_viol = w.ee_violation(&c.ee, t);
    // a certificate off the profile: C01's validator decides about the very same certificate
    let mut profile_viol: Option<String> = None;
    if c.ee.profile != 0 && ee_viol.is_none() {
        let prof = EE_PROFILES[c.ee.profile as usize % EE_PROFILES.len()];
        let ee_der = w.ee(&c.ee);
        let strict = c.strict;
        let ta = w.ta.clone();
        let verdict = ctx.no_panic("validate_ee_at-on-profile-variant", || json!({"profile": prof, "ee_cert": hex(&ee_der)}), || {
            Cert::decode(ee_der.as_slice()).ok().map(|cert| cert.validate_ee_at(&ta, strict, time(t)).map(|_| ()).map_err(|e| e.to_string()))
        });
        match verdict {
            Some(Some(Ok(()))) => ctx.obs(&format!("ee_profile_{}_accepted_by_validate_ee_at", prof), 1),
            Some(Some(Err(_))) | Some(None) => {
                ctx.obs(&format!("ee_profile_{}_refused_by_validate_ee_at", prof), 1);
                profile_viol = Some(format!("ee-off-profile-refused-by-validate_ee_at:{}", prof));
            }
            None => return None,
        }
    }
    let crl_ok = !matches!(c.eval, Eval::Process { crl_ok: false });
    let violated: Option<String> = if c.tamper != Tamper::None {
        Some(format!("{:?}", c.tamper))
    } else if let Some(v) = ee_viol {
        Some(v.into())
    } else if let Some(v) = profile_viol {
        Some(v)
    } else if !c.cov_ok {
        Some(format!("uncovered:{}", c.rel))
    } else if !crl_ok {
        Some("crl-callback-err".into())
    } else {
        None
    };
    let expected = violated.is_none();
    let seen = evaluate(ctx, w, c.kind, &b.bytes, c.strict, c.eval, &c.ee)?;
    ctx.eval();
    let cls = cms::size_class(b.attrs_len);
    let ord = order_label(&c.order, b.sorted);
    let mode = if c.strict { "strict" } else { "relaxed" };
    let vio = violated.clone().unwrap_or_else(|| "none".into());
    ctx.sig(&format!(
        "{} order={} attrs{} {} violated={} cov={} ber={}{}",
        c.kind.name(),
        ord,
        cls,
        mode,
        vio,
        c.rel,
        c.ber.describe(),
        if c.sign_der { " signed-der" } else { "" }
    ));
    ctx.obs(if seen.accepted { "accepted" } else { "rejected" }, 1);
    if !seen.decoded {
        ctx.obs("rejected_at_decode", 1);
    }
    ctx.obs_max("signed_attrs_len", b.attrs_len as u64);
    ctx.obs(&format!("objects_attrs{}", cls), 1);
    if seen.accepted {
        ctx.obs(&format!("accepted_attrs{}", cls), 1);
    }
    // the CRL callback must see the embedded EE certificate
    if seen.crl_calls > 0 {
        ctx.obs("crl_callback_called", 1);
        if !seen.crl_cert_is_ee {
            ctx.violation(
                "C02:crl-callback-got-other-cert",
                "the CRL callback was called with something else than the embedded EE certificate",
                case_json(w, c, &b),
            );
        }
        if seen.crl_calls > 1 {
            ctx.obs("crl_callback_called_more_than_once", 1);
        }
    }
    if seen.accepted && matches!(c.eval, Eval::Process { .. }) && seen.crl_calls == 0 {
        ctx.violation(
            "C02:accepted-without-crl-callback",
            "process() returned Ok without consulting the CRL callback",
            case_json(w, c, &b),
        );
    }
    // whatever is accepted must report what its signed content says
    check_reported(ctx, c.kind, &c.content, &seen, || case_json(w, c, &b));
    if !c.assert_outcome {
        ctx.obs(&format!("recorded:{}:{}", c.why_recorded, if seen.accepted { "accepted" } else { "rejected" }), 1);
        ctx.sample("e:recorded", || {
            json!({"why_not_asserted": c.why_recorded, "kind": c.kind.name(), "strict": c.strict, "tamper": format!("{:?}", c.tamper), "order": ord, "ber": c.ber.describe(),
                   "observed": if seen.accepted { "accepted".to_string() } else { format!("rejected: {}", seen.err) }})
        });
        return Some(seen.accepted);
    }
    if expected && !seen.accepted {
        // what is special about this valid object, most specific first
        let what = if b.attrs_len >= 128 {
            format!("signed-attrs{}", cls)
        } else if !c.ber.is_der() {
            format!("ber:{}", c.ber.describe())
        } else if !b.sorted {
            format!("attr-order:{}", ord)
        } else if c.rel != "n/a" {
            format!("{}:{}", c.kind.name(), c.rel)
        } else {
            format!("{}:{:?}", c.kind.name(), c.eval).replace(char::is_numeric, "")
        };
        let mut d = case_json(w, c, &b);
        d["observed_error"] = json!(seen.err);
        d["decoded"] = json!(seen.decoded);
        ctx.violation(
            &format!("C02:valid-rejected:{}", what),
            &format!("a {} meeting every condition of the statement was rejected in {} mode: {}", c.kind.name(), mode, seen.err),
            d,
        );
    } else if !expected && seen.accepted {
        let v = vio.clone();
        ctx.violation(
            &format!("C02:invalid-accepted:{}", v),
            &format!("a {} violating exactly one condition ({}) was accepted in {} mode", c.kind.name(), vio, mode),
            case_json(w, c, &b),
        );
    }
    let skind = if expected { format!("a:valid:{}", c.kind.name()) } else { format!("b:violation:{}", violation_category(&vio)) };
    if ctx.wants_sample(&skind) {
        ctx.sample(&skind, || {
            json!({"kind": c.kind.name(), "strict": c.strict, "coverage": c.rel, "order": ord, "signed_attrs_len": b.attrs_len, "ber": c.ber.describe(),
                   "violated": vio, "expected": if expected { "accept" } else { "reject" },
                   "observed": if seen.accepted { "accepted".to_string() } else { format!("rejected: {}", seen.err) },
                   "object_len": b.bytes.len(), "object_head": hex(&b.bytes[..b.bytes.len().min(48)])})
        });
    }
    Some(seen.accepted)
}

//------------ EE shapes -----------------------------------------------------

fn ee_base(key: usize, now_based: Option<i64>) -> EeSpec {
    let (nb, na) = match now_based {
        Some(now) => (now - 30 * 86_400, now + 365 * 86_400),
        None => (T_NB, T_NA),
    };
    EeSpec { key, signer: 0, aki: 0, trim: false, v4: Res::Missing, v6: Res::Missing, asn: Res::Missing, nb, na, profile: 0 }
}

fn ee_inherit(key: usize, now_based: Option<i64>) -> EeSpec {
    EeSpec { v4: Res::Inherit, v6: Res::Inherit, asn: Res::Inherit, ..ee_base(key, now_based) }
}

fn std_v4() -> Vec<(u128, u128)> {
    vec![v4r(a4(10, 1, 0, 0), a4(10, 1, 255, 255)), v4r(a4(172, 16, 5, 0), a4(172, 16, 6, 255))]
}

fn std_v6() -> Vec<(u128, u128)> {
    vec![v6p(V6_DOC | (1u128 << 80), 48)]
}

fn ee_roa_std(key: usize, now: i64) -> EeSpec {
    EeSpec { v4: Res::Blocks(std_v4()), v6: Res::Blocks(std_v6()), ..ee_base(key, Some(now)) }
}

fn ee_roa_trim(key: usize, now: i64) -> EeSpec {
    // claims 10.0.0.0/8 and 2001:db8::/31; the issuer holds 10.0.0.0/9 and 2001:db8::/32
    EeSpec {
        trim: true,
        v4: Res::Blocks(vec![v4r(a4(10, 0, 0, 0), a4(10, 255, 255, 255))]),
        v6: Res::Blocks(vec![v6p(V6_DOC, 31)]),
        ..ee_base(key, Some(now))
    }
}

fn ee_aspa_std(key: usize, now: i64) -> EeSpec {
    EeSpec { asn: Res::Blocks(vec![asr(64500, 64505), asr(65540, 65540)]), ..ee_base(key, Some(now)) }
}

fn ee_aspa_trim(key: usize, now: i64) -> EeSpec {
    EeSpec { trim: true, asn: Res::Blocks(vec![asr(64490, 64520)]), ..ee_base(key, Some(now)) }
}

//------------ content generators -------------------------------------------

fn p4(a: u8, b: u8, c: u8, d: u8, len: u8) -> Pfx {
    Pfx::v4(a4(a, b, c, d), len)
}

fn roa_cov(w: &World, ee: &EeSpec, fams: &[RoaFamily]) -> bool {
    let Some((v4, v6, _)) = w.validated(ee) else { return true };
    for f in fams {
        let set = if f.afi == [0, 1] { &v4 } else { &v6 };
        for (p, _) in &f.addrs {
            if !set.contains_range(p.min(), p.max()) {
                return false;
            }
        }
    }
    true
}

fn roa_case(w: &World, ee: EeSpec, rel: &str, fams: Vec<RoaFamily>, asn: u32) -> Case {
    let cov = roa_cov(w, &ee, &fams);
    let mut c = Case::new(Kind::Roa, ee, der::oid(der::OID_CT_ROA), cms::roa_econtent(asn, &fams, false), Eval::Process { crl_ok: true });
    c.cov_ok = cov;
    c.rel = rel.into();
    c
}

fn roa_table(w: &World, key: usize) -> Vec<Case> {
    let now = w.now;
    let std = ee_roa_std(key, now);
    let trim = ee_roa_trim(key, now);
    let v6b = V6_DOC | (1u128 << 80); // 2001:db8:1::
    let one4 = |p: Pfx, ml: Option<u8>| vec![RoaFamily::v4(vec![(p, ml)])];
    let one6 = |p: Pfx, ml: Option<u8>| vec![RoaFamily::v6(vec![(p, ml)])];
    let mut t: Vec<(EeSpec, &str, Vec<RoaFamily>)> = vec![
        (std.clone(), "v4-inside", one4(p4(10, 1, 2, 0, 24), None)),
        (std.clone(), "v4-equal-block", one4(p4(10, 1, 0, 0, 16), Some(24))),
        (std.clone(), "v4-low-edge", one4(p4(10, 1, 0, 0, 24), Some(24))),
        (std.clone(), "v4-high-edge", one4(p4(10, 1, 255, 0, 24), Some(32))),
        (std.clone(), "v4-last-host", one4(p4(10, 1, 255, 255, 32), None)),
        (std.clone(), "v4-first-host", one4(p4(10, 1, 0, 0, 32), None)),
        (std.clone(), "v4-one-bit-shorter", one4(p4(10, 0, 0, 0, 15), None)),
        (std.clone(), "v4-below-by-one", one4(p4(10, 0, 255, 255, 32), None)),
        (std.clone(), "v4-below-adjacent-24", one4(p4(10, 0, 255, 0, 24), None)),
        (std.clone(), "v4-above-by-one", one4(p4(10, 2, 0, 0, 32), None)),
        (std.clone(), "v4-above-adjacent-24", one4(p4(10, 2, 0, 0, 24), Some(25))),
        (std.clone(), "v4-range-first-24", one4(p4(172, 16, 5, 0, 24), None)),
        (std.clone(), "v4-range-last-24", one4(p4(172, 16, 6, 0, 24), None)),
        (std.clone(), "v4-range-inner-25", one4(p4(172, 16, 5, 128, 25), None)),
        (std.clone(), "v4-range-below-24", one4(p4(172, 16, 4, 0, 24), None)),
        (std.clone(), "v4-range-above-24", one4(p4(172, 16, 7, 0, 24), None)),
        (std.clone(), "v4-range-straddle-low-23", one4(p4(172, 16, 4, 0, 23), None)),
        (std.clone(), "v4-range-straddle-high-23", one4(p4(172, 16, 6, 0, 23), None)),
        (std.clone(), "v4-range-superset-22", one4(p4(172, 16, 4, 0, 22), None)),
        (std.clone(), "v4-zero-length", one4(p4(0, 0, 0, 0, 0), None)),
        (std.clone(), "v4-many-all-inside", vec![RoaFamily::v4(vec![(p4(10, 1, 1, 0, 24), None), (p4(172, 16, 5, 0, 24), Some(28)), (p4(10, 1, 128, 0, 17), None)])]),
        (std.clone(), "v4-many-last-outside", vec![RoaFamily::v4(vec![(p4(10, 1, 1, 0, 24), None), (p4(172, 16, 5, 0, 24), None), (p4(10, 2, 0, 0, 24), None)])]),
        (std.clone(), "v4-many-first-outside", vec![RoaFamily::v4(vec![(p4(10, 0, 255, 0, 24), None), (p4(10, 1, 1, 0, 24), None)])]),
        (std.clone(), "v6-equal-block", one6(Pfx::v6(v6b, 48), Some(64))),
        (std.clone(), "v6-inside", one6(Pfx::v6(v6b | (0x8000u128 << 64), 49), None)),
        (std.clone(), "v6-last-host", one6(Pfx::v6(v6b | ((1u128 << 80) - 1), 128), None)),
        (std.clone(), "v6-first-host", one6(Pfx::v6(v6b, 128), None)),
        (std.clone(), "v6-second-host", one6(Pfx::v6(v6b | 1, 128), None)),
        (std.clone(), "v6-host-just-below-block", one6(Pfx::v6(v6b - 1, 128), None)),
        (std.clone(), "v6-one-bit-shorter", one6(Pfx::v6(V6_DOC, 47), None)),
        (std.clone(), "v6-above-adjacent-48", one6(Pfx::v6(V6_DOC | (2u128 << 80), 48), None)),
        (std.clone(), "v6-below-adjacent-64", one6(Pfx::v6(V6_DOC | (0xffffu128 << 64), 64), None)),
        (std.clone(), "v6-above-by-one", one6(Pfx::v6(V6_DOC | (2u128 << 80), 128), None)),
        (std.clone(), "both-inside", vec![RoaFamily::v4(vec![(p4(10, 1, 2, 0, 24), None)]), RoaFamily::v6(vec![(Pfx::v6(v6b, 48), None)])]),
        (std.clone(), "v4-inside-v6-outside", vec![RoaFamily::v4(vec![(p4(10, 1, 2, 0, 24), None)]), RoaFamily::v6(vec![(Pfx::v6(V6_DOC | (2u128 << 80), 48), None)])]),
        (std.clone(), "v4-outside-v6-inside", vec![RoaFamily::v4(vec![(p4(10, 2, 0, 0, 24), None)]), RoaFamily::v6(vec![(Pfx::v6(v6b, 48), None)])]),
        (std.clone(), "v6-first-then-v4-outside", vec![RoaFamily::v6(vec![(Pfx::v6(v6b, 48), None)]), RoaFamily::v4(vec![(p4(10, 2, 0, 0, 24), None)])]),
        (EeSpec { v6: Res::Missing, ..std.clone() }, "v6-prefix-ee-without-v6", one6(Pfx::v6(v6b, 48), None)),
        (EeSpec { v4: Res::Missing, ..std.clone() }, "v4-prefix-ee-without-v4", one4(p4(10, 1, 2, 0, 24), None)),
        (EeSpec { v6: Res::Missing, ..std.clone() }, "v4-inside-ee-v4-only", one4(p4(10, 1, 2, 0, 24), None)),
        (trim.clone(), "trim-v4-inside-validated", one4(p4(10, 64, 0, 0, 16), None)),
        (trim.clone(), "trim-v4-equal-validated", one4(p4(10, 0, 0, 0, 9), None)),
        (trim.clone(), "trim-v4-claimed-but-cut", one4(p4(10, 128, 0, 0, 16), None)),
        (trim.clone(), "trim-v4-first-cut-address", one4(p4(10, 128, 0, 0, 32), None)),
        (trim.clone(), "trim-v4-whole-claim", one4(p4(10, 0, 0, 0, 8), None)),
        (trim.clone(), "trim-v6-inside-validated", one6(Pfx::v6(V6_DOC, 32), None)),
        (trim.clone(), "trim-v6-claimed-but-cut", one6(Pfx::v6(V6_DOC | (1u128 << 96), 32), None)),
    ];
    // EE that overclaims under Refuse: the certificate itself is invalid
    t.push((EeSpec { trim: false, ..trim.clone() }, "refuse-overclaiming-ee", one4(p4(10, 64, 0, 0, 16), None)));
    t.into_iter().map(|(ee, rel, fams)| roa_case(w, ee, rel, fams, 64496)).collect()
}

/// A ROA whose single prefix is placed relative to a validated block by the rng.
fn roa_random(w: &World, rng: &mut Rng, key: usize) -> Case {
    let ee = if rng.chance(1, 3) { ee_roa_trim(key, w.now) } else { ee_roa_std(key, w.now) };
    let (v4, v6, _) = w.validated(&ee).unwrap();
    let is_v4 = rng.bool();
    let set = if is_v4 { &v4 } else { &v6 };
    let fam_bits: u8 = if is_v4 { 32 } else { 128 };
    let (lo, hi) = *rng.pick(&set.iv);
    let host_bits: u32 = if is_v4 { 96 } else { 0 };
    let unit: u128 = 1u128 << host_bits;
    let place = rng.below(6);
    let len: u8 = if place < 4 && rng.chance(1, 3) { fam_bits } else { rng.range(if is_v4 { 8 } else { 16 }, fam_bits as u64) as u8 };
    let span = (hi - lo) / unit; // number of family addresses - 1
    let off = if span == 0 { 0 } else { rng.next_u128() % (span + 1) };
    let addr = match place {
        0 => lo,
        1 => hi,
        2 => lo.wrapping_sub(unit),
        3 => hi.wrapping_add(unit),
        _ => lo + off * unit,
    };
    let p = Pfx { addr, len };
    let p = Pfx { addr: p.min(), len };
    let rel = format!(
        "random-{}-{}",
        if is_v4 { "v4" } else { "v6" },
        match place {
            0 => "at-block-start",
            1 => "at-block-end",
            2 => "just-below",
            3 => "just-above",
            _ => "inside-somewhere",
        }
    );
    let ml = if rng.bool() { Some(rng.range(len as u64, fam_bits as u64) as u8) } else { None };
    let fams = if is_v4 { vec![RoaFamily::v4(vec![(p, ml)])] } else { vec![RoaFamily::v6(vec![(p, ml)])] };
    roa_case(w, ee, &rel, fams, rng.next_u32())
}

fn aspa_case(w: &World, ee: EeSpec, rel: &str, customer: u32, providers: &[u32]) -> Case {
    let cov = match w.validated(&ee) {
        None => true,
        Some((_, _, asn)) => asn.contains(customer as u128) && ee.asn != Res::Inherit && ee.v4 == Res::Missing && ee.v6 == Res::Missing,
    };
    let mut c = Case::new(Kind::Aspa, ee, der::oid(der::OID_CT_ASPA), cms::aspa_econtent(customer, providers), Eval::Process { crl_ok: true });
    c.cov_ok = cov;
    c.rel = rel.into();
    c
}

fn aspa_table(w: &World, key: usize) -> Vec<Case> {
    let now = w.now;
    let std = ee_aspa_std(key, now);
    let trim = ee_aspa_trim(key, now);
    let provs: &[u32] = &[64497, 65000, 4_200_000_000];
    vec![
        aspa_case(w, std.clone(), "customer-inside", 64502, provs),
        aspa_case(w, std.clone(), "customer-range-min", 64500, provs),
        aspa_case(w, std.clone(), "customer-range-max", 64505, &[1]),
        aspa_case(w, std.clone(), "customer-below-by-one", 64499, provs),
        aspa_case(w, std.clone(), "customer-above-by-one", 64506, provs),
        aspa_case(w, std.clone(), "customer-single-id", 65540, provs),
        aspa_case(w, std.clone(), "customer-single-id-minus-one", 65539, provs),
        aspa_case(w, std.clone(), "customer-single-id-plus-one", 65541, provs),
        aspa_case(w, std.clone(), "customer-zero", 0, provs),
        aspa_case(w, std.clone(), "customer-max", u32::MAX, provs),
        aspa_case(w, trim.clone(), "trim-customer-validated-min", 64496, provs),
        aspa_case(w, trim.clone(), "trim-customer-validated-max", 64511, provs),
        aspa_case(w, trim.clone(), "trim-customer-claimed-but-cut-low", 64495, provs),
        aspa_case(w, trim.clone(), "trim-customer-claimed-but-cut-high", 64512, provs),
        aspa_case(w, EeSpec { trim: false, ..trim.clone() }, "refuse-overclaiming-ee", 64500, provs),
        aspa_case(w, EeSpec { v4: Res::Blocks(vec![v4r(a4(10, 1, 0, 0), a4(10, 1, 255, 255))]), ..std.clone() }, "ee-with-v4-resources", 64502, provs),
        aspa_case(w, EeSpec { v6: Res::Blocks(std_v6()), ..std.clone() }, "ee-with-v6-resources", 64502, provs),
        aspa_case(w, EeSpec { v4: Res::Inherit, ..std.clone() }, "ee-with-inherited-v4", 64502, provs),
        aspa_case(w, EeSpec { asn: Res::Inherit, ..std.clone() }, "ee-with-inherited-as", 64500, provs),
        // the EE certificate HAS IP resources, but none of them survives trimming:
        // "no IP resources" is about the certificate, not about what validation leaves
        aspa_case(w, EeSpec { v4: Res::Blocks(vec![v4r(a4(203, 0, 113, 0), a4(203, 0, 113, 255))]), ..trim.clone() }, "trim-ee-with-v4-resources-trimmed-to-nothing", 64500, provs),
        aspa_case(w, EeSpec { v6: Res::Blocks(vec![v6p(0x3fffu128 << 112, 20)]), ..trim.clone() }, "trim-ee-with-v6-resources-trimmed-to-nothing", 64500, provs),
    ]
}

/// An ASPA whose customer is placed relative to a validated AS block by the rng.
fn aspa_random(w: &World, rng: &mut Rng, key: usize) -> Case {
    let ee = if rng.chance(1, 3) { ee_aspa_trim(key, w.now) } else { ee_aspa_std(key, w.now) };
    let (_, _, asn) = w.validated(&ee).unwrap();
    let (lo, hi) = *rng.pick(&asn.iv);
    let place = rng.below(5);
    let customer = match place {
        0 => lo,
        1 => hi,
        2 => lo.wrapping_sub(1),
        3 => hi + 1,
        _ => lo + rng.next_u64() as u128 % (hi - lo + 1),
    } as u32;
    let n = 1 + rng.usize_below(6);
    let mut provs: Vec<u32> = (0..n).map(|_| rng.next_u32()).filter(|p| *p != customer).collect();
    provs.sort();
    provs.dedup();
    if provs.is_empty() {
        provs.push(customer.wrapping_add(7));
    }
    let rel = format!("random-{}", ["at-block-start", "at-block-end", "just-below", "just-above", "inside-somewhere"][place as usize]);
    aspa_case(w, ee, &rel, customer, &provs)
}

fn manifest_content(rng: &mut Rng, n: usize) -> Vec<u8> {
    let exts = ["roa", "cer", "crl", "asa", "gbr"];
    let entries: Vec<cms::MftEntry> = (0..n)
        .map(|i| {
            let name = format!("{}-{:x}_{}.{}", ["a", "Zz", "obj"][i % 3], rng.next_u32(), i, exts[i % exts.len()]);
            cms::MftEntry::new(name.as_bytes(), &rng.bytes(32))
        })
        .collect();
    cms::manifest_econtent(rng.range(0, u32::MAX as u64), T_IN - 3600, T_IN + 86_400, &entries)
}

fn manifest_case(rng: &mut Rng, key: usize, t: i64) -> Case {
    let n = rng.usize_below(6);
    Case::new(Kind::Manifest, ee_inherit(key, None), der::oid(der::OID_CT_MANIFEST), manifest_content(rng, n), Eval::At(t))
}

/// Content type OID whose length makes content-type + message-digest +
/// signing-time exactly `total` octets long; None if that size cannot be hit.
fn ct_for_total(total: usize, salt: u64) -> Option<Vec<u8>> {
    let fixed = cms::attr_message_digest(&[0u8; 32]).len() + cms::attr_signing_time(T_IN).len();
    let start = total.saturating_sub(fixed + 40).max(3);
    for body in start..total {
        let ct = cms::oid_with_body_len(body, salt);
        let l = cms::attr_content_type(&ct).len() + fixed;
        if l == total {
            return Some(ct);
        }
        if l > total {
            return None;
        }
    }
    None
}

fn generic_case(rng: &mut Rng, key: usize, ct: Vec<u8>, t: i64) -> Case {
    let n = rng.usize_below(200);
    let ee = match rng.below(3) {
        0 => ee_inherit(key, None),
        1 => EeSpec { v4: Res::Blocks(std_v4()), asn: Res::Blocks(vec![asr(64500, 64505)]), ..ee_base(key, None) },
        // overclaiming but under the Trim policy: the certificate stays valid
        _ => EeSpec { trim: true, v4: Res::Blocks(vec![v4r(a4(10, 0, 0, 0), a4(10, 255, 255, 255))]), ..ee_base(key, None) },
    };
    Case::new(Kind::Generic, ee, ct, rng.bytes(n), Eval::At(t))
}

fn short_generic_ct(rng: &mut Rng) -> Vec<u8> {
    match rng.below(3) {
        0 => der::oid(der::OID_CT_GHOSTBUSTERS),
        1 => cms::oid_with_body_len(3 + rng.usize_below(20), rng.next_u64()),
        _ => der::oid(&[1, 3, 6, 1, 4, 1, 99_999, 1, rng.below(1000)]),
    }
}

fn ber_variants() -> Vec<Ber> {
    let d = Ber::default();
    vec![
        Ber { indef_content_info: true, ..d.clone() },
        Ber { indef_content0: true, ..d.clone() },
        Ber { indef_signed_data: true, ..d.clone() },
        Ber { indef_encap: true, ..d.clone() },
        Ber { indef_econtent0: true, ..d.clone() },
        Ber { econtent_chunks: Some(vec![]), ..d.clone() },
        Ber { econtent_chunks: Some(vec![1]), ..d.clone() },
        Ber { econtent_chunks: Some(vec![0, 5, 0]), ..d.clone() },
        Ber { econtent_chunks: Some(vec![7; 12]), econtent_indef: true, ..d.clone() },
        Ber { indef_certs: true, ..d.clone() },
        Ber { indef_signer_infos: true, ..d.clone() },
        Ber { indef_signer_info: true, ..d.clone() },
        Ber { pad_outer: 4, ..d.clone() },
        Ber { pad_signed_data: 3, ..d.clone() },
        Ber { pad_signature: 3, ..d.clone() },
        Ber {
            indef_content_info: true,
            indef_content0: true,
            indef_signed_data: true,
            indef_encap: true,
            indef_econtent0: true,
            econtent_chunks: Some(vec![3, 3]),
            econtent_indef: true,
            indef_certs: true,
            indef_signer_infos: true,
            indef_signer_info: true,
            ..d.clone()
        },
    ]
}

/// A valid object of the given kind (`i` varies the shape).
fn valid_of_kind(w: &World, rng: &mut Rng, kind: Kind, key: usize, i: usize) -> Case {
    match kind {
        Kind::Roa => {
            let t = roa_table(w, key);
            let ok: Vec<Case> = t.into_iter().filter(|c| c.cov_ok && w.ee_violation(&c.ee, w.now).is_none()).collect();
            ok[i % ok.len()].clone()
        }
        Kind::Aspa => {
            let t = aspa_table(w, key);
            let ok: Vec<Case> = t.into_iter().filter(|c| c.cov_ok && w.ee_violation(&c.ee, w.now).is_none()).collect();
            ok[i % ok.len()].clone()
        }
        Kind::Manifest => manifest_case(rng, key, T_IN),
        Kind::Generic => {
            let ct = short_generic_ct(rng);
            generic_case(rng, key, ct, T_IN)
        }
    }
}

const KINDS: [Kind; 4] = [Kind::Roa, Kind::Aspa, Kind::Manifest, Kind::Generic];

/// The structured case list of one round. Order matters only for tiny
/// budgets (valgrind): the head is a cross-section of everything.
fn round_cases(w: &World, rng: &mut Rng, round: u64, rich: bool) -> Vec<Case> {
    let mut out: Vec<Case> = Vec::new();
    let key = 1 + (round as usize % 2); // EE key 1 or 2; 3/4 are "other" keys, 5 a foreign issuer
    let sizes: Vec<usize> = vec![127, 128, 129, 255, 256, 257, 126, 130, 200, 254, 258, 300, 400, 1000, 5000, 65000, 65535];

    // ---- head: cross-section
    for (i, k) in KINDS.iter().enumerate() {
        let mut c = valid_of_kind(w, rng, *k, key, i);
        c.strict = i % 2 == 0;
        out.push(c);
    }
    for total in [127usize, 128, 256] {
        if let Some(ct) = ct_for_total(total, round + 1) {
            let mut c = generic_case(rng, key, ct, T_IN);
            c.strict = total != 128;
            c.rel = format!("attrs-total-{}", total);
            out.push(c);
        }
    }
    // ---- EE certificates off the RFC 6487 profile, correctly signed by the CA, under every kind of object
    for p in 1..EE_PROFILES.len() {
        if !rich && (p as u64 + round) % 3 != 0 {
            continue;
        }
        for (i, k) in KINDS.iter().enumerate() {
            if !rich && (i as u64 + round + p as u64) % 2 != 0 {
                continue;
            }
            let mut c = valid_of_kind(w, rng, *k, key, i + p);
            c.ee.profile = p as u8;
            c.strict = (p + i) % 2 == 0;
            c.rel = format!("ee-profile:{}", EE_PROFILES[p]);
            out.push(c);
        }
    }
    for (i, t) in [Tamper::DigestOfOtherContent, Tamper::SigOtherKey, Tamper::SigCtx0, Tamper::SidIssuerSki].iter().enumerate() {
        let mut c = valid_of_kind(w, rng, KINDS[i % 4], key, i);
        c.tamper = *t;
        c.strict = i % 2 == 1;
        out.push(c);
    }
    {
        let mut c = valid_of_kind(w, rng, Kind::Generic, key, 0);
        c.ee = EeSpec { nb: T_NB, na: T_IN - 1, ..c.ee };
        out.push(c);
        let mut c = valid_of_kind(w, rng, Kind::Roa, key, 0);
        c.ee = EeSpec { signer: 5, aki: 5, ..c.ee };
        out.push(c);
        let mut c = valid_of_kind(w, rng, Kind::Roa, key, 1);
        c.strict = false;
        c.ber = ber_variants().pop().unwrap();
        out.push(c);
        let t = roa_table(w, key);
        out.push(t.iter().find(|c| c.rel == "v4-above-by-one").unwrap().clone());
        let t = aspa_table(w, key);
        out.push(t.iter().find(|c| c.rel == "customer-above-by-one").unwrap().clone());
        let mut c = valid_of_kind(w, rng, Kind::Aspa, key, 0);
        c.eval = Eval::Process { crl_ok: false };
        out.push(c);
    }

    // ---- coverage matrices, strict and relaxed
    for strict in [true, false] {
        for mut c in roa_table(w, key) {
            c.strict = strict;
            out.push(c);
        }
        for mut c in aspa_table(w, key) {
            c.strict = strict;
            out.push(c);
        }
    }
    // ROA with an inherit EE: RFC 9582 forbids it, the statement only speaks of
    // "validated resources" — recorded
    for strict in [true, false] {
        let mut c = roa_case(
            w,
            EeSpec { v4: Res::Inherit, v6: Res::Inherit, ..ee_base(key, Some(w.now)) },
            "ee-inherits-ip",
            vec![RoaFamily::v4(vec![(p4(10, 1, 2, 0, 24), None)])],
            64496,
        );
        c.strict = strict;
        c.assert_outcome = false;
        c.why_recorded = "roa-ee-inherit";
        out.push(c);
    }
    // explicit DEFAULT version in the ROA content (not DER): recorded
    {
        let fams = vec![RoaFamily::v4(vec![(p4(10, 1, 2, 0, 24), None)])];
        let mut c = roa_case(w, ee_roa_std(key, w.now), "v4-inside", fams.clone(), 64496);
        c.content = cms::roa_econtent(64496, &fams, true);
        c.assert_outcome = false;
        c.why_recorded = "roa-explicit-default-version";
        out.push(c);
    }
    for _ in 0..(if rich { 160 } else { 24 }) {
        let mut c = roa_random(w, rng, key);
        c.strict = rng.bool();
        out.push(c);
    }
    for _ in 0..(if rich { 80 } else { 12 }) {
        let mut c = aspa_random(w, rng, key);
        c.strict = rng.bool();
        out.push(c);
    }

    // ---- attribute orders: all permutations, both signature conventions
    for (ki, k) in KINDS.iter().enumerate() {
        for (pi, p) in cms::permutations(3).into_iter().enumerate() {
            for strict in [true, false] {
                let mut c = valid_of_kind(w, rng, *k, key, ki + pi);
                c.order = Some(p.clone());
                c.strict = strict;
                out.push(c);
            }
        }
    }

    // ---- signed-attribute sizes (the content type OID is the only legal knob)
    for (i, total) in sizes.iter().enumerate() {
        if let Some(ct) = ct_for_total(*total, round * 31 + i as u64) {
            for strict in [true, false] {
                let mut c = generic_case(rng, key, ct.clone(), T_IN);
                c.strict = strict;
                c.rel = format!("attrs-total-{}", total);
                out.push(c);
            }
        }
    }
    // beyond the decoder's documented 65535-octet limit nothing is asserted
    // about acceptance, but neither decoding nor validation may panic
    for (i, total) in [65536usize, 65537, 66000, 70000].iter().enumerate() {
        if let Some(ct) = ct_for_total(*total, round * 37 + i as u64) {
            let mut c = generic_case(rng, key, ct, T_IN);
            c.strict = i % 2 == 0;
            c.rel = format!("attrs-total-{}", total);
            c.assert_outcome = false;
            c.why_recorded = "signed-attrs-above-65535";
            out.push(c);
        }
    }
    for _ in 0..(if rich { 60 } else { 10 }) {
        let body = 3 + rng.usize_below(400);
        let ct = cms::oid_with_body_len(body, rng.next_u64());
        let mut c = generic_case(rng, key, ct, T_IN);
        c.strict = rng.bool();
        c.rel = "attrs-random-size".into();
        out.push(c);
    }
    // long attributes together with a permuted order / BER wrapper
    for (i, total) in [128usize, 256].iter().enumerate() {
        if let Some(ct) = ct_for_total(*total, 77 + round) {
            let mut c = generic_case(rng, key, ct.clone(), T_IN);
            c.strict = false;
            c.ber = ber_variants()[i * 3].clone();
            c.rel = format!("attrs-total-{}", total);
            out.push(c);
        }
    }

    // ---- single violations
    for (ti, t) in ASSERTED_TAMPERS.iter().enumerate() {
        for (ki, k) in KINDS.iter().enumerate() {
            let mut c = valid_of_kind(w, rng, *k, key, ti + ki);
            c.tamper = *t;
            c.strict = (ti + ki) % 2 == 0;
            out.push(c);
        }
    }
    // a violation combined with long signed attributes (size branch must not open a door)
    for t in [Tamper::DigestBitFlip, Tamper::SigOtherKey, Tamper::SigCtx0, Tamper::SidIssuerSki] {
        for total in [128usize, 256] {
            if let Some(ct) = ct_for_total(total, 5) {
                let mut c = generic_case(rng, key, ct, T_IN);
                c.tamper = t;
                c.strict = total == 128;
                c.rel = format!("attrs-total-{}", total);
                out.push(c);
            }
        }
    }
    for (ti, t) in RECORDED_TAMPERS.iter().enumerate() {
        for strict in [true, false] {
            let mut c = valid_of_kind(w, rng, KINDS[ti % 4], key, ti);
            c.tamper = *t;
            c.strict = strict;
            c.assert_outcome = false;
            c.why_recorded = "outside-statement";
            out.push(c);
        }
    }
    // EE certificate violations
    for (ki, k) in KINDS.iter().enumerate() {
        let wall = matches!(k, Kind::Roa | Kind::Aspa);
        let base = valid_of_kind(w, rng, *k, key, ki);
        let (nb, na) = (base.ee.nb, base.ee.na);
        let t = if wall { w.now } else { T_IN };
        let variants: Vec<EeSpec> = vec![
            EeSpec { nb, na: t - 86_400, ..base.ee.clone() },          // expired
            EeSpec { nb: t + 86_400, na, ..base.ee.clone() },          // not yet valid
            EeSpec { signer: 5, aki: 5, ..base.ee.clone() },           // issued by somebody else
            EeSpec { signer: 5, aki: 0, ..base.ee.clone() },           // names the issuer, signed by somebody else
            EeSpec { signer: base.ee.key, aki: 0, ..base.ee.clone() }, // names the issuer, self-signed
        ];
        for (vi, ee) in variants.into_iter().enumerate() {
            let mut c = base.clone();
            c.ee = ee;
            c.strict = (vi + ki) % 2 == 0;
            out.push(c);
        }
    }
    // overclaim under Refuse for generic / manifest
    for k in [Kind::Generic, Kind::Manifest] {
        let mut c = valid_of_kind(w, rng, k, key, 0);
        c.ee = EeSpec { trim: false, v4: Res::Blocks(vec![v4r(a4(10, 0, 0, 0), a4(10, 128, 0, 0))]), v6: Res::Missing, asn: Res::Missing, ..c.ee };
        c.rel = "ee-overclaims-by-one-address".into();
        out.push(c);
        let mut c = valid_of_kind(w, rng, k, key, 0);
        c.ee = EeSpec { trim: false, asn: Res::Blocks(vec![asr(64496, 64512)]), v4: Res::Missing, v6: Res::Missing, ..c.ee };
        c.rel = "ee-overclaims-by-one-asn".into();
        out.push(c);
        let mut c = valid_of_kind(w, rng, k, key, 0);
        c.ee = EeSpec { trim: false, asn: Res::Blocks(vec![asr(64496, 64511)]), v4: Res::Blocks(vec![v4r(a4(10, 0, 0, 0), a4(10, 127, 255, 255))]), v6: Res::Missing, ..c.ee };
        c.rel = "ee-claims-exactly-issuer-blocks".into();
        out.push(c);
    }

    // ---- evaluation time against the EE window (validate_at paths)
    for k in [Kind::Generic, Kind::Manifest] {
        for (ti, t) in [T_NB - 1, T_NB, T_NB + 1, T_IN, T_NA - 1, T_NA, T_NA + 1].iter().enumerate() {
            let mut c = valid_of_kind(w, rng, k, key, ti);
            c.eval = Eval::At(*t);
            c.strict = ti % 2 == 0;
            c.rel = format!(
                "time-{}",
                ["before-notBefore-1s", "at-notBefore", "after-notBefore-1s", "inside", "before-notAfter-1s", "at-notAfter", "after-notAfter-1s"][ti]
            );
            out.push(c);
        }
    }

    // ---- BER re-encodings: relaxed asserted, strict recorded
    for (bi, ber) in ber_variants().into_iter().enumerate() {
        for (ki, k) in KINDS.iter().enumerate() {
            if (bi + ki) % 2 == 1 && round % 2 == 0 || (bi + ki) % 2 == 0 && round % 2 == 1 {
                continue;
            }
            let mut c = valid_of_kind(w, rng, *k, key, bi + ki);
            c.ber = ber.clone();
            c.strict = false;
            out.push(c.clone());
            c.strict = true;
            c.assert_outcome = false;
            c.why_recorded = "ber-in-strict-mode";
            out.push(c);
        }
    }

    // ---- CRL callback
    for k in [Kind::Roa, Kind::Aspa, Kind::Generic] {
        for crl_ok in [true, false] {
            for strict in [true, false] {
                let mut c = valid_of_kind(w, rng, k, key, 2);
                if k == Kind::Generic {
                    c.ee = ee_inherit(key, Some(w.now));
                }
                c.eval = Eval::Process { crl_ok };
                c.strict = strict;
                out.push(c);
            }
        }
        // an invalid object must stay rejected whatever the callback says
        let mut c = valid_of_kind(w, rng, k, key, 3);
        if k == Kind::Generic {
            c.ee = ee_inherit(key, Some(w.now));
        }
        c.eval = Eval::Process { crl_ok: true };
        c.tamper = Tamper::DigestBitFlip;
        out.push(c);
    }
    out
}

/// Unsorted attribute orders: a correct implementation verifies either over
/// the DER (sorted) re-encoding or over the octets as transmitted. The case is
/// run under both signing conventions; in relaxed mode at least one must be
/// accepted, everything else is recorded.
fn run_unsorted(ctx: &mut Ctx, w: &mut World, c: &Case) {
    let mut a = c.clone();
    a.assert_outcome = false;
    a.why_recorded = "unsorted-signed-as-emitted";
    a.sign_der = false;
    let mut b = c.clone();
    b.assert_outcome = false;
    b.why_recorded = "unsorted-signed-der-sorted";
    b.sign_der = true;
    let ra = run_case(ctx, w, &a);
    let rb = run_case(ctx, w, &b);
    if let (Some(ra), Some(rb)) = (ra, rb) {
        if !c.strict && !ra && !rb {
            let built = build(w, &a);
            ctx.violation(
                "C02:valid-rejected:relaxed:unsorted-attrs-under-both-signature-inputs",
                "an object whose signed attributes are not in DER order was rejected in relaxed mode both when signed over the transmitted order and when signed over the DER order",
                case_json(w, &a, &built),
            );
        }
    }
}

//------------ what the signed content says, read independently --------------

fn bits_to_range(data: &[u8], n: &der::Node) -> Option<(u128, u128, u8)> {
    let c = n.content(data);
    if n.tag != der::T_BITSTRING || c.is_empty() || c.len() > 17 || c[0] > 7 || (c.len() == 1 && c[0] != 0) {
        return None;
    }
    let nbits = (c.len() as u32 - 1) * 8 - c[0] as u32;
    let mut v: u128 = 0;
    for b in &c[1..] {
        v = (v << 8) | *b as u128;
    }
    if c.len() > 1 {
        v <<= 128 - 8 * (c.len() as u32 - 1);
    }
    let p = Pfx { addr: v, len: nbits as u8 };
    Some((p.min(), p.max(), nbits as u8))
}

fn small_uint(data: &[u8], n: &der::Node) -> Option<u64> {
    let c = n.content(data);
    if n.tag != der::T_INTEGER || c.is_empty() || c.len() > 9 || c[0] & 0x80 != 0 {
        return None;
    }
    let mut v: u128 = 0;
    for b in c {
        v = (v << 8) | *b as u128;
    }
    u64::try_from(v).ok()
}

/// Every prefix written anywhere in a ROA eContent: (asID, [(is_v4, first, last, maxLength)]).
fn read_roa(content: &[u8]) -> Option<(u32, Vec<(bool, u128, u128, Option<u8>)>)> {
    let root = der::parse(content)?;
    let mut kids = root.children.iter().peekable();
    if kids.peek()?.tag == der::ctx(0) {
        kids.next();
    }
    let asn = u32::try_from(small_uint(content, kids.next()?)?).ok()?;
    let fams = kids.next()?;
    let mut out = Vec::new();
    for f in &fams.children {
        let afi = f.child(0)?.content(content);
        let is_v4 = match afi {
            [0, 1] => true,
            [0, 2] => false,
            _ => return None,
        };
        for a in &f.child(1)?.children {
            let (lo, hi, _) = bits_to_range(content, a.child(0)?)?;
            let ml = match a.child(1) {
                Some(n) => Some(u8::try_from(small_uint(content, n)?).ok()?),
                None => None,
            };
            out.push((is_v4, lo, hi, ml));
        }
    }
    Some((asn, out))
}

/// (customer, providers as written) of an ASPA eContent.
fn read_aspa(content: &[u8]) -> Option<(u32, Vec<u32>)> {
    let root = der::parse(content)?;
    let mut kids = root.children.iter().peekable();
    if kids.peek()?.tag == der::ctx(0) {
        kids.next();
    }
    let customer = u32::try_from(small_uint(content, kids.next()?)?).ok()?;
    let mut provs = Vec::new();
    for p in &kids.next()?.children {
        provs.push(u32::try_from(small_uint(content, p)?).ok()?);
    }
    Some((customer, provs))
}

/// (manifestNumber left-padded to 20 octets, [(file, hash)] as written) of a manifest eContent.
#[allow(clippy::type_complexity)]
fn read_manifest(content: &[u8]) -> Option<([u8; 20], Vec<(Vec<u8>, Vec<u8>)>)> {
    let root = der::parse(content)?;
    let mut kids = root.children.iter().peekable();
    if kids.peek()?.tag == der::ctx(0) {
        kids.next();
    }
    let num = kids.next()?;
    let mut mag = num.content(content);
    while mag.len() > 1 && mag[0] == 0 {
        mag = &mag[1..];
    }
    if num.tag != der::T_INTEGER || mag.len() > 20 {
        return None;
    }
    let mut number = [0u8; 20];
    number[20 - mag.len()..].copy_from_slice(mag);
    let (_tu, _nu, _alg) = (kids.next()?, kids.next()?, kids.next()?);
    let mut files = Vec::new();
    for e in &kids.next()?.children {
        let name = e.child(0)?.content(content).to_vec();
        let h = e.child(1)?.content(content);
        if h.is_empty() {
            return None;
        }
        files.push((name, h[1..].to_vec()));
    }
    Some((number, files))
}

fn norm<T: Ord + Clone>(v: &[T]) -> Vec<T> {
    let mut v = v.to_vec();
    v.sort();
    v.dedup();
    v
}

/// An accepted object must hand the caller what its signed content says:
/// nothing that was written may be missing from the accessors and nothing
/// may appear that was not written.
fn check_reported(ctx: &mut Ctx, kind: Kind, content: &[u8], seen: &Seen, detail: impl FnOnce() -> Value) {
    if !seen.accepted {
        return;
    }
    let diff: Option<(Value, Value)> = match (kind, &seen.reported) {
        (Kind::Roa, Reported::Roa(asn, got)) => match read_roa(content) {
            None => {
                ctx.obs("reported_not_compared_content_unreadable", 1);
                None
            }
            Some((wasn, want)) => {
                ctx.obs("reported_compared_roa", 1);
                let f = |v: &[(bool, u128, u128, Option<u8>)]| -> Value {
                    Value::Array(norm(v).iter().map(|(v4, lo, hi, ml)| json!({"v4": v4, "first": format!("{:032x}", lo), "last": format!("{:032x}", hi), "max_length": ml})).collect())
                };
                if *asn != wasn || norm(got) != norm(&want) {
                    Some((json!({"as_id": wasn, "prefixes": f(&want)}), json!({"as_id": asn, "prefixes": f(got)})))
                } else {
                    None
                }
            }
        },
        (Kind::Aspa, Reported::Aspa(customer, provs)) => match read_aspa(content) {
            None => {
                ctx.obs("reported_not_compared_content_unreadable", 1);
                None
            }
            Some((wc, wp)) => {
                ctx.obs("reported_compared_aspa", 1);
                if *customer != wc || norm(provs) != norm(&wp) {
                    Some((json!({"customer": wc, "providers": wp}), json!({"customer": customer, "providers": provs})))
                } else {
                    None
                }
            }
        },
        (Kind::Manifest, Reported::Manifest(number, len, files)) => match read_manifest(content) {
            None => {
                ctx.obs("reported_not_compared_content_unreadable", 1);
                None
            }
            Some((wn, wf)) => {
                ctx.obs("reported_compared_manifest", 1);
                let f = |v: &[(Vec<u8>, Vec<u8>)]| -> Value { Value::Array(v.iter().map(|(n, h)| json!([String::from_utf8_lossy(n), hex(h)])).collect()) };
                if *number != wn || *files != wf || *len != wf.len() {
                    Some((json!({"number": hex(&wn), "files": f(&wf)}), json!({"number": hex(number), "len": len, "files": f(files)})))
                } else {
                    None
                }
            }
        },
        _ => None,
    };
    ctx.eval();
    if let Some((written, reported)) = diff {
        let mut d = detail();
        d["written_in_signed_content"] = written;
        d["reported_by_accessors"] = reported;
        ctx.violation(
            &format!("C02:accepted-content-misreported:{}", kind.name()),
            &format!("an accepted {} reports something else than what its signed content says (entries dropped, added or changed)", kind.name()),
            d,
        );
    }
}

//------------ eContent in shapes the library's builders cannot produce ------

/// A prefix of the family inside `[lo, hi]` (value space) containing `a`.
fn prefix_inside(rng: &mut Rng, is_v4: bool, lo: u128, hi: u128, a: u128) -> Pfx {
    let fam_bits: u8 = if is_v4 { 32 } else { 128 };
    let mut ok: Vec<u8> = Vec::new();
    for len in (0..=fam_bits).rev() {
        let p = Pfx { addr: a, len };
        let p = Pfx { addr: p.min(), len };
        let pmax = if is_v4 { p.min() | ((1u128 << (128 - len as u32)).wrapping_sub(1)) } else { p.max() };
        let pmax = if len == 0 { u128::MAX } else { pmax };
        if p.min() >= lo && pmax <= hi {
            ok.push(len);
        } else {
            break;
        }
    }
    let len = if ok.is_empty() { fam_bits } else { *rng.pick(&ok) };
    let p = Pfx { addr: a, len };
    Pfx { addr: p.min(), len }
}

/// (case, shape label, written the way the profile prescribes)
fn roa_shape(w: &World, rng: &mut Rng, key: usize) -> (Case, String, bool) {
    let ee = if rng.chance(1, 3) { ee_roa_trim(key, w.now) } else { ee_roa_std(key, w.now) };
    let (v4, v6, _) = w.validated(&ee).unwrap();
    let nf = *rng.pick(&[0usize, 1, 2, 2, 2, 2, 3, 3]);
    let mut fams: Vec<RoaFamily> = Vec::new();
    let mut label: Vec<String> = Vec::new();
    let mut canonical = nf > 0;
    for _ in 0..nf {
        let is_v4 = rng.bool();
        let set = if is_v4 { &v4 } else { &v6 };
        let unit: u128 = if is_v4 { 1u128 << 96 } else { 1 };
        let fam_bits: u8 = if is_v4 { 32 } else { 128 };
        let k = *rng.pick(&[0usize, 1, 1, 1, 2, 3]);
        let mut addrs: Vec<(Pfx, Option<u8>)> = Vec::new();
        let mut outside = false;
        for _ in 0..k {
            let (lo, hi) = *rng.pick(&set.iv);
            let span = (hi - lo) / unit;
            let a = lo + (if span == 0 { 0 } else { rng.next_u128() % (span + 1) }) * unit;
            let p = if rng.chance(1, 4) {
                outside = true;
                match rng.below(3) {
                    0 => Pfx { addr: hi.wrapping_add(1) & !(unit - 1), len: fam_bits },
                    1 => Pfx { addr: lo.wrapping_sub(unit), len: fam_bits },
                    _ => {
                        // the smallest prefix around the whole block, one bit shorter
                        let inner = prefix_inside(rng, is_v4, lo, hi, lo);
                        let len = inner.len.saturating_sub(1 + rng.below(3) as u8);
                        let q = Pfx { addr: lo, len };
                        Pfx { addr: q.min(), len }
                    }
                }
            } else {
                prefix_inside(rng, is_v4, lo, hi, a)
            };
            let ml = if rng.bool() { Some(rng.range(p.len as u64, fam_bits as u64) as u8) } else { None };
            addrs.push((p, ml));
        }
        if k > 0 && rng.chance(1, 10) {
            let d = addrs[0];
            addrs.push(d);
        }
        if k == 0 {
            canonical = false;
        }
        label.push(format!("{}{}{}", if is_v4 { "4" } else { "6" }, if k == 0 { "-empty" } else { "" }, if outside { "-outside" } else { "" }));
        fams.push(if is_v4 { RoaFamily::v4(addrs) } else { RoaFamily::v6(addrs) });
    }
    let n4 = fams.iter().filter(|f| f.afi == [0, 1]).count();
    let n6 = fams.len() - n4;
    if n4 > 1 || n6 > 1 || (fams.len() == 2 && fams[0].afi == [0, 2]) {
        canonical = false;
    }
    let mut c = roa_case(w, ee, "econtent-shape", fams, rng.next_u32());
    c.strict = rng.bool();
    let trim = c.ee.trim;
    (c, format!("families=[{}]{}", label.join(","), if trim { " trim-ee" } else { "" }), canonical)
}

fn aspa_shape(w: &World, rng: &mut Rng, key: usize) -> (Case, String, bool) {
    let ee = ee_aspa_std(key, w.now);
    let (_, _, asn) = w.validated(&ee).unwrap();
    let (lo, hi) = *rng.pick(&asn.iv);
    let inside = !rng.chance(1, 4);
    let customer = if inside { lo + rng.next_u64() as u128 % (hi - lo + 1) } else if rng.bool() { hi + 1 } else { lo.wrapping_sub(1) } as u32;
    let mut provs: Vec<u32> = (0..1 + rng.usize_below(5)).map(|_| rng.next_u32()).filter(|p| *p != customer).collect();
    provs.push(customer.wrapping_add(9));
    provs.sort();
    provs.dedup();
    let (how, canonical) = match rng.below(8) {
        0 => {
            provs.reverse();
            ("providers-descending", provs.len() < 2)
        }
        1 => {
            let d = provs[0];
            provs.insert(0, d);
            ("provider-twice-adjacent", false)
        }
        2 => {
            let d = provs[0];
            provs.push(d);
            ("provider-twice-apart", false)
        }
        3 => {
            provs.push(customer);
            ("customer-among-providers-last", false)
        }
        4 => {
            provs.insert(0, customer);
            ("customer-among-providers-first", false)
        }
        5 => {
            provs.clear();
            ("no-providers", false)
        }
        _ => ("providers-ascending", true),
    };
    let mut c = aspa_case(w, ee, "econtent-shape", customer, &provs);
    c.strict = rng.bool();
    (c, format!("{} customer-{}", how, if inside { "inside" } else { "outside" }), canonical)
}

fn manifest_shape(rng: &mut Rng, key: usize) -> (Case, String, bool) {
    let n = rng.usize_below(5);
    let exts = ["roa", "cer", "crl", "asa", "gbr"];
    let mut entries: Vec<cms::MftEntry> = (0..n)
        .map(|i| {
            let name = format!("{}{:x}_{}.{}", ["a", "Zz", "obj-"][i % 3], rng.next_u32(), i, exts[rng.usize_below(exts.len())]);
            cms::MftEntry::new(name.as_bytes(), &rng.bytes(32))
        })
        .collect();
    let mut number: Vec<u8> = rng.range(1, u32::MAX as u64).to_be_bytes().to_vec();
    let mut tu = T_IN - 3600;
    let nu = T_IN + 86_400;
    let (how, canonical) = match rng.below(9) {
        0 if n > 0 => {
            let d = entries[0].clone();
            entries.push(d);
            ("entry-twice", false)
        }
        1 if n > 0 => {
            let mut d = entries[0].clone();
            d.hash = rng.bytes(32);
            entries.insert(0, d);
            ("same-name-two-hashes", false)
        }
        2 if n > 1 => {
            entries.reverse();
            ("entries-reordered", true)
        }
        3 => {
            number = vec![0];
            ("number-zero", true)
        }
        4 => {
            number = rng.bytes(20);
            number[0] &= 0x7F;
            number[0] |= 0x40;
            ("number-20-octets", true)
        }
        5 => {
            tu = nu;
            ("this-update-equals-next-update", true)
        }
        _ => ("plain", true),
    };
    let content = cms::manifest_econtent_raw(&number, &cms::gentime(tu), &cms::gentime(nu), &der::oid(der::OID_SHA256), &entries);
    let mut c = Case::new(Kind::Manifest, ee_inherit(key, None), der::oid(der::OID_CT_MANIFEST), content, Eval::At(T_IN));
    c.rel = "econtent-shape".into();
    c.strict = rng.bool();
    (c, format!("{} entries={}", how, if entries.is_empty() { "0" } else if entries.len() == 1 { "1" } else { "many" }), canonical)
}

/// ROA / ASPA / manifest contents written by the independent encoder in
/// shapes the library's own builders never produce (an address family more
/// than once and in any order, empty lists, repeated or unsorted members,
/// extreme manifest numbers). Such an object may be rejected. If it is
/// accepted, everything in the signed content counts: every prefix written in
/// any family entry must lie inside the EE certificate's validated resources,
/// and the accessors must report exactly what was written.
fn run_econtent_shapes(ctx: &mut Ctx, w: &mut World, budget: u64) {
    let mut rng = ctx.rng("econtent-shapes");
    for i in 0..budget {
        let key = 1 + (i as usize % 2);
        let (c, label, canonical) = match rng.below(8) {
            0..=4 => roa_shape(w, &mut rng, key),
            5 | 6 => aspa_shape(w, &mut rng, key),
            _ => manifest_shape(&mut rng, key),
        };
        let b = build(w, &c);
        let Some(seen) = evaluate(ctx, w, c.kind, &b.bytes, c.strict, c.eval, &c.ee) else { continue };
        ctx.eval();
        let mode = if c.strict { "strict" } else { "relaxed" };
        ctx.sig(&format!("econtent-shape {} {} {} covered={}", c.kind.name(), label, mode, c.cov_ok));
        ctx.obs(&format!("econtent_shape:{}:{}", c.kind.name(), if seen.accepted { "accepted" } else { "rejected" }), 1);
        if seen.accepted && !canonical {
            ctx.obs(&format!("econtent_shape_unusual_accepted:{}", c.kind.name()), 1);
        }
        ctx.sample(&format!("f:econtent-shape:{}:{}", c.kind.name(), if seen.accepted { "accepted" } else { "rejected" }), || {
            json!({"kind": c.kind.name(), "shape": label, "strict": c.strict, "all_covered": c.cov_ok, "content": hex(&c.content),
                   "observed": if seen.accepted { "accepted".to_string() } else { format!("rejected: {}", seen.err) }})
        });
        let detail = |w: &World| {
            let mut d = case_json(w, &c, &b);
            d["shape"] = json!(label);
            d["content"] = json!(hex(&c.content));
            d
        };
        if seen.accepted && !c.cov_ok {
            ctx.violation(
                &format!("C02:invalid-accepted:uncovered:econtent-shape:{}", c.kind.name()),
                &format!("a {} whose signed content names a prefix / customer AS outside the EE certificate's validated resources was accepted in {} mode", c.kind.name(), mode),
                detail(w),
            );
        } else if !seen.accepted && canonical && c.cov_ok {
            let mut d = detail(w);
            d["observed_error"] = json!(seen.err);
            ctx.violation(
                &format!("C02:valid-rejected:econtent-shape:{}", c.kind.name()),
                &format!("a {} meeting every condition of the statement was rejected in {} mode: {}", c.kind.name(), mode, seen.err),
                d,
            );
        }
        check_reported(ctx, c.kind, &c.content, &seen, || detail(w));
    }
}

//------------ signer identifier shapes ---------------------------------------

/// All the ways the harness writes a signer identifier of `content` octets:
/// (name, TLV replacing the `[0]` sid).
fn sid_encodings(content: &[u8], rng: &mut Rng) -> Vec<(String, Vec<u8>)> {
    let n = content.len();
    let cons = |sizes: &[usize]| -> Vec<u8> {
        let mut body = Vec::new();
        let mut pos = 0;
        for s in sizes {
            body.extend_from_slice(&der::octets(&content[pos..pos + s]));
            pos += s;
        }
        body
    };
    let mut out: Vec<(String, Vec<u8>)> = vec![("prim".into(), der::tlv(der::ctx_prim(0), content))];
    out.push((format!("cons:1x{}", n), der::tlv(der::ctx(0), &cons(&[n]))));
    if n >= 2 {
        out.push((format!("cons:{}+{}", n / 2, n - n / 2), der::tlv(der::ctx(0), &cons(&[n / 2, n - n / 2]))));
        let a = 1 + rng.usize_below(n - 1);
        out.push(("cons:random-split".into(), der::tlv(der::ctx(0), &cons(&[a, n - a]))));
        // a constructed piece inside the constructed string
        let inner = der::tlv(der::T_OCTETSTRING | 0x20, &cons(&[1, n / 2 - 1]));
        let mut body = inner;
        body.extend_from_slice(&der::octets(&content[n / 2..]));
        out.push(("cons:nested".into(), der::tlv(der::ctx(0), &body)));
    }
    if n > 20 {
        out.push((format!("cons:20+{}", n - 20), der::tlv(der::ctx(0), &cons(&[20, n - 20]))));
        out.push((format!("cons:{}+20", n - 20), der::tlv(der::ctx(0), &cons(&[n - 20, 20]))));
    }
    out.push(("cons:empty-piece-first".into(), der::tlv(der::ctx(0), &cons(&[0, n]))));
    out.push(("cons:indefinite".into(), der::tlv_indefinite(der::ctx_prim(0), &cons(&[n / 2, n - n / 2]))));
    out
}

/// The signer identifier must EQUAL the EE certificate's subject key
/// identifier. Valid objects of every kind get their sid (not covered by any
/// signature) rewritten: every length other than 20 with the right octets in
/// front or at the end, primitive and in every constructed (BER)
/// segmentation, decoded strict and relaxed — all must be rejected. The right
/// 20 octets in a constructed encoding satisfy the statement; what the
/// library does with them is recorded.
fn run_sid_shapes(ctx: &mut Ctx, w: &mut World) {
    let mut rng = ctx.rng("sid-shapes");
    let mut idx = 0u64;
    for (ki, kind) in KINDS.iter().enumerate() {
        let key = 1 + ki % 2;
        let c = valid_of_kind(w, &mut rng, *kind, key, ki);
        let b = build(w, &c);
        let ski = cms::ski_of_spki(&w.pool.key(key).spki);
        let Some(root) = der::parse(&b.bytes) else { continue };
        // ContentInfo -> [0] -> SignedData -> signerInfos (last) -> SignerInfo -> sid
        let Some(sd) = root.path(&[1, 0]) else { continue };
        let si_idx = sd.children.len() - 1;
        let path = [1usize, 0, si_idx, 0, 1];
        match root.path(&path) {
            Some(n) if n.tag == der::ctx_prim(0) && n.content(&b.bytes) == &ski[..] => {}
            _ => {
                ctx.obs("sid_shape_base_layout_unexpected", 1);
                continue;
            }
        }
        // the untouched object must be accepted, otherwise nothing can be said
        match evaluate(ctx, w, c.kind, &b.bytes, false, c.eval, &c.ee) {
            Some(s) if s.accepted => {}
            _ => {
                ctx.obs("sid_shape_base_not_accepted", 1);
                continue;
            }
        }
        let mut variants: Vec<(String, Vec<u8>, bool)> = Vec::new(); // (label, sid octets, equals the SKI)
        for len in [0usize, 1, 10, 19, 21, 24, 32, 40] {
            for anchor in ["prefix", "suffix"] {
                if len == 0 && anchor == "suffix" {
                    continue;
                }
                let pad = rng.bytes(20);
                let content: Vec<u8> = match (len < 20, anchor) {
                    (true, "prefix") => ski[..len].to_vec(),
                    (true, _) => ski[20 - len..].to_vec(),
                    (false, "prefix") => [&ski[..], &pad[..len - 20]].concat(),
                    (false, _) => [&pad[..len - 20], &ski[..]].concat(),
                };
                variants.push((format!("len{}-ski-as-{}", len, anchor), content, false));
            }
        }
        variants.push(("len40-ski-twice".into(), [&ski[..], &ski[..]].concat(), false));
        variants.push(("len20-halves-swapped".into(), [&ski[10..], &ski[..10]].concat(), false));
        let mut flipped = ski.clone();
        flipped[rng.usize_below(20)] ^= 1 << rng.below(8);
        variants.push(("len20-one-bit-off".into(), flipped, false));
        variants.push(("len20-right-value".into(), ski.clone(), true));
        for (label, content, equal) in variants {
            for (enc, tlv) in sid_encodings(&content, &mut rng) {
                if equal && enc == "prim" {
                    continue;
                }
                for strict in [true, false] {
                    idx += 1;
                    if !ctx.mine(idx) {
                        continue;
                    }
                    let bytes = der::replace_node(&b.bytes, &root, &path, &tlv);
                    let Some(seen) = evaluate(ctx, w, c.kind, &bytes, strict, c.eval, &c.ee) else { continue };
                    ctx.eval();
                    let mode = if strict { "strict" } else { "relaxed" };
                    let enc_class = if enc == "prim" { "prim" } else { "cons" };
                    ctx.sig(&format!("sid-shape {} {} {} {}", kind.name(), label, enc, mode));
                    ctx.obs(&format!("sid_shape:{}:{}:{}", if equal { "right-value" } else { "wrong-value" }, enc_class, if seen.accepted { "accepted" } else { "rejected" }), 1);
                    ctx.sample(&format!("g:sid-shape:{}", if equal { "right-value" } else { "wrong-value" }), || {
                        json!({"kind": kind.name(), "sid": label, "encoding": enc, "strict": strict, "sid_tlv": hex(&tlv),
                               "observed": if seen.accepted { "accepted".to_string() } else { format!("rejected: {}", seen.err) }})
                    });
                    if equal {
                        ctx.obs(&format!("recorded:sid-right-value-constructed-{}:{}", mode, if seen.accepted { "accepted" } else { "rejected" }), 1);
                    } else if seen.accepted {
                        ctx.violation(
                            &format!("C02:invalid-accepted:sid-{}-{}", label, enc_class),
                            &format!("a {} whose signer identifier ({}, {}) is not equal to the EE certificate's subject key identifier was accepted in {} mode", kind.name(), label, enc, mode),
                            json!({"kind": kind.name(), "sid_octets": hex(&content), "ee_ski": hex(&ski), "encoding": enc, "sid_tlv": hex(&tlv), "strict": strict, "object": hex(&bytes), "wall_clock_now": w.now}),
                        );
                    }
                }
            }
        }
    }
}

//------------ bit flips ------------------------------------------------------

fn flip_objects(w: &World, rng: &mut Rng) -> Vec<Case> {
    let key = 1;
    let mut v = vec![
        valid_of_kind(w, rng, Kind::Roa, key, 0),
        valid_of_kind(w, rng, Kind::Aspa, key, 0),
        manifest_case(rng, key, T_IN),
        generic_case(rng, key, der::oid(der::OID_CT_GHOSTBUSTERS), T_IN),
    ];
    for total in [200usize, 300] {
        if let Some(ct) = ct_for_total(total, 3) {
            let mut c = generic_case(rng, key, ct, T_IN);
            c.rel = format!("attrs-total-{}", total);
            v.push(c);
        }
    }
    v
}

fn run_flips(ctx: &mut Ctx, w: &mut World, budget: u64, exhaustive: bool) {
    let mut rng = ctx.rng("flip-objects");
    let objs = flip_objects(w, &mut rng);
    let mut rng = ctx.rng("flip-positions");
    let per_obj = (budget / objs.len() as u64).max(8);
    for (oi, c) in objs.iter().enumerate() {
        let b = build(w, c);
        let Some(layout) = cms::locate(&b.bytes) else {
            ctx.notes.push(format!("flip object {} has an unexpected layout; skipped", oi));
            continue;
        };
        let Some(base) = evaluate(ctx, w, c.kind, &b.bytes, false, c.eval, &c.ee) else { continue };
        if !base.accepted {
            // cannot say anything about tampering of an object that is not accepted in the first place
            ctx.obs("flip_base_objects_not_accepted", 1);
            ctx.notes.push(format!(
                "bit flips skipped for base object {} ({}, signed attributes {} octets): the untouched object is rejected ({})",
                oi,
                c.kind.name(),
                b.attrs_len,
                base.err
            ));
            continue;
        }
        ctx.obs("flip_base_objects", 1);
        let covered = layout.covered_positions();
        let mut todo: Vec<(usize, u8)> = Vec::new();
        if exhaustive {
            // every bit of every covered octet, split over the shards
            for (i, p) in covered.iter().enumerate() {
                if ctx.mine(i as u64) {
                    for bit in 0..8 {
                        todo.push((*p, bit));
                    }
                }
            }
        } else {
            // at least one flip in every region, then random covered positions
            let mut seen: Vec<&str> = Vec::new();
            for p in &covered {
                let r = layout.region(*p).unwrap();
                if !seen.contains(&r) {
                    seen.push(r);
                    todo.push((*p, rng.below(8) as u8));
                }
            }
            while (todo.len() as u64) < per_obj {
                todo.push((*rng.pick(&covered), rng.below(8) as u8));
            }
        }
        let mut evals = 0u64;
        for (pos, bit) in todo {
            let region = layout.region(pos).unwrap();
            let flipped = cms::flip(&b.bytes, pos, bit);
            let strict = (pos + bit as usize) % 2 == 0;
            let Some(seen) = evaluate(ctx, w, c.kind, &flipped, strict, c.eval, &c.ee) else { continue };
            evals += 1;
            ctx.obs(&format!("flip:{}:{}", region, if !seen.decoded { "undecodable" } else if seen.accepted { "accepted" } else { "rejected" }), 1);
            if seen.accepted {
                ctx.violation(
                    &format!("C02:bit-flip-accepted:{}", region),
                    &format!("a {} with one bit flipped inside {} (covered by digest or signature) was still accepted", c.kind.name(), region),
                    json!({"kind": c.kind.name(), "byte": pos, "bit": bit, "region": region, "strict": strict, "original": hex(&b.bytes), "flipped": hex(&flipped), "wall_clock_now": w.now}),
                );
            }
            if !exhaustive || (pos % 16 == 0 && bit == 0) {
                ctx.sig(&format!("flip {} region={} decoded={}", c.kind.name(), region, seen.decoded));
            }
            ctx.sample("d:flip:covered", || {
                json!({"kind": c.kind.name(), "byte": pos, "bit": bit, "region": region, "strict": strict,
                       "observed": if seen.accepted { "accepted".to_string() } else { format!("rejected: {}", seen.err) }})
            });
        }
        // uncovered positions: outcome only recorded
        let uncovered: Vec<usize> = (0..layout.total).filter(|p| layout.region(*p).is_none()).collect();
        let n_unc = if exhaustive { uncovered.len().min(40) } else { 12 };
        for _ in 0..n_unc {
            if uncovered.is_empty() {
                break;
            }
            let pos = *rng.pick(&uncovered);
            let bit = rng.below(8) as u8;
            let flipped = cms::flip(&b.bytes, pos, bit);
            if let Some(seen) = evaluate(ctx, w, c.kind, &flipped, false, c.eval, &c.ee) {
                evals += 1;
                ctx.obs(&format!("flip:uncovered:{}", if seen.accepted { "accepted" } else { "rejected" }), 1);
                if seen.accepted {
                    ctx.sample("d:flip:uncovered-accepted", || json!({"kind": c.kind.name(), "byte": pos, "bit": bit, "note": "position not covered by digest or signature; recorded only"}));
                }
            }
        }
        ctx.evals(evals);
    }
}

//------------ driver ---------------------------------------------------------

pub fn run(ctx: &mut Ctx) {
    if ctx.no_ffi() {
        ctx.notes.push("C02 needs aws-lc (signatures, digests); nothing to do under Miri".into());
        return;
    }
    let mut w = World::new();
    let thorough = ctx.tier == Tier::Thorough;
    let objects = ctx.stage_budget((60_000, 2_400_000), if thorough { 12_000 } else { 2_000 }, 0, 80);
    let mut rng = ctx.rng("cases");
    let mut done = 0u64;
    let mut g = 0u64;
    let mut round = 0u64;
    'outer: loop {
        let cases = round_cases(&w, &mut rng, round, ctx.tier == Tier::Thorough && ctx.stage == Stage::Native);
        for c in cases {
            let mine = ctx.mine(g);
            g += 1;
            if !mine {
                continue;
            }
            let unsorted = c.order.is_some() && !build_is_sorted(&c);
            if unsorted && c.tamper == Tamper::None {
                run_unsorted(ctx, &mut w, &c);
                done += 2;
            } else {
                run_case(ctx, &mut w, &c);
                done += 1;
            }
            if done >= objects {
                break 'outer;
            }
        }
        round += 1;
        if round > 10_000 {
            break;
        }
    }
    ctx.obs("rounds_started", round + 1);
    // contents and signer identifiers in shapes only an independent encoder produces
    let shapes = ctx.stage_budget((16_000, 200_000), if thorough { 4_000 } else { 800 }, 0, 40);
    run_econtent_shapes(ctx, &mut w, shapes);
    run_sid_shapes(ctx, &mut w);
    // bit flips
    let exhaustive = ctx.tier == Tier::Thorough && ctx.stage == Stage::Native;
    let flips = ctx.stage_budget((40_000, 0), if thorough { 16_000 } else { 3_000 }, 0, 1_600);
    run_flips(ctx, &mut w, flips, exhaustive);
    ctx.obs("ee_certificates_issued", w.ee_built);
    ctx.obs("signatures_by_pool_signer", w.pool.signatures.get());
}

/// Whether the emitted attribute order of a case happens to be the DER order.
fn build_is_sorted(c: &Case) -> bool {
    let base = [cms::attr_content_type(&c.ct), cms::attr_message_digest(&[0u8; 32]), cms::attr_signing_time(T_IN)];
    match &c.order {
        None => true,
        Some(p) => {
            let v: Vec<Vec<u8>> = p.iter().map(|i| base[*i].clone()).collect();
            cms::attrs_sorted(&v)
        }
    }
}
