//! C08 — RTR server answers depend on the query bytes, not on how they arrive.
//!
//! The real `Server::run` serves one scripted in-memory connection
//! (`c08_io.rs`) on a current-thread tokio runtime with paused time. For one
//! client byte stream the *reference* is the output for the stream delivered
//! in one piece without any notification. Every other schedule
//! (fragmentation x notify interleaving x output back-pressure) is a
//! *candidate*: its output is cut into PDUs by the parser below, Serial
//! Notify PDUs are checked (complete, not inside a response, not more than
//! notifications fired) and removed, and the rest must be byte-identical to
//! the reference. The reference itself is checked against a model written
//! from the statement: one complete response per well-formed query in order,
//! an Error PDU for the first malformed one.

// The scripted socket and step driver live in `c08_io.rs`; declared here so
// that `lib.rs` needs no extra line.
#[path = "c08_io.rs"]
pub mod io;
#[path = "c08_wide.rs"]
mod wide;

use self::io::{
    new_runtime, run_schedule, ConstSource, NotifyPos, Place, ReadLabel, RunOutcome, Schedule, SourceData, Step,
};
use crate::core::{hex, panic_location, splitmix64, Ctx, Rng, Stage, Tier};
use rpki::resources::addr::{MaxLenPrefix, Prefix};
use rpki::resources::asn::Asn;
use rpki::rtr::payload::{Action, Aspa, Payload, RouteOrigin, RouterKey, Timing};
use rpki::rtr::pdu::{ProviderAsns, RouterKeyInfo};
use rpki::rtr::state::State;
use serde_json::{json, Value};
use std::collections::BTreeMap;
use std::net::{IpAddr, Ipv4Addr, Ipv6Addr};
use std::sync::Arc;

const SESSION: u16 = 0x4242;
const SERIAL_NOW: u32 = 5;
const SERIAL_OLD: u32 = 4;

//------------ data source ----------------------------------------------------------

fn origin(addr: IpAddr, len: u8, max: u8, asn: u32) -> Payload {
    let prefix = Prefix::new(addr, len).expect("prefix");
    Payload::Origin(RouteOrigin::new(MaxLenPrefix::new(prefix, Some(max)).expect("maxlen"), Asn::from_u32(asn)))
}

struct SourceInfo {
    source: ConstSource,
    n_origins: usize,
    n_full: usize,
    n_diff: usize,
}

fn make_source(ready: bool) -> SourceInfo {
    let v4a = origin(IpAddr::V4(Ipv4Addr::new(192, 0, 2, 0)), 24, 24, 64496);
    let v4b = origin(IpAddr::V4(Ipv4Addr::new(10, 0, 0, 0)), 8, 16, 64497);
    let v6a = origin(IpAddr::V6(Ipv6Addr::new(0x2001, 0xdb8, 0, 0, 0, 0, 0, 0)), 32, 48, 64498);
    let key = Payload::RouterKey(RouterKey::new(
        [0x5au8; 20].into(),
        Asn::from_u32(64499),
        RouterKeyInfo::new(bytes::Bytes::from_static(b"not a real subject public key info")).expect("key info"),
    ));
    let aspa = Payload::Aspa(Aspa::new(
        Asn::from_u32(64500),
        ProviderAsns::try_from_iter([Asn::from_u32(64501), Asn::from_u32(64502)]).expect("providers"),
    ));
    let gone = origin(IpAddr::V4(Ipv4Addr::new(198, 51, 100, 0)), 24, 24, 64503);
    let full = vec![v4a.clone(), v4b, v6a.clone(), key, aspa];
    let diff = vec![(v4a, Action::Announce), (gone, Action::Withdraw), (v6a, Action::Announce)];
    let data = SourceData {
        ready,
        state: State::from_parts(SESSION, SERIAL_NOW.into()),
        diff_from: State::from_parts(SESSION, SERIAL_OLD.into()),
        timing: Timing { refresh: 300, retry: 60, expire: 900 },
        full,
        diff,
    };
    let n_full = data.full.len();
    let n_diff = data.diff.len();
    SourceInfo { source: ConstSource(Arc::new(data)), n_origins: 3, n_full, n_diff }
}

//------------ client streams --------------------------------------------------------

#[derive(Clone, Copy, Debug, PartialEq, Eq)]
enum Kind {
    Reset,
    SerialCurrent,
    SerialOld,
    SerialUnknown,
    /// Header-shaped but not an acceptable query.
    Malformed,
    /// An Error PDU sent by the client.
    ClientError,
    Garbage,
}

#[derive(Clone, Debug)]
struct Item {
    tag: String,
    bytes: Vec<u8>,
    kind: Kind,
    version: u8,
}

fn header(version: u8, typ: u8, session: u16, len: u32) -> Vec<u8> {
    let mut v = vec![version, typ];
    v.extend_from_slice(&session.to_be_bytes());
    v.extend_from_slice(&len.to_be_bytes());
    v
}

fn reset(version: u8) -> Item {
    Item { tag: format!("RQv{}", version), bytes: header(version, 2, 0, 8), kind: Kind::Reset, version }
}

fn serial(version: u8, which: &str) -> Item {
    let (session, ser, kind) = match which {
        "cur" => (SESSION, SERIAL_NOW, Kind::SerialCurrent),
        "old" => (SESSION, SERIAL_OLD, Kind::SerialOld),
        "sess" => (SESSION ^ 0x5555, SERIAL_NOW, Kind::SerialUnknown),
        _ => (SESSION, 0x8000_0001, Kind::SerialUnknown),
    };
    let mut bytes = header(version, 1, session, 12);
    bytes.extend_from_slice(&ser.to_be_bytes());
    Item { tag: format!("SQv{}{}", version, which), bytes, kind, version }
}

/// A header with an arbitrary type / length field followed by `extra` bytes.
fn odd(version: u8, typ: u8, len: u32, extra: usize) -> Item {
    let mut bytes = header(version, typ, 0x0102, len);
    for i in 0..extra {
        bytes.push(0xa0 + i as u8);
    }
    Item { tag: format!("T{}v{}len{}+{}", typ, version, len, extra), bytes, kind: Kind::Malformed, version }
}

fn client_error(version: u8) -> Item {
    let text = b"bye";
    let mut bytes = header(version, 10, 2, 8 + 4 + 4 + text.len() as u32);
    bytes.extend_from_slice(&0u32.to_be_bytes());
    bytes.extend_from_slice(&(text.len() as u32).to_be_bytes());
    bytes.extend_from_slice(text);
    Item { tag: format!("ERRv{}", version), bytes, kind: Kind::ClientError, version }
}

fn garbage(bytes: Vec<u8>) -> Item {
    Item { tag: format!("GB{}", bytes.len()), bytes, kind: Kind::Garbage, version: 0 }
}

struct Case {
    id: String,
    /// Item kinds only (what random streams are classified by).
    shape: String,
    items: Vec<Item>,
    bytes: Vec<u8>,
    labels: Vec<ReadLabel>,
    ready: bool,
    core: bool,
    /// Only well-formed queries: the consumption model (labels) is exact and
    /// the connection stays up until the client closes.
    exact: bool,
}

/// Labels every consumed-byte count with the place the server is in,
/// following the way the server is documented to frame its input (8-byte
/// header, a Serial Query of the right length has 4 more bytes). Used for
/// the evidence and for naming a failure, never for the verdict.
fn read_labels(stream: &[u8]) -> Vec<ReadLabel> {
    let mut labels = Vec::with_capacity(stream.len() + 1);
    let mut negotiated: Option<u8> = None;
    let mut pos = 0usize;
    let mut query = 0u8;
    let mut closed = false;
    while pos <= stream.len() {
        if closed {
            labels.push(ReadLabel { place: Place::Closed, query });
            pos += 1;
            continue;
        }
        labels.push(ReadLabel { place: Place::Idle, query });
        let rest = &stream[pos..];
        for i in 1..8.min(rest.len() + 1) {
            if pos + i <= stream.len() {
                labels.push(ReadLabel { place: Place::Header(i as u8), query });
            }
        }
        if rest.len() < 8 {
            break;
        }
        let version = rest[0];
        let typ = rest[1];
        let len = u32::from_be_bytes([rest[4], rest[5], rest[6], rest[7]]);
        pos += 8;
        let version_ok = match negotiated {
            Some(v) => v == version,
            None => {
                if version <= 2 {
                    negotiated = Some(version);
                    true
                } else {
                    false
                }
            }
        };
        if version_ok && typ == 1 && len == 12 {
            for i in 0..4 {
                if pos + i <= stream.len() {
                    labels.push(ReadLabel { place: Place::Payload(i as u8), query });
                }
            }
            if stream.len() < pos + 4 {
                break;
            }
            pos += 4;
        } else if version_ok && typ == 10 {
            closed = true;
        }
        query = query.saturating_add(1);
    }
    while labels.len() < stream.len() + 1 {
        labels.push(ReadLabel { place: Place::Closed, query });
    }
    labels.truncate(stream.len() + 1);
    labels
}

fn make_case(items: Vec<Item>, ready: bool, core: bool) -> Case {
    let mut bytes = Vec::new();
    for it in &items {
        bytes.extend_from_slice(&it.bytes);
    }
    let mut id = items.iter().map(|i| i.tag.clone()).collect::<Vec<_>>().join(",");
    if !ready {
        id.push_str("(source-not-ready)");
    }
    let shape = items
        .iter()
        .map(|i| format!("{:?}{}", i.kind, if i.kind == Kind::Garbage || i.kind == Kind::Malformed { String::new() } else { format!("v{}", i.version) }))
        .collect::<Vec<_>>()
        .join(",");
    let labels = read_labels(&bytes);
    let exact = items.iter().all(|i| matches!(i.kind, Kind::Reset | Kind::SerialCurrent | Kind::SerialOld | Kind::SerialUnknown));
    Case { id, shape, items, bytes, labels, ready, core, exact }
}

fn core_cases() -> Vec<Case> {
    let c = |items: Vec<Item>| make_case(items, true, true);
    vec![
        c(vec![reset(1), serial(1, "cur")]),
        c(vec![serial(0, "old"), reset(0)]),
        c(vec![reset(2), serial(2, "sess"), serial(2, "old")]),
        c(vec![reset(1), odd(1, 5, 8, 0), serial(1, "cur")]),
        c(vec![reset(1), reset(0), reset(1)]),
        c(vec![serial_with_len(1, 16), reset(1)]),
        c(vec![serial(2, "cur"), client_error(2), reset(2)]),
        c(vec![reset(3), reset(1)]),
        c(vec![garbage(vec![0xde, 0xad, 0xbe, 0xef, 0x01]), reset(1)]),
        c(vec![odd(0, 2, 12, 4), serial(0, "cur")]),
        // ---- thorough only from here
        c(vec![serial(1, "ser"), reset(1), serial(1, "cur"), reset(1)]),
        c(vec![reset(1), garbage(vec![0x01, 0x02, 0x00])]),
        c(vec![odd(1, 1, 8, 4), reset(1)]),
        c(vec![odd(1, 42, 12, 4), reset(1)]),
        c(vec![reset(2), serial(2, "old"), serial(2, "cur"), serial(2, "old")]),
        c(vec![reset(200), serial(200, "cur")]),
        make_case(vec![reset(1), serial(1, "cur")], false, true),
        c(vec![serial(1, "old")]),
        c(vec![reset(1)]),
        c(vec![client_error(1)]),
        c(vec![reset(1), serial(2, "cur"), reset(1)]),
        c(vec![serial(0, "cur"), odd(0, 3, 8, 0), serial(0, "old")]),
        c(vec![garbage((0u8..20).map(|i| i.wrapping_mul(37).wrapping_add(3)).collect())]),
        c(vec![reset(2), reset(2), reset(2), reset(2)]),
        c(vec![odd(1, 1, 0, 0), serial(1, "cur")]),
        c(vec![odd(2, 255, 0xffff_ffff, 3), reset(2)]),
    ]
}

/// A Serial Query (header + 4 bytes) whose length field is not 12.
fn serial_with_len(version: u8, len: u32) -> Item {
    let mut it = serial(version, "cur");
    it.bytes[4..8].copy_from_slice(&len.to_be_bytes());
    it.kind = Kind::Malformed;
    it.tag = format!("SQv{}len{}", version, len);
    it
}

fn random_item(rng: &mut Rng, version: u8) -> Item {
    match rng.below(16) {
        0 | 1 | 2 => reset(version),
        3 | 4 => serial(version, "cur"),
        5 | 6 => serial(version, "old"),
        7 => serial(version, "sess"),
        8 => serial(version, "ser"),
        9 => {
            // wrong-length query
            let typ = if rng.bool() { 1 } else { 2 };
            let len = *rng.pick(&[0u32, 7, 9, 12, 8, 16, 20, 0x0100_0008]);
            let len = if (typ == 1 && len == 12) || (typ == 2 && len == 8) { len + 4 } else { len };
            odd(version, typ, len, rng.usize_below(6))
        }
        10 => reset(*rng.pick(&[3u8, 4, 127, 255])),
        11 => {
            // version switch (or the same version again: then it is an ordinary query)
            let v = rng.below(3) as u8;
            if rng.bool() {
                reset(v)
            } else {
                serial(v, "cur")
            }
        }
        12 => odd(version, *rng.pick(&[0u8, 3, 4, 5, 6, 7, 8, 9, 11, 12, 42, 255]), *rng.pick(&[8u32, 12, 20, 0]), rng.usize_below(5)),
        13 => client_error(version),
        _ => {
            let n = rng.range(1, 20) as usize;
            garbage(rng.bytes(n))
        }
    }
}

fn random_case(seed: u64, index: u64) -> Case {
    let mut rng = Rng::derive(seed, &["C08", "stream"], &[index]);
    let version = rng.below(3) as u8;
    let n = rng.range(1, 4);
    let mut items = Vec::new();
    for i in 0..n {
        // bias the first item towards something that negotiates a version
        if i == 0 && rng.chance(2, 3) {
            items.push(if rng.bool() { reset(version) } else { serial(version, *rng.pick(&["cur", "old", "sess"])) });
        } else {
            items.push(random_item(&mut rng, version));
        }
    }
    let ready = !rng.chance(1, 12);
    make_case(items, ready, false)
}

//------------ PDU parser and oracles ---------------------------------------------------

#[derive(Clone, Copy, Debug)]
struct Pdu {
    version: u8,
    typ: u8,
    start: usize,
}

/// Cuts `data` into PDUs by their length fields. Returns the PDUs and the
/// offset where parsing stopped (== data.len() if everything was whole).
fn parse_pdus(data: &[u8]) -> (Vec<Pdu>, usize) {
    let mut pdus = Vec::new();
    let mut pos = 0;
    while data.len() - pos >= 8 {
        let len = u32::from_be_bytes([data[pos + 4], data[pos + 5], data[pos + 6], data[pos + 7]]) as usize;
        if len < 8 || data.len() - pos < len {
            break;
        }
        pdus.push(Pdu { version: data[pos], typ: data[pos + 1], start: pos });
        pos += len;
    }
    (pdus, pos)
}

fn describe_pdus(data: &[u8]) -> String {
    let (pdus, end) = parse_pdus(data);
    let mut s = String::new();
    for p in &pdus {
        let name = match p.typ {
            0 => "SerialNotify",
            3 => "CacheResponse",
            4 => "IPv4",
            6 => "IPv6",
            7 => "EndOfData",
            8 => "CacheReset",
            9 => "RouterKey",
            10 => "Error",
            11 => "ASPA",
            _ => "?",
        };
        if !s.is_empty() {
            s.push(' ');
        }
        if p.typ == 10 {
            let code = u16::from_be_bytes([data[p.start + 2], data[p.start + 3]]);
            s.push_str(&format!("Error(code {})", code));
        } else {
            s.push_str(name);
        }
    }
    if end < data.len() {
        s.push_str(&format!(" +{} unparsable bytes", data.len() - end));
    }
    s
}

#[derive(Debug)]
enum Finding {
    /// Output after removing Serial Notify differs from the reference.
    Differs,
    NotifyInsideResponse,
    NotifyIncomplete,
    NotifyTooMany { seen: usize, fired: usize },
    /// Fewer Serial Notify PDUs than notifications that were fired one by one
    /// at an idle connection.
    NotifyLost { seen: usize, owed: usize },
    /// Buffering socket: the server went back to waiting for the client with
    /// these bytes written but not flushed.
    Unflushed { delivered: usize, held: Vec<u8> },
}

struct Stripped {
    rest: Vec<u8>,
    notifies: usize,
    inside_response: bool,
    incomplete: bool,
}

/// Removes Serial Notify PDUs from a candidate output.
fn strip_notifies(out: &[u8]) -> Stripped {
    let mut res = Stripped { rest: Vec::with_capacity(out.len()), notifies: 0, inside_response: false, incomplete: false };
    let mut pos = 0;
    let mut in_response = false;
    while out.len() - pos >= 8 {
        let typ = out[pos + 1];
        let len = u32::from_be_bytes([out[pos + 4], out[pos + 5], out[pos + 6], out[pos + 7]]) as usize;
        if typ == 0 {
            // a Serial Notify is header + serial number
            if len != 12 || out.len() - pos < 12 {
                res.incomplete = true;
                break;
            }
            if in_response {
                res.inside_response = true;
            }
            res.notifies += 1;
            pos += 12;
            continue;
        }
        if len < 8 || out.len() - pos < len {
            break;
        }
        match typ {
            3 => in_response = true,
            7 => in_response = false,
            _ => {}
        }
        res.rest.extend_from_slice(&out[pos..pos + len]);
        pos += len;
    }
    res.rest.extend_from_slice(&out[pos..]);
    res
}

fn judge(reference: &[u8], candidate: &RunOutcome, fired: usize) -> Option<Finding> {
    let s = strip_notifies(&candidate.out);
    if let Some((delivered, held)) = &candidate.unflushed_while_idle {
        return Some(Finding::Unflushed { delivered: *delivered, held: held.clone() });
    }
    if s.incomplete {
        return Some(Finding::NotifyIncomplete);
    }
    if s.rest != reference {
        return Some(Finding::Differs);
    }
    if s.inside_response {
        return Some(Finding::NotifyInsideResponse);
    }
    if s.notifies > fired {
        return Some(Finding::NotifyTooMany { seen: s.notifies, fired });
    }
    if s.notifies < candidate.notifies_owed && !candidate.overflow {
        return Some(Finding::NotifyLost { seen: s.notifies, owed: candidate.notifies_owed });
    }
    None
}

#[derive(Default)]
struct RefStats {
    responses: u64,
    cache_resets: u64,
    error_pdus: u64,
    modelled_items: u64,
    /// Response PDUs whose version is not the one of the query (observation only).
    other_version_pdus: u64,
}

/// Model oracle on the reference output. Walks the items up to the first
/// one that is not a well-formed query; what the server does after its first
/// Error PDU (close, resynchronise, ...) is left open.
fn check_reference(case: &Case, info: &SourceInfo, out: &[u8], stats: &mut RefStats) -> Result<(), (&'static str, String)> {
    let (pdus, end) = parse_pdus(out);
    if end != out.len() {
        return Err(("reference-output-not-whole-pdus", format!("{} trailing bytes do not form a PDU", out.len() - end)));
    }
    if pdus.iter().any(|p| p.typ == 0) {
        return Err(("serial-notify-without-notification", "Serial Notify in a run without any notification".into()));
    }
    let mut idx = 0usize;
    let mut negotiated: Option<u8> = None;
    for (n, item) in case.items.iter().enumerate() {
        let is_query = matches!(item.kind, Kind::Reset | Kind::SerialCurrent | Kind::SerialOld | Kind::SerialUnknown);
        let expect_error = match item.kind {
            Kind::ClientError | Kind::Garbage => return Ok(()),
            Kind::Malformed => true,
            _ => match negotiated {
                Some(v) => v != item.version,
                None => {
                    if item.version <= 2 {
                        negotiated = Some(item.version);
                        false
                    } else {
                        true
                    }
                }
            },
        } || (is_query && !case.ready);
        stats.modelled_items += 1;
        let what = format!("item {} ({})", n, item.tag);
        if expect_error {
            return match pdus.get(idx) {
                Some(p) if p.typ == 10 => {
                    stats.error_pdus += 1;
                    Ok(())
                }
                Some(p) => Err(("malformed-query-without-error-pdu", format!("{}: expected an Error PDU, found PDU type {}", what, p.typ))),
                None => Err(("malformed-query-without-error-pdu", format!("{}: expected an Error PDU, output ended", what))),
            };
        }
        match item.kind {
            Kind::SerialUnknown => match pdus.get(idx) {
                Some(p) if p.typ == 8 => {
                    stats.cache_resets += 1;
                    idx += 1;
                }
                other => {
                    return Err(("query-without-complete-response", format!("{}: expected Cache Reset, found {:?}", what, other.map(|p| p.typ))))
                }
            },
            _ => {
                match pdus.get(idx) {
                    Some(p) if p.typ == 3 => idx += 1,
                    other => {
                        return Err(("query-without-complete-response", format!("{}: expected Cache Response, found {:?}", what, other.map(|p| p.typ))))
                    }
                }
                let mut payloads = 0usize;
                let first = idx - 1;
                loop {
                    match pdus.get(idx) {
                        Some(p) if matches!(p.typ, 4 | 6 | 9 | 11) => {
                            payloads += 1;
                            idx += 1;
                        }
                        Some(p) if p.typ == 7 => {
                            idx += 1;
                            break;
                        }
                        other => {
                            return Err((
                                "query-without-complete-response",
                                format!("{}: response not terminated by End of Data, found {:?}", what, other.map(|p| p.typ)),
                            ))
                        }
                    }
                }
                let (min, max) = match item.kind {
                    Kind::Reset => (info.n_origins, info.n_full),
                    Kind::SerialCurrent => (0, 0),
                    _ => (1, info.n_diff),
                };
                if payloads < min || payloads > max {
                    return Err(("response-payload-count", format!("{}: {} payload PDUs, source has {}..{}", what, payloads, min, max)));
                }
                stats.responses += 1;
                stats.other_version_pdus += pdus[first..idx].iter().filter(|p| p.version != item.version).count() as u64;
            }
        }
    }
    if idx != pdus.len() {
        return Err(("output-beyond-last-query", format!("{} PDUs after the response to the last query", pdus.len() - idx)));
    }
    Ok(())
}

//------------ schedule generators ---------------------------------------------------------

use Step::{Buffering as BUF, Deliver as D, DropSender as X, Grant as G, Notify as N, Settle as S, Unlimit as U, Vectored as VEC};

fn sched(steps: Vec<Step>) -> Schedule {
    Schedule { credit: None, settle_first: true, steps }
}

/// (a) + (d): one cut, notification before / at / after it.
fn class_a(len: usize, full: bool) -> Vec<(&'static str, Schedule)> {
    let mut v = Vec::new();
    for c in 0..=len {
        v.push(("a1:cut,settle,notify", sched(vec![D(c), S, N, S])));
        if c == 0 || c == len / 2 {
            // the last notification sender goes away before / in the middle of the stream
            v.push(("a9:sender-dropped", sched(vec![D(c), S, X, S])));
            v.push(("a9:notify-then-sender-dropped", sched(vec![D(c), S, N, S, X, S])));
        }
        if c == 0 || c == len {
            continue;
        }
        v.push(("a0:cut-only", sched(vec![D(c), S])));
        if c % 4 == 1 || full {
            // a burst the connection cannot keep up with (the channel holds one), then another one later
            v.push(("a7:burst,then-notify", sched(vec![D(c), S, N, N, S, N, S])));
            v.push(("a7:burst-of-3,rest,notify", sched(vec![D(c), S, N, N, N, S, D(len - c), S, N, S])));
        }
        v.push(("a3:chunk+notify-same-tick", sched(vec![D(c), N, S])));
        v.push(("a4:notify+rest-same-tick", sched(vec![D(c), S, N, D(len - c), S])));
        if full {
            v.push(("a2:notify+chunk-same-tick", sched(vec![N, D(c), S])));
            v.push(("a5:rest+notify-same-tick", sched(vec![D(c), S, D(len - c), N, S])));
            v.push(("a6:notify-after-all", sched(vec![D(c), S, D(len - c), S, N, S])));
            v.push(("a7:double-notify", sched(vec![D(c), S, N, N, S])));
            v.push(("a8:two-notifies", sched(vec![D(c), S, N, S, N, S])));
            v.push(("a9:notify-before-start", Schedule { credit: None, settle_first: false, steps: vec![N, D(c), S] }));
        }
    }
    v
}

/// (b): two cuts, notification in the first gap, the second, or both.
fn class_b(len: usize) -> Vec<(&'static str, Schedule)> {
    let mut v = Vec::new();
    for c1 in 1..len {
        for c2 in c1 + 1..len {
            v.push(("b1:notify-gap1", sched(vec![D(c1), S, N, S, D(c2 - c1), S])));
            v.push(("b2:notify-gap2", sched(vec![D(c1), S, D(c2 - c1), S, N, S])));
            v.push(("b3:notify-both-gaps", sched(vec![D(c1), S, N, S, D(c2 - c1), S, N, S])));
        }
    }
    v
}

/// (c): byte-by-byte delivery.
fn class_c(len: usize, full: bool) -> Vec<(&'static str, Schedule)> {
    let mut v = Vec::new();
    let each = |f: &dyn Fn(usize) -> Vec<Step>| {
        let mut steps = Vec::new();
        for i in 0..len {
            steps.extend(f(i));
        }
        sched(steps)
    };
    v.push(("c0:bytewise,notify-everywhere", each(&|_| vec![D(1), S, N, S])));
    v.push(("c1:bytewise-only", each(&|_| vec![D(1), S])));
    v.push(("c3:bytewise,byte+notify-same-tick", each(&|_| vec![D(1), N, S])));
    v.push(("c4:bytewise,notify+byte-same-tick", each(&|_| vec![N, D(1), S])));
    for p in 0..len {
        v.push(("c2:bytewise,one-notify", each(&|i| if i == p { vec![D(1), S, N, S] } else { vec![D(1), S] })));
    }
    if full {
        for k in 2..=9usize {
            for phase in 0..k.min(3) {
                v.push(("c5:bytewise,notify-every-k", each(&|i| if i % k == phase { vec![D(1), S, N, S] } else { vec![D(1), S] })));
            }
        }
        v.push(("c6:bytewise-unsettled", each(&|_| vec![D(1)])));
    }
    v
}

/// (e): limited output capacity, client draining at chosen points.
fn class_e(len: usize, out_len: usize, full: bool) -> Vec<(&'static str, Schedule)> {
    let mut v = Vec::new();
    let caps: Vec<usize> = if full {
        (0..=out_len + 1).collect()
    } else {
        let mut c: Vec<usize> = vec![0, 1, 5, 8, 9, 12, 20, 27, 28, 29, 40, 60, 61, 93, 120];
        c.retain(|x| *x <= out_len + 1);
        c
    };
    for &cap in &caps {
        v.push(("e0:blocked,notify,drain-all", Schedule { credit: Some(cap), settle_first: true, steps: vec![D(len), S, N, S, U, S] }));
    }
    let few: Vec<usize> = caps.iter().copied().filter(|c| full && c % 7 == 3 || !full && matches!(*c, 0 | 9 | 28 | 61)).collect();
    for &cap in &few {
        for &g in &[1usize, 7, 20] {
            let mut steps = vec![D(len), S];
            let rounds = if g == 1 { 24 } else { 10 };
            for _ in 0..rounds {
                steps.extend([N, S, G(g), S]);
            }
            v.push(("e1:blocked,notify-between-drains", Schedule { credit: Some(cap), settle_first: true, steps }));
            let mut steps = vec![D(len), S];
            for _ in 0..rounds {
                steps.extend([G(g), N, S]);
            }
            v.push(("e3:drain+notify-same-tick", Schedule { credit: Some(cap), settle_first: true, steps }));
        }
        if len > 9 {
            for &c in &[3usize, 8, 9] {
                v.push((
                    "e2:cut,blocked,notify,rest",
                    Schedule { credit: Some(cap), settle_first: true, steps: vec![D(c), S, N, S, D(len - c), S, N, S, G(5), S, N, S, U, S] },
                ));
            }
        }
    }
    v
}

/// (g): the connection's socket delivers only what has been flushed.
fn class_g(len: usize, full: bool) -> Vec<(&'static str, Schedule)> {
    let mut v = Vec::new();
    v.push(("g0:buffering,one-piece", sched(vec![BUF, D(len), S])));
    v.push(("g1:buffering,notify-first", sched(vec![BUF, N, S, D(len), S])));
    let step = if full { 1 } else { 4 };
    for c in (0..=len).step_by(step) {
        v.push(("g2:buffering,cut,settle", sched(vec![BUF, D(c), S, D(len - c), S])));
        v.push(("g3:buffering,cut,notify", sched(vec![BUF, D(c), S, N, S])));
    }
    v.push(("g4:buffering,notify-after-all", sched(vec![BUF, D(len), S, N, S, N, S])));
    for cap in [0usize, 9, 28] {
        v.push(("g5:buffering,blocked,drain", Schedule { credit: Some(cap), settle_first: true, steps: vec![BUF, D(len), S, G(7), S, N, S, U, S] }));
    }
    v
}

/// (h): the connection's socket reports `is_write_vectored()` and takes a
/// vectored write as one write that may stop anywhere, also inside the first
/// slice. Capacities walk through the whole response so that a short write
/// ends at every offset of every PDU.
fn class_h(len: usize, out_len: usize, full: bool) -> Vec<(&'static str, Schedule)> {
    let mut v = Vec::new();
    v.push(("h0:vectored,one-piece", sched(vec![VEC, D(len), S, N, S])));
    v.push(("h0:vectored+buffering,one-piece", sched(vec![VEC, BUF, D(len), S, N, S])));
    let step = if full { 1 } else { 5 };
    for cap in (0..=out_len + 1).step_by(step) {
        v.push(("h1:vectored,blocked,drain-all", Schedule { credit: Some(cap), settle_first: true, steps: vec![VEC, D(len), S, U, S] }));
        if cap % 3 == 0 || full {
            v.push((
                "h2:vectored,blocked,drain-in-pieces",
                Schedule { credit: Some(cap), settle_first: true, steps: vec![VEC, D(len), S, G(3), S, N, S, G(11), S, G(1), S, U, S] },
            ));
        }
        if cap % 4 == 0 {
            v.push(("h3:vectored+buffering,blocked,drain-all", Schedule { credit: Some(cap), settle_first: true, steps: vec![VEC, BUF, D(len), S, U, S] }));
        }
    }
    v
}

/// (f): random schedule.
fn random_schedule(rng: &mut Rng, len: usize) -> Schedule {
    let credit = if rng.chance(2, 5) { Some(rng.below(130) as usize) } else { None };
    let settle_first = !rng.chance(1, 10);
    let p_notify = *rng.pick(&[8u64, 25, 50]);
    let p_settle = *rng.pick(&[50u64, 85, 100]);
    let max_chunk = *rng.pick(&[1u64, 3, 5, 12, 40]);
    let mut steps = Vec::new();
    if rng.chance(1, 6) {
        steps.push(BUF);
    }
    if rng.chance(1, 5) {
        steps.push(VEC);
    }
    let mut off = 0usize;
    let mut guard = 0;
    let drop_at = if rng.chance(1, 8) { Some(rng.below(len as u64 + 1) as usize) } else { None };
    let mut dropped = false;
    while off < len && guard < 400 {
        guard += 1;
        if let Some(at) = drop_at {
            if !dropped && off >= at {
                steps.push(X);
                dropped = true;
            }
        }
        let mut acts: Vec<u8> = vec![0];
        if rng.chance(p_notify, 100) {
            acts.push(1);
            if rng.chance(1, 6) {
                acts.push(1);
            }
        }
        if credit.is_some() && rng.chance(1, 3) {
            acts.push(2);
        }
        rng.shuffle(&mut acts);
        for a in acts {
            match a {
                0 => {
                    let n = (rng.range(1, max_chunk) as usize).min(len - off);
                    steps.push(D(n));
                    off += n;
                }
                1 => steps.push(N),
                _ => steps.push(G(rng.range(1, 40) as usize)),
            }
            if rng.chance(p_settle, 100) {
                steps.push(S);
            }
        }
    }
    steps.push(S);
    // a tail after the last byte: notifications and drains while the answer is written
    for _ in 0..rng.below(6) {
        match rng.below(3) {
            0 => steps.push(N),
            1 => steps.push(G(rng.range(1, 60) as usize)),
            _ => steps.push(S),
        }
    }
    Schedule { credit, settle_first, steps }
}

//------------ the monitor --------------------------------------------------------------------

struct Monitor<'a> {
    ctx: &'a mut Ctx,
    rt: tokio::runtime::Runtime,
    ready: SourceInfo,
    not_ready: SourceInfo,
    evals: u64,
    place_counts: BTreeMap<String, u64>,
    class_counts: BTreeMap<String, u64>,
    attributed: BTreeMap<String, u32>,
    ref_stats: RefStats,
    notify_pdus_seen: u64,
    notifies_fired: u64,
    bound_hits: u64,
    not_closed: u64,
}

fn cause_of(pos: &NotifyPos) -> &'static str {
    match pos.place {
        Place::Header(_) => "notify-while-header-partial",
        Place::Payload(_) => "notify-while-payload-partial",
        Place::Idle => {
            if pos.same_tick {
                "notify-same-tick-as-chunk"
            } else {
                "notify-while-idle"
            }
        }
        Place::MidResponse => "notify-while-response-blocked",
        Place::MidOtherPdu | Place::BlockedAtBoundary => "notify-while-output-blocked",
        Place::NotStarted => "notify-before-connection-start",
        Place::Closed => "notify-after-close",
    }
}

fn pos_text(p: &NotifyPos, with_query: bool) -> String {
    let mut s = p.place.name();
    if with_query {
        s.push_str(&format!("@q{}", p.query));
    }
    if p.same_tick {
        s.push_str("+chunk");
    }
    s
}

impl<'a> Monitor<'a> {
    fn info(&self, case: &Case) -> &SourceInfo {
        if case.ready {
            &self.ready
        } else {
            &self.not_ready
        }
    }

    fn run(&mut self, case: &Case, schedule: &Schedule) -> RunOutcome {
        let src = self.info(case).source.clone();
        let mut r = run_schedule(&self.rt, &src, &case.bytes, &case.labels, schedule);
        if !case.exact {
            // where the server is after a malformed item is not modelled: no lower bound
            r.notifies_owed = 0;
        }
        r
    }

    fn detail(&self, case: &Case, schedule: &Schedule, reference: &[u8], got: &RunOutcome) -> Value {
        json!({
            "stream": case.id,
            "stream_hex": hex(&case.bytes),
            "source_ready": case.ready,
            "schedule": schedule.to_text(),
            "notify_positions": got.positions.iter().map(|p| pos_text(p, true)).collect::<Vec<_>>(),
            "reference_output": describe_pdus(reference),
            "reference_hex": hex(reference),
            "candidate_output": describe_pdus(&got.out),
            "candidate_hex": hex(&got.out),
            "client_bytes_consumed": got.consumed,
        })
    }

    /// Runs the reference and applies the model oracle. `None` if the
    /// reference is unusable (then nothing is compared against it).
    fn reference(&mut self, case: &Case) -> Option<Vec<u8>> {
        let r = self.run(case, &Schedule::reference());
        self.evals += 1;
        if let Some(text) = &r.panic {
            let sig = format!("C08:panic:reference:{}", panic_location(text));
            let d = self.detail(case, &Schedule::reference(), &r.out, &r);
            self.ctx.violation(&sig, &format!("server task panicked: {}", text), d);
            return None;
        }
        if r.overflow {
            let d = self.detail(case, &Schedule::reference(), &[], &r);
            self.ctx.violation(
                "C08:reference-output-runaway",
                "server wrote more than 16 KiB in answer to a client stream of a few dozen bytes",
                json!({"stream": d["stream"], "stream_hex": d["stream_hex"], "output_start": hex(&r.out[..r.out.len().min(200)])}),
            );
            return None;
        }
        if r.settle_bound_hit {
            self.bound_hits += 1;
            return None;
        }
        let mut stats = std::mem::take(&mut self.ref_stats);
        let verdict = check_reference(case, self.info(case), &r.out, &mut stats);
        self.ref_stats = stats;
        if let Err((what, msg)) = verdict {
            let d = self.detail(case, &Schedule::reference(), &r.out, &r);
            self.ctx.violation(&format!("C08:{}", what), &format!("unfragmented, notification-free run: {}", msg), d);
        }
        if !r.dropped {
            self.not_closed += 1;
        }
        let out = r.out.clone();
        self.ctx.sample("reference", || {
            json!({"stream": case.id, "client_hex": hex(&case.bytes), "server_output": describe_pdus(&out), "model": "one response per well-formed query, Error PDU for the first malformed one: ok"})
        });
        Some(r.out)
    }

    /// Finds out which single notification (or none) reproduces a mismatch
    /// and names the violation after the server position it fired at.
    fn attribute(&mut self, case: &Case, schedule: &Schedule, reference: &[u8], got: RunOutcome) -> (String, Schedule, RunOutcome) {
        let k = schedule.notifies();
        let differs = |m: &mut Self, s: &Schedule| -> Option<RunOutcome> {
            let r = m.run(case, s);
            if judge(reference, &r, s.notifies()).is_some() {
                Some(r)
            } else {
                None
            }
        };
        let bare = schedule.with_notifies(&[]);
        let bare_result = if k == 0 { Some(got) } else { differs(self, &bare) };
        if let Some(r) = bare_result {
            let mut plain = bare.clone();
            plain.credit = None;
            plain.steps.retain(|s| !matches!(s, Step::Grant(_) | Step::Unlimit));
            let has_backpressure = bare.credit.is_some();
            if has_backpressure {
                if let Some(r2) = differs(self, &plain) {
                    return ("fragmentation-alone".into(), plain, r2);
                }
                return ("backpressure-alone".into(), bare, r);
            }
            return ("fragmentation-alone".into(), bare, r);
        }
        for i in 0..k.min(64) {
            let single = schedule.with_notifies(&[i]);
            if let Some(r) = differs(self, &single) {
                let cause = r.positions.first().map(cause_of).unwrap_or("notify-position-unknown");
                return (cause.into(), single, r);
            }
        }
        let r = self.run(case, schedule);
        ("notify-combination".into(), schedule.clone(), r)
    }

    fn candidate(&mut self, case: &Case, class: &str, schedule: &Schedule, reference: &[u8]) {
        let got = self.run(case, schedule);
        self.evals += 1;
        *self.class_counts.entry(class[..1].to_string()).or_insert(0) += 1;
        if schedule.has_same_tick_race() {
            *self.class_counts.entry("d_same_tick_race(also counted in its class)".to_string()).or_insert(0) += 1;
        }
        let fired = schedule.notifies();
        self.notifies_fired += fired as u64;
        for p in &got.positions {
            *self.place_counts.entry(p.place.name()).or_insert(0) += 1;
            if p.same_tick {
                *self.place_counts.entry("any_place_with_chunk_pending_in_same_tick".into()).or_insert(0) += 1;
            }
        }
        self.notify_pdus_seen += strip_notifies(&got.out).notifies as u64;
        if got.settle_bound_hit {
            // cannot tell whether the run was complete: no verdict
            self.bound_hits += 1;
            return;
        }
        // ---- the class of this case
        let letter = &class[..1];
        let with_query = case.core && matches!(letter, "a" | "c" | "e");
        let mut places: Vec<String> = if letter == "f" {
            // random schedules are classed by the kinds of server positions that saw a notification
            got.positions.iter().map(|p| cause_of(p)[7..].to_string()).collect()
        } else {
            got.positions.iter().map(|p| pos_text(p, with_query)).collect()
        };
        places.sort();
        places.dedup();
        let mut cuts: Vec<String> = Vec::new();
        if fired == 0 && letter != "f" {
            let mut off = 0usize;
            for s in &schedule.steps {
                if let Step::Deliver(n) = s {
                    off = (off + n).min(case.bytes.len());
                    if off < case.bytes.len() {
                        let l = case.labels[off];
                        cuts.push(if with_query { format!("{}@q{}", l.place.name(), l.query) } else { l.place.name() });
                    }
                }
            }
            cuts.sort();
            cuts.dedup();
        }
        if fired > 0 || schedule.chunks() > 1 || schedule.credit.is_some() {
            let cap = match schedule.credit {
                None => "inf".to_string(),
                Some(_) if letter == "f" => "limited".to_string(),
                Some(c) if case.core => c.to_string(),
                Some(c) => format!("{}..{}", c / 32 * 32, c / 32 * 32 + 31),
            };
            let cap = if schedule.buffering() { format!("{} on a buffering socket", cap) } else { cap };
            let stream = if case.core {
                case.id.clone()
            } else if letter == "f" {
                format!("random stream of {} items", case.items.len())
            } else {
                case.shape.clone()
            };
            self.ctx.sig(&format!(
                "{} | {} | notify at [{}] | cuts at [{}] | cap {}",
                stream,
                if letter == "f" { "f:random" } else { class },
                places.join(" "),
                if letter == "f" { "random".to_string() } else { cuts.join(" ") },
                cap
            ));
        }
        // ---- verdict
        if let Some(text) = &got.panic {
            let sig = format!("C08:panic:connection:{}", panic_location(text));
            let d = self.detail(case, schedule, reference, &got);
            self.ctx.violation(&sig, &format!("server task panicked: {}", text), d);
            return;
        }
        let finding = judge(reference, &got, fired);
        match finding {
            None => {
                if self.ctx.wants_sample(&format!("class-{}", &class[..1])) {
                    let d = json!({
                        "stream": case.id, "schedule": schedule.to_text(),
                        "notify_positions": got.positions.iter().map(|p| pos_text(p, true)).collect::<Vec<_>>(),
                        "candidate_output": describe_pdus(&got.out),
                        "verdict": "equal to the reference after removing Serial Notify",
                    });
                    self.ctx.sample(&format!("class-{}", &class[..1]), || d);
                }
            }
            Some(Finding::Differs) | Some(Finding::NotifyIncomplete) => {
                // cheap pre-classification bounds the number of minimisations per kind
                let pre = got.positions.iter().map(cause_of).min().unwrap_or("no-notify");
                let n = self.attributed.entry(pre.to_string()).or_insert(0);
                *n += 1;
                if *n > 12 {
                    self.ctx.obs("mismatches_beyond_the_first_12_of_their_kind_not_minimised", 1);
                    return;
                }
                let (cause, minimal, r) = self.attribute(case, schedule, reference, got);
                let d = self.detail(case, &minimal, reference, &r);
                let desc = format!(
                    "output (Serial Notify removed) differs from the unfragmented, notification-free run; smallest reproducing variant of the schedule: {} -> {} instead of {}",
                    minimal.to_text(),
                    describe_pdus(&r.out),
                    describe_pdus(reference)
                );
                self.ctx.violation(&format!("C08:{}", cause), &desc, d);
            }
            Some(Finding::NotifyInsideResponse) => {
                let d = self.detail(case, schedule, reference, &got);
                self.ctx.violation("C08:serial-notify-inside-response", "a Serial Notify PDU sits between Cache Response and End of Data", d);
            }
            Some(Finding::NotifyTooMany { seen, fired }) => {
                let d = self.detail(case, schedule, reference, &got);
                self.ctx.violation(
                    "C08:serial-notify-more-than-fired",
                    &format!("{} Serial Notify PDUs for {} notifications", seen, fired),
                    d,
                );
            }
            Some(Finding::NotifyLost { seen, owed }) => {
                let mut d = self.detail(case, schedule, reference, &got);
                d["notifications_fired_one_by_one_at_an_idle_connection"] = json!(owed);
                let burst = schedule.steps.windows(2).any(|w| w[0] == N && w[1] == N);
                self.ctx.violation(
                    if burst { "C08:notification-lost-after-burst" } else { "C08:notification-lost" },
                    &format!(
                        "{} notifications were fired one at a time while the connection was idle between queries (or inside a header) with the sender alive, but only {} Serial Notify PDUs were sent",
                        owed, seen
                    ),
                    d,
                );
            }
            Some(Finding::Unflushed { delivered, held }) => {
                let mut d = self.detail(case, schedule, reference, &got);
                d["delivered_bytes_before"] = json!(delivered);
                d["written_but_not_flushed"] = json!(describe_pdus(&held));
                d["written_but_not_flushed_hex"] = json!(hex(&held));
                let typ = held.get(1).copied().unwrap_or(255);
                self.ctx.violation(
                    &format!("C08:not-flushed-before-waiting:pdu-type-{}", typ),
                    &format!(
                        "on a socket that delivers on flush, the server went back to waiting for the client with {} written but not flushed: the client never gets it",
                        describe_pdus(&held)
                    ),
                    d,
                );
            }
        }
    }

    fn all(&mut self, case: &Case, reference: &[u8], list: Vec<(&'static str, Schedule)>) {
        for (class, s) in &list {
            self.candidate(case, class, s, reference);
        }
    }
}

#[derive(Clone, Copy, PartialEq, Eq, Debug)]
enum Unit {
    A,
    B,
    C,
    E,
    G,
    F(u64),
}

/// The workload for the interpreters (Miri, valgrind): a flat list of cheap
/// schedules, ordered so that any prefix is diverse, dealt round-robin to the
/// shards. One schedule costs about a second under Miri.
fn small_workload(ctx: &Ctx) -> (Vec<Case>, Vec<(usize, &'static str, Schedule)>) {
    let c = |items: Vec<Item>| make_case(items, true, true);
    let cases = vec![
        c(vec![reset(1), serial(1, "cur")]),
        c(vec![serial(0, "old"), reset(0)]),
        c(vec![reset(2), odd(2, 5, 8, 0), serial(2, "sess")]),
    ];
    let mut lanes: Vec<Vec<(usize, &'static str, Schedule)>> = Vec::new();
    for (ci, case) in cases.iter().enumerate() {
        let len = case.bytes.len();
        // notify at every quiescent cut position
        lanes.push((0..=len).map(|c| (ci, "a1:cut,settle,notify", sched(vec![D(c), S, N, S]))).collect());
        // same-tick and double-notify variants at a few cuts
        let mut lane = Vec::new();
        for c in [3usize, 13, 8, 18] {
            lane.push((ci, "a3:chunk+notify-same-tick", sched(vec![D(c), N, S])));
            lane.push((ci, "a4:notify+rest-same-tick", sched(vec![D(c), S, N, D(len - c), S])));
            lane.push((ci, "a7:double-notify", sched(vec![D(c), S, N, N, S])));
            lane.push((ci, "a5:rest+notify-same-tick", sched(vec![D(c), S, D(len - c), N, S])));
            lane.push((ci, "a9:notify-before-start", Schedule { credit: None, settle_first: false, steps: vec![N, D(c), S] }));
        }
        lanes.push(lane);
        // back-pressure
        let mut lane = Vec::new();
        for cap in [9usize, 61, 0, 28] {
            lane.push((ci, "e0:blocked,notify,drain-all", Schedule { credit: Some(cap), settle_first: true, steps: vec![D(len), S, N, S, U, S] }));
            lane.push((
                ci,
                "e2:cut,blocked,notify,rest",
                Schedule { credit: Some(cap), settle_first: true, steps: vec![D(3), S, N, S, D(len - 3), S, N, S, G(5), S, N, S, U, S] },
            ));
        }
        lanes.push(lane);
        // buffering socket, notification bursts
        lanes.push(vec![
            (ci, "g0:buffering,one-piece", sched(vec![BUF, D(len), S])),
            (ci, "a7:burst,then-notify", sched(vec![D(8), S, N, N, S, N, S])),
            (ci, "g3:buffering,cut,notify", sched(vec![BUF, D(8), S, N, S])),
            (ci, "g4:buffering,notify-after-all", sched(vec![BUF, D(len), S, N, S, N, S])),
        ]);
    }
    // random ones
    let mut rng = Rng::derive(ctx.seed, &["C08", "schedule-small"], &[]);
    lanes.push((0..40).map(|i| (i % cases.len(), "f:random", random_schedule(&mut rng, cases[i % cases.len()].bytes.len()))).collect());
    // one byte-wise schedule with a notification at every position (expensive: ~10 s)
    lanes.push(class_c(cases[0].bytes.len(), false).into_iter().filter(|(c, _)| c.starts_with("c0")).map(|(c, s)| (0, c, s)).collect());
    let mut flat = Vec::new();
    let mut i = 0;
    loop {
        let mut any = false;
        for lane in &lanes {
            if let Some(x) = lane.get(i) {
                flat.push(x.clone());
                any = true;
            }
        }
        if !any {
            break;
        }
        i += 1;
    }
    (cases, flat)
}

fn new_monitor(ctx: &mut Ctx) -> Monitor<'_> {
    Monitor {
        ctx,
        rt: new_runtime(),
        ready: make_source(true),
        not_ready: make_source(false),
        evals: 0,
        place_counts: BTreeMap::new(),
        class_counts: BTreeMap::new(),
        attributed: BTreeMap::new(),
        ref_stats: RefStats::default(),
        notify_pdus_seen: 0,
        notifies_fired: 0,
        bound_hits: 0,
        not_closed: 0,
    }
}

pub fn run(ctx: &mut Ctx) {
    let tier = ctx.tier;
    let stage = ctx.stage;
    let seed = ctx.seed;
    let full = tier == Tier::Thorough && stage == Stage::Native;
    let mut references: BTreeMap<usize, Option<Vec<u8>>> = BTreeMap::new();
    if stage == Stage::Miri || stage == Stage::Valgrind {
        let (cases, flat) = small_workload(ctx);
        let total = match tier {
            Tier::Quick => 32,
            Tier::Thorough => 136,
        };
        let mut m = new_monitor(ctx);
        for (i, (ci, class, schedule)) in flat.iter().take(total).enumerate() {
            if !m.ctx.mine(i as u64) {
                continue;
            }
            let case = &cases[*ci];
            if !references.contains_key(ci) {
                let r = m.reference(case);
                references.insert(*ci, r);
            }
            if let Some(Some(reference)) = references.get(ci) {
                let reference = reference.clone();
                m.ctx.breadcrumb(&format!("stream {} ({}), schedule {}", case.id, hex(&case.bytes), schedule.to_text()));
                m.candidate(case, class, schedule, &reference);
            }
        }
        finish(m, references.len() as u64);
        wide::run(ctx);
        return;
    }
    // ---- which streams
    let mut cases = core_cases();
    // (fixed streams, random streams for the enumerated classes, random streams for class f only,
    //  longest stream that gets all pairs of cuts, random schedules in total)
    let (n_core, n_random, n_random_f, b_max_len, f_total): (usize, u64, u64, usize, u64) = match (stage, tier) {
        (Stage::Native, Tier::Quick) => (26, 80, 300, 28, 300_000),
        (Stage::Native, Tier::Thorough) => (cases.len(), 600, 3_000, 44, 8_000_000),
        _ => (cases.len(), 40, 200, 20, 40_000),
    };
    cases.truncate(n_core);
    for i in 0..n_random + n_random_f {
        cases.push(random_case(seed, i));
    }
    let n_enumerated = n_core + n_random as usize;
    // ---- work units, dealt to the shards
    let mut units: Vec<(usize, Unit)> = Vec::new();
    for (ci, case) in cases.iter().enumerate().take(n_enumerated) {
        units.push((ci, Unit::A));
        units.push((ci, Unit::C));
        units.push((ci, Unit::E));
        units.push((ci, Unit::G));
        if case.bytes.len() <= b_max_len {
            units.push((ci, Unit::B));
        }
    }
    let f_per_unit: u64 = 250;
    let f_units = (f_total / f_per_unit).max(1);
    for j in 0..f_units {
        units.push(((j as usize) % cases.len(), Unit::F(j)));
    }
    let mut m = new_monitor(ctx);
    for (ui, (ci, unit)) in units.iter().enumerate() {
        // dealt by a hash of the index: units come in a regular a/c/e/b pattern
        let mut x = ui as u64;
        if !m.ctx.mine(splitmix64(&mut x) >> 8) {
            continue;
        }
        let case = &cases[*ci];
        if !references.contains_key(ci) {
            let r = m.reference(case);
            references.insert(*ci, r);
        }
        let reference = match references.get(ci).unwrap() {
            Some(r) => r.clone(),
            None => continue,
        };
        let len = case.bytes.len();
        m.ctx.breadcrumb(&format!("stream {} ({}), unit {:?}", case.id, hex(&case.bytes), unit));
        match unit {
            Unit::A => {
                m.all(case, &reference, class_a(len, full || stage == Stage::Asan));
            }
            Unit::B => m.all(case, &reference, class_b(len)),
            Unit::C => {
                m.all(case, &reference, class_c(len, full));
            }
            Unit::E => {
                m.all(case, &reference, class_e(len, reference.len(), full));
            }
            Unit::G => {
                m.all(case, &reference, class_g(len, full));
                m.all(case, &reference, class_h(len, reference.len(), full));
            }
            Unit::F(j) => {
                let mut rng = Rng::derive(seed, &["C08", "schedule"], &[*j]);
                for _ in 0..f_per_unit {
                    let s = random_schedule(&mut rng, len);
                    m.candidate(case, "f:random", &s, &reference);
                }
            }
        }
    }
    finish(m, references.len() as u64);
    wide::run(ctx);
}

fn finish(m: Monitor<'_>, reference_runs: u64) {
    let stage = m.ctx.stage;
    let Monitor { ctx, evals, place_counts, class_counts, ref_stats, notify_pdus_seen, notifies_fired, bound_hits, not_closed, .. } = m;
    ctx.evals(evals);
    for (k, v) in &place_counts {
        ctx.obs(&format!("notify_fired_at_{}", k), *v);
    }
    for (k, v) in &class_counts {
        ctx.obs(&format!("schedules_class_{}", k), *v);
    }
    ctx.obs("notifications_fired", notifies_fired);
    ctx.obs("serial_notify_pdus_seen", notify_pdus_seen);
    ctx.obs("reference_runs", reference_runs);
    ctx.obs("reference_responses_checked", ref_stats.responses);
    ctx.obs("reference_cache_resets_checked", ref_stats.cache_resets);
    ctx.obs("reference_error_pdus_checked", ref_stats.error_pdus);
    ctx.obs("reference_items_modelled", ref_stats.modelled_items);
    if ref_stats.other_version_pdus > 0 {
        ctx.obs("reference_response_pdus_with_other_version_than_query", ref_stats.other_version_pdus);
    }
    if not_closed > 0 {
        ctx.obs("reference_connection_still_open_after_client_eof", not_closed);
    }
    if bound_hits > 0 {
        ctx.obs("runs_without_verdict_settle_bound", bound_hits);
        ctx.notes.push(format!("{} runs did not reach a parked state within the yield bound; no verdict for them", bound_hits));
    }
    let header_places = (1..8).filter(|i| place_counts.contains_key(&format!("header_{}_of_8", i))).count();
    if evals > 0 && header_places < 7 && (stage == Stage::Native) {
        ctx.notes.push(format!("only {} of the 7 partial-header positions saw a notification in this shard", header_places));
    }
}
