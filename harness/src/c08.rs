//! C08 — stub (monitor not built yet).
use crate::core::Ctx;

pub fn run(ctx: &mut Ctx) {
    ctx.notes.push("C08: monitor not built yet".into());
}
