//! C01 — stub (monitor not built yet).
use crate::core::Ctx;

pub fn run(ctx: &mut Ctx) {
    ctx.notes.push("C01: monitor not built yet".into());
}
