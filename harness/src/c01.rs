//! C01 — certificate validation: only correctly issued certificates are
//! accepted and the validated resources never grow.
//!
//! Workload: chains TA -> CA^k -> {CA, EE, router} built with the library's
//! TbsCert under the PoolSigner, encoded and re-decoded (the path a relying
//! party takes), plus single-point tampers of valid (cert, issuer, time)
//! triples. Oracle: the conjunction in the statement evaluated from the
//! parameters the harness chose, and an interval-set model of the effective
//! resources.

use crate::c03_gen::{sequence, Flavour};
use crate::core::{hex, Ctx, Rng, Stage, Tier};
use crate::der;
use crate::keys::PoolSigner;
use crate::model::IntervalSet;
use rpki::crypto::keys::PublicKey;
use rpki::repository::cert::{Cert, ExtendedKeyUsage, KeyUsage, Overclaim, ResourceCert, TbsCert};
use rpki::repository::resources::{
    Addr, AsBlock, AsBlocks, AsResources, Asn, IpBlock, IpBlocks, IpResources,
};
use rpki::repository::tal::TalInfo;
use rpki::repository::x509::{Name, Time, Validity};
use rpki::uri;
use serde_json::{json, Value};
use std::str::FromStr;
use std::sync::Arc;

const FLS: [Flavour; 3] = [Flavour::As, Flavour::V4, Flavour::V6];

pub fn time_at_ns(secs: i64, nanos: u32) -> Time {
    Time::new(chrono::DateTime::<chrono::Utc>::from_timestamp(secs, nanos).unwrap())
}

pub fn time_at(secs: i64) -> Time {
    Time::new(chrono::DateTime::<chrono::Utc>::from_timestamp(secs, 0).unwrap())
}

/// How a family's resources are expressed in a certificate.
#[derive(Clone, Debug, PartialEq)]
pub enum Claim {
    Missing,
    Inherit,
    Blocks(IntervalSet), // element space
}

impl Claim {
    fn tag(&self) -> &'static str {
        match self {
            Claim::Missing => "missing",
            Claim::Inherit => "inherit",
            Claim::Blocks(_) => "blocks",
        }
    }
}

pub fn as_blocks(m: &IntervalSet) -> AsBlocks {
    AsBlocks::from_iter(m.iv.iter().map(|(a, b)| {
        if a == b {
            AsBlock::Id(Asn::from_u32(*a as u32))
        } else {
            AsBlock::from((Asn::from_u32(*a as u32), Asn::from_u32(*b as u32)))
        }
    }))
}

pub fn ip_blocks(fl: Flavour, m: &IntervalSet) -> IpBlocks {
    IpBlocks::from_iter(m.iv.iter().map(|(a, b)| {
        let (x, y) = fl.embed(*a, *b);
        IpBlock::from((Addr::from_bits(x), Addr::from_bits(y)))
    }))
}

/// Observed blocks of a validated certificate in element space; Err if an
/// IPv4 block is not aligned to the /32 convention.
fn observe(fl: Flavour, rc: &ResourceCert) -> Result<Vec<(u128, u128)>, String> {
    match fl {
        Flavour::As => Ok(rc.as_resources().iter().map(|b| (b.min().into_u32() as u128, b.max().into_u32() as u128)).collect()),
        Flavour::V6 => Ok(rc.v6_resources().iter().map(|b| (b.min().to_bits(), b.max().to_bits())).collect()),
        Flavour::V4 => {
            let low = (1u128 << 96) - 1;
            let mut out = Vec::new();
            for b in rc.v4_resources().iter() {
                let (lo, hi) = (b.min().to_bits(), b.max().to_bits());
                if lo & low != 0 || hi & low != low {
                    return Err(format!("IPv4 block {:x}-{:x} not aligned", lo, hi));
                }
                out.push((lo >> 96, hi >> 96));
            }
            Ok(out)
        }
    }
}

fn canonical(blocks: &[(u128, u128)]) -> bool {
    blocks.iter().all(|(a, b)| a <= b)
        && blocks.windows(2).all(|w| w[1].0 > w[0].1 && !(w[0].1 != u128::MAX && w[1].0 == w[0].1 + 1))
}

#[derive(Clone, Copy, Debug, PartialEq)]
enum Kind {
    Ta,
    Ca,
    Ee,
    Router,
}

#[derive(Clone)]
struct Spec {
    kind: Kind,
    key: usize,        // subject key (pool index); router: ignored
    issuer_key: usize, // signing key
    serial: u64,
    not_before: i64,
    not_after: i64,
    overclaim: Overclaim,
    claims: [Claim; 3],
    aki: AkiChoice,
    issuer_name: Option<Name>,
    subject_name: Option<Name>,
    router_key: Option<PublicKey>,
}

#[derive(Clone, Debug, PartialEq)]
enum AkiChoice {
    Issuer,
    None,
    Other(usize),
    /// the issuer's key identifier with one bit flipped
    Flip(usize),
}

struct World<'a> {
    pool: &'a PoolSigner,
    tal: Arc<TalInfo>,
    uri: uri::Rsync,
    router_keys: Vec<PublicKey>,
}

fn build(w: &World, s: &Spec) -> Vec<u8> {
    let subject_key = match (&s.kind, &s.router_key) {
        (Kind::Router, Some(k)) => k.clone(),
        _ => w.pool.info(s.key),
    };
    let issuer_info = w.pool.info(s.issuer_key);
    let issuer_name = s.issuer_name.clone().unwrap_or_else(|| issuer_info.to_subject_name());
    let usage = match s.kind {
        Kind::Ta | Kind::Ca => KeyUsage::Ca,
        _ => KeyUsage::Ee,
    };
    let mut tbs = TbsCert::new(
        s.serial.into(),
        issuer_name,
        Validity::new(time_at(s.not_before), time_at(s.not_after)),
        s.subject_name.clone(),
        subject_key,
        usage,
        s.overclaim,
    );
    match s.kind {
        Kind::Ta | Kind::Ca => {
            tbs.set_basic_ca(Some(true));
            tbs.set_ca_repository(Some(w.uri.clone()));
            tbs.set_rpki_manifest(Some(w.uri.clone()));
        }
        Kind::Ee => tbs.set_signed_object(Some(w.uri.clone())),
        Kind::Router => tbs.set_extended_key_usage(Some(ExtendedKeyUsage::create_router())),
    }
    if s.kind != Kind::Ta {
        tbs.set_crl_uri(Some(w.uri.clone()));
        tbs.set_ca_issuer(Some(w.uri.clone()));
        match s.aki {
            AkiChoice::Issuer => tbs.set_authority_key_identifier(Some(issuer_info.key_identifier())),
            AkiChoice::None => {}
            AkiChoice::Other(k) => tbs.set_authority_key_identifier(Some(w.pool.info(k).key_identifier())),
            AkiChoice::Flip(bit) => {
                let mut raw: [u8; 20] = issuer_info.key_identifier().into();
                raw[(bit / 8) % 20] ^= 1 << (bit % 8);
                tbs.set_authority_key_identifier(Some(raw.into()))
            }
        }
    }
    match &s.claims[0] {
        Claim::Missing => {}
        Claim::Inherit => tbs.set_as_resources(AsResources::inherit()),
        Claim::Blocks(m) => tbs.set_as_resources(AsResources::blocks(as_blocks(m))),
    }
    match &s.claims[1] {
        Claim::Missing => {}
        Claim::Inherit => tbs.set_v4_resources(IpResources::inherit()),
        Claim::Blocks(m) => tbs.set_v4_resources(IpResources::blocks(ip_blocks(Flavour::V4, m))),
    }
    match &s.claims[2] {
        Claim::Missing => {}
        Claim::Inherit => tbs.set_v6_resources(IpResources::inherit()),
        Claim::Blocks(m) => tbs.set_v6_resources(IpResources::blocks(ip_blocks(Flavour::V6, m))),
    }
    let cert = tbs.into_cert(w.pool, &s.issuer_key).expect("sign");
    cert.to_captured().as_slice().to_vec()
}

/// Random non-empty subset of an element-space set, with boundary-hugging blocks.
fn subset_of(rng: &mut Rng, eff: &IntervalSet) -> IntervalSet {
    if eff.is_empty() {
        return IntervalSet::empty();
    }
    let mut out = Vec::new();
    for _ in 0..1 + rng.below(3) {
        let (lo, hi) = *rng.pick(&eff.iv);
        let span = hi - lo;
        let pick = |rng: &mut Rng| -> u128 {
            match rng.below(5) {
                0 => lo,
                1 => hi,
                2 => lo + span.min(1),
                3 => hi - span.min(1),
                _ => lo + if span == u128::MAX { rng.next_u128() } else { rng.next_u128() % (span + 1) },
            }
        };
        let a = pick(rng);
        let b = pick(rng);
        out.push((a.min(b), a.max(b)));
    }
    IntervalSet::from_ranges(&out)
}

/// A set that is NOT inside `eff`: a subset plus something sticking out by as
/// little as possible. Returns None if `eff` is everything.
fn overclaim_of(rng: &mut Rng, fl: Flavour, eff: &IntervalSet) -> Option<(IntervalSet, &'static str)> {
    let max = fl.max();
    let all = IntervalSet::from_ranges(&[(0, max)]);
    let gaps = all.difference(eff);
    if gaps.is_empty() {
        return None;
    }
    let (glo, ghi) = *rng.pick(&gaps.iv);
    let base = subset_of(rng, eff);
    let (extra, how) = match rng.below(4) {
        // stick out by exactly one element at the upper end of an issuer block
        0 if glo > 0 => ((glo - 1, glo), "one-past-end"),
        // stick out by one element below an issuer block
        1 if ghi < max => ((ghi, ghi + 1), "one-before-start"),
        // a single element in a gap
        2 => ((glo, glo), "in-gap"),
        // straddle: the whole gap plus both neighbours
        _ => ((glo.saturating_sub(1), ghi.saturating_add(1).min(max)), "straddle"),
    };
    let m = base.union(&IntervalSet::from_ranges(&[extra]));
    if m.is_subset_of(eff) {
        None
    } else {
        Some((m, how))
    }
}

fn gen_ta_claims(rng: &mut Rng) -> [Claim; 3] {
    let mut c: Vec<Claim> = FLS
        .iter()
        .map(|fl| match rng.below(6) {
            0 => Claim::Missing,
            1 => Claim::Blocks(IntervalSet::from_ranges(&[(0, fl.max())])),
            _ => {
                let s = sequence(*fl, rng, 6);
                let m = IntervalSet::from_ranges(&s.blocks);
                if m.is_empty() {
                    Claim::Missing
                } else {
                    Claim::Blocks(m)
                }
            }
        })
        .collect();
    if c.iter().all(|x| *x == Claim::Missing) {
        c[0] = Claim::Blocks(IntervalSet::from_ranges(&[(0, 65535)]));
    }
    [c[0].clone(), c[1].clone(), c[2].clone()]
}

/// Child claims relative to the issuer's effective sets. Returns the claims,
/// whether they overclaim, and a tag per family.
fn gen_child_claims(rng: &mut Rng, eff: &[IntervalSet; 3], kind: Kind, want_overclaim: bool) -> ([Claim; 3], bool, String) {
    let mut claims = Vec::new();
    let mut over = false;
    let mut tags = Vec::new();
    let over_family = if want_overclaim { Some(if kind == Kind::Router { 0 } else { rng.usize_below(3) }) } else { None };
    for (i, fl) in FLS.iter().enumerate() {
        if kind == Kind::Router && i > 0 {
            claims.push(Claim::Missing);
            tags.push("missing".to_string());
            continue;
        }
        if over_family == Some(i) {
            if let Some((m, how)) = overclaim_of(rng, *fl, &eff[i]) {
                claims.push(Claim::Blocks(m));
                tags.push(format!("over:{}", how));
                over = true;
                continue;
            }
        }
        let c = match rng.below(if kind == Kind::Router { 1 } else { 5 }) {
            1 => Claim::Missing,
            2 if kind != Kind::Router => Claim::Inherit,
            _ => {
                let m = if rng.chance(1, 5) { eff[i].clone() } else { subset_of(rng, &eff[i]) };
                if m.is_empty() {
                    Claim::Missing
                } else {
                    Claim::Blocks(m)
                }
            }
        };
        tags.push(c.tag().to_string());
        claims.push(c);
    }
    if claims.iter().all(|x| *x == Claim::Missing) {
        // the profile requires at least one resource extension
        if kind == Kind::Router {
            // a router certificate needs explicit AS numbers; if the issuer has none, skip
            claims[0] = Claim::Missing;
        } else {
            claims[0] = Claim::Inherit;
            tags[0] = "inherit".into();
        }
    }
    ([claims[0].clone(), claims[1].clone(), claims[2].clone()], over, tags.join("/"))
}

/// Model of the validated resources. None = validation must fail.
fn expected_eff(issuer: &[IntervalSet; 3], claims: &[Claim; 3], overclaim: Overclaim) -> Option<[IntervalSet; 3]> {
    let mut out = Vec::new();
    for i in 0..3 {
        let e = match &claims[i] {
            Claim::Missing => IntervalSet::empty(),
            Claim::Inherit => issuer[i].clone(),
            Claim::Blocks(b) => match overclaim {
                Overclaim::Refuse => {
                    if b.is_subset_of(&issuer[i]) {
                        b.clone()
                    } else {
                        return None;
                    }
                }
                Overclaim::Trim => b.intersection(&issuer[i]),
            },
        };
        out.push(e);
    }
    Some([out[0].clone(), out[1].clone(), out[2].clone()])
}

fn set_json(m: &IntervalSet) -> Value {
    Value::Array(m.iv.iter().map(|(a, b)| json!([a.to_string(), b.to_string()])).collect())
}

fn claims_json(c: &[Claim; 3]) -> Value {
    let f = |c: &Claim| match c {
        Claim::Missing => json!("missing"),
        Claim::Inherit => json!("inherit"),
        Claim::Blocks(m) => set_json(m),
    };
    json!({"as": f(&c[0]), "v4": f(&c[1]), "v6": f(&c[2])})
}

/// Compares the resources of an accepted certificate with the model.
fn check_resources(ctx: &mut Ctx, what: &str, rc: &ResourceCert, want: &[IntervalSet; 3], issuer: &[IntervalSet; 3], detail: &Value) {
    for (i, fl) in FLS.iter().enumerate() {
        ctx.eval();
        match observe(*fl, rc) {
            Err(e) => ctx.violation(&format!("C01:{}:resources:{}:malformed", what, fl.name()), &e, detail.clone()),
            Ok(blocks) => {
                let got = IntervalSet::from_ranges(&blocks);
                if !canonical(&blocks) {
                    ctx.violation(&format!("C01:{}:resources:{}:non-canonical", what, fl.name()), "validated resources are not a canonical block list", json!({"observed": set_json(&IntervalSet { iv: blocks.clone() }), "case": detail}));
                } else if !got.is_subset_of(&issuer[i]) {
                    ctx.violation(&format!("C01:{}:resources:{}:grew-beyond-issuer", what, fl.name()), "validated resources are not a subset of the issuer's validated resources", json!({"observed": set_json(&got), "issuer": set_json(&issuer[i]), "case": detail}));
                } else if got != want[i] {
                    ctx.violation(&format!("C01:{}:resources:{}:wrong-set", what, fl.name()), "validated resources differ from claimed/trimmed/inherited set", json!({"observed": set_json(&got), "expected": set_json(&want[i]), "case": detail}));
                }
            }
        }
    }
}

enum Outcome {
    Accepted(Option<ResourceCert>),
    Rejected(String),
}

/// Decodes `der` and validates it as `kind` under `issuer` at `now`.
fn validate(ctx: &mut Ctx, w: &World, kind: Kind, der_bytes: &[u8], issuer: Option<&ResourceCert>, strict: bool, now: i64) -> Option<Outcome> {
    validate_ns(ctx, w, kind, der_bytes, issuer, strict, now, 0)
}

/// As `validate` but through `verify_ta_ref_at` (the by-reference trust anchor path).
fn validate_ta_ref(ctx: &mut Ctx, der_bytes: &[u8], strict: bool, now: i64) -> Option<Outcome> {
    ctx.no_panic("validate-ta-ref", || json!({"cert": hex(der_bytes), "now": now, "strict": strict}), move || {
        let cert = match Cert::decode(der_bytes) {
            Ok(c) => c,
            Err(e) => return Outcome::Rejected(format!("decode: {}", e)),
        };
        if let Err(e) = cert.inspect_ta(strict) {
            return Outcome::Rejected(e.to_string());
        }
        match cert.verify_ta_ref_at(strict, time_at(now)) {
            Ok(()) => Outcome::Accepted(None),
            Err(e) => Outcome::Rejected(e.to_string()),
        }
    })
}

/// Validates an EE certificate through the detached-EE entry point.
fn validate_detached(ctx: &mut Ctx, der_bytes: &[u8], issuer: &ResourceCert, strict: bool, now: i64) -> Option<Outcome> {
    ctx.no_panic("validate-detached-ee", || json!({"cert": hex(der_bytes), "now": now, "strict": strict}), move || {
        let cert = match Cert::decode(der_bytes) {
            Ok(c) => c,
            Err(e) => return Outcome::Rejected(format!("decode: {}", e)),
        };
        match cert.validate_detached_ee_at(issuer, strict, time_at(now)) {
            Ok(rc) => Outcome::Accepted(Some(rc)),
            Err(e) => Outcome::Rejected(e.to_string()),
        }
    })
}

#[allow(clippy::too_many_arguments)]
fn validate_ns(ctx: &mut Ctx, w: &World, kind: Kind, der_bytes: &[u8], issuer: Option<&ResourceCert>, strict: bool, now: i64, nanos: u32) -> Option<Outcome> {
    let what = format!("validate-{:?}", kind).to_lowercase();
    let tal = w.tal.clone();
    ctx.no_panic(&what, || json!({"cert": hex(der_bytes), "now": now, "strict": strict}), move || {
        let cert = match Cert::decode(der_bytes) {
            Ok(c) => c,
            Err(e) => return Outcome::Rejected(format!("decode: {}", e)),
        };
        let now = time_at_ns(now, nanos);
        match kind {
            Kind::Ta => match cert.validate_ta_at(tal, strict, now) {
                Ok(rc) => Outcome::Accepted(Some(rc)),
                Err(e) => Outcome::Rejected(e.to_string()),
            },
            Kind::Ca => match cert.validate_ca_at(issuer.unwrap(), strict, now) {
                Ok(rc) => Outcome::Accepted(Some(rc)),
                Err(e) => Outcome::Rejected(e.to_string()),
            },
            Kind::Ee => match cert.validate_ee_at(issuer.unwrap(), strict, now) {
                Ok(rc) => Outcome::Accepted(Some(rc)),
                Err(e) => Outcome::Rejected(e.to_string()),
            },
            Kind::Router => match cert.validate_router_at(issuer.unwrap(), strict, now) {
                Ok(()) => Outcome::Accepted(None),
                Err(e) => Outcome::Rejected(e.to_string()),
            },
        }
    })
}

/// The same question through the other public routes to it: inspection and
/// verification as two separate calls, and a certificate that went through
/// its serde form first. Returns (route, accepted) pairs.
fn alt_routes(ctx: &mut Ctx, w: &World, kind: Kind, der_bytes: &[u8], issuer: Option<&ResourceCert>, strict: bool, now: i64) -> Vec<(&'static str, bool)> {
    let tal = w.tal.clone();
    let res = ctx.no_panic("validate-alt-routes", || json!({"cert": hex(der_bytes), "now": now, "strict": strict}), move || {
        let mut out = Vec::new();
        let Ok(cert) = Cert::decode(der_bytes) else { return out };
        let t = time_at(now);
        // two-step
        let two = match kind {
            Kind::Ta => cert.inspect_ta(strict).is_ok() && cert.clone().verify_ta_at(tal.clone(), strict, t).is_ok(),
            Kind::Ca => cert.inspect_ca(strict).is_ok() && cert.clone().verify_ca_at(issuer.unwrap(), strict, t).is_ok(),
            Kind::Ee => cert.inspect_ee(strict).is_ok() && cert.clone().verify_ee_at(issuer.unwrap(), strict, t).is_ok(),
            Kind::Router => cert.inspect_router(strict).is_ok() && cert.verify_router_at(issuer.unwrap(), strict, t).is_ok(),
        };
        out.push(("inspect-then-verify", two));
        // through serde
        if let Ok(js) = serde_json::to_string(&cert) {
            if let Ok(back) = serde_json::from_str::<Cert>(&js) {
                let ok = match kind {
                    Kind::Ta => back.validate_ta_at(tal, strict, t).is_ok(),
                    Kind::Ca => back.validate_ca_at(issuer.unwrap(), strict, t).is_ok(),
                    Kind::Ee => back.validate_ee_at(issuer.unwrap(), strict, t).is_ok(),
                    Kind::Router => back.validate_router_at(issuer.unwrap(), strict, t).is_ok(),
                };
                out.push(("after-serde-roundtrip", ok));
            }
        }
        out
    });
    res.unwrap_or_default()
}

fn node_ta_der(ta: &Spec, w: &World) -> Vec<u8> {
    build(w, ta)
}

/// Asserts rejection of a tampered variant.
fn expect_reject(ctx: &mut Ctx, w: &World, variant: &str, kind: Kind, der_bytes: &[u8], issuer: Option<&ResourceCert>, strict: bool, now: i64, detail: &Value) {
    ctx.eval();
    ctx.sig(&format!("tamper {} {:?}", variant, kind));
    ctx.obs(&format!("tamper_{}", variant), 1);
    let out = validate(ctx, w, kind, der_bytes, issuer, strict, now);
    if let Some(Outcome::Rejected(e)) = &out {
        ctx.sample(&format!("tamper-{}", variant), || json!({"variant": variant, "kind": format!("{:?}", kind), "now": now, "observed": format!("rejected: {}", e)}));
    }
    if !variant.starts_with("bitflip") {
        for (route, accepted) in alt_routes(ctx, w, kind, der_bytes, issuer, strict, now) {
            ctx.eval();
            if accepted {
                ctx.violation(
                    &format!("C01:accepts:{}:{}:{}", variant, format!("{:?}", kind).to_lowercase(), route),
                    &format!("a certificate with a single non-conforming input ({}) was accepted via {}", variant, route),
                    json!({"variant": variant, "route": route, "cert": hex(der_bytes), "now": now, "strict": strict, "case": detail}),
                );
            }
        }
    }
    if kind == Kind::Ee {
        if let Some(iss) = issuer {
            ctx.eval();
            if let Some(Outcome::Accepted(_)) = validate_detached(ctx, der_bytes, iss, strict, now) {
                ctx.violation(
                    &format!("C01:accepts:{}:detached-ee", variant),
                    &format!("validate_detached_ee_at accepted a certificate with a single non-conforming input ({})", variant),
                    json!({"variant": variant, "cert": hex(der_bytes), "now": now, "strict": strict, "case": detail}),
                );
            }
        }
    }
    if let Some(Outcome::Accepted(_)) = out {
        ctx.violation(
            &format!("C01:accepts:{}:{}", variant, format!("{:?}", kind).to_lowercase()),
            &format!("a certificate with a single non-conforming input ({}) was accepted", variant),
            json!({"variant": variant, "cert": hex(der_bytes), "now": now, "strict": strict, "case": detail}),
        );
    }
}

/// Rebuilds the certificate DER around a modified TBS, signed by `key` with
/// aws-lc-rs directly.
fn resign(pool: &PoolSigner, cert_der: &[u8], new_tbs: &[u8], key: usize) -> Option<Vec<u8>> {
    let root = der::parse(cert_der)?;
    let alg = root.child(1)?.whole(cert_der).to_vec();
    let sig = pool.key(key).sign_raw(new_tbs);
    Some(der::seq(&[new_tbs, &alg, &der::bitstring(0, &sig)]))
}

struct Node {
    der_bytes: Vec<u8>,
    rc: ResourceCert,
    eff: [IntervalSet; 3],
    key: usize,
    depth: usize,
    nb: i64,
    na: i64,
}

fn run_chain(ctx: &mut Ctx, w: &World, rng: &mut Rng, chain_no: u64) {
    let nkeys = w.pool.len();
    // evaluation instants in several eras so that validity windows are encoded
    // as UTCTime on both sides of the two-digit-year pivot and as GeneralizedTime
    let era: i64 = match rng.below(8) {
        0 => -473_385_600,            // 1955-01-01 (UTCTime year 55)
        1 => -31_536_000,             // 1969-01-01
        2 => 0,                       // 1970-01-01
        3 => 946_684_800,             // 2000-01-01
        4 => 2_524_608_000 - 86_400 * 200, // mid 2049, windows straddle 2049/2050
        5 => 2_840_140_800,           // 2060-01-01 (GeneralizedTime)
        6 => -631_152_000 + 86_400 * 400,  // early 1951, notBefore may fall before 1950
        _ => 1_700_000_000,
    };
    let base: i64 = era + (rng.below(1000) as i64) * 86_400 + rng.below(86_400) as i64;
    let strict = rng.bool();
    // ---- trust anchor
    let ta_key = rng.usize_below(nkeys);
    let (nb, na) = (base - 86_400 * 30, base + 86_400 * 365);
    let ta_claims = gen_ta_claims(rng);
    let ta = Spec {
        kind: Kind::Ta, key: ta_key, issuer_key: ta_key, serial: 1 + rng.below(1 << 40), not_before: nb, not_after: na,
        overclaim: if rng.bool() { Overclaim::Refuse } else { Overclaim::Trim }, claims: ta_claims.clone(), aki: AkiChoice::Issuer,
        issuer_name: None, subject_name: None, router_key: None,
    };
    let ta_der = build(w, &ta);
    let detail = json!({"chain": chain_no, "ta_claims": claims_json(&ta_claims)});
    ctx.eval();
    let ta_eff: [IntervalSet; 3] = {
        let f = |c: &Claim| match c {
            Claim::Blocks(m) => m.clone(),
            _ => IntervalSet::empty(),
        };
        [f(&ta_claims[0]), f(&ta_claims[1]), f(&ta_claims[2])]
    };
    let ta_rc = match validate(ctx, w, Kind::Ta, &ta_der, None, strict, base) {
        Some(Outcome::Accepted(Some(rc))) => rc,
        Some(Outcome::Rejected(e)) => {
            ctx.violation("C01:rejects-conforming:ta", "a conforming trust anchor certificate was rejected", json!({"error": e, "cert": hex(&ta_der), "case": detail}));
            return;
        }
        _ => return,
    };
    ctx.sig(&format!("ta claims {}/{}/{}", ta_claims[0].tag(), ta_claims[1].tag(), ta_claims[2].tag()));
    let everything = [
        IntervalSet::from_ranges(&[(0, Flavour::As.max())]),
        IntervalSet::from_ranges(&[(0, Flavour::V4.max())]),
        IntervalSet::from_ranges(&[(0, Flavour::V6.max())]),
    ];
    check_resources(ctx, "ta", &ta_rc, &ta_eff, &everything, &detail);
    // TA tampers
    if rng.chance(1, 3) {
        // the by-reference trust anchor path must agree
        ctx.eval();
        if let Some(Outcome::Rejected(e)) = validate_ta_ref(ctx, &node_ta_der(&ta, w), strict, base) {
            ctx.violation("C01:rejects-conforming:ta-by-reference", "a conforming trust anchor certificate was rejected by verify_ta_ref_at", json!({"error": e, "case": detail}));
        }
        // inherited resources in a trust anchor (each family in turn over the runs)
        let mut s = ta.clone();
        let fam = rng.usize_below(3);
        s.claims[fam] = Claim::Inherit;
        let d = build(w, &s);
        expect_reject(ctx, w, "ta-inherit", Kind::Ta, &d, None, strict, base, &detail);
        ctx.eval();
        ctx.sig(&format!("tamper ta-inherit-by-reference family={}", fam));
        if let Some(Outcome::Accepted(_)) = validate_ta_ref(ctx, &d, strict, base) {
            ctx.violation(
                &format!("C01:accepts:ta-inherit-by-reference:{}", FLS[fam].name()),
                "a trust anchor certificate with inherited resources was accepted by verify_ta_ref_at",
                json!({"family": FLS[fam].name(), "cert": hex(&d), "case": detail}),
            );
        }
        // self-signature by another key
        let mut s = ta.clone();
        s.issuer_key = (ta_key + 1) % nkeys;
        s.issuer_name = Some(w.pool.info(ta_key).to_subject_name());
        let d = build(w, &s);
        expect_reject(ctx, w, "ta-signed-by-other-key", Kind::Ta, &d, None, strict, base, &detail);
        // time
        expect_reject(ctx, w, "time-before", Kind::Ta, &ta_der, None, strict, nb - 1, &detail);
        expect_reject(ctx, w, "time-after", Kind::Ta, &ta_der, None, strict, na + 1, &detail);
    }
    let mut node = Node { der_bytes: ta_der, rc: ta_rc, eff: ta_eff, key: ta_key, depth: 0, nb, na };
    // ---- descend
    let depth = rng.below(4) as usize;
    for level in 0..=depth {
        let leaf = level == depth;
        let kind = if !leaf {
            Kind::Ca
        } else {
            match rng.below(4) {
                0 => Kind::Ca,
                1 => Kind::Router,
                _ => Kind::Ee,
            }
        };
        if kind == Kind::Router && node.eff[0].is_empty() {
            break;
        }
        let want_over = rng.chance(1, 3);
        let (claims, over, tags) = gen_child_claims(rng, &node.eff, kind, want_over);
        if kind == Kind::Router && !matches!(claims[0], Claim::Blocks(_)) {
            break;
        }
        let overclaim = if rng.bool() { Overclaim::Refuse } else { Overclaim::Trim };
        let key = (node.key + 1 + rng.usize_below(nkeys - 1)) % nkeys;
        // window chosen around the evaluation instant, including both ends exactly
        let (cnb, cna, now) = match rng.below(6) {
            0 => (base, base + 1000, base),
            1 => (base - 1000, base, base),
            2 => (base, base, base),
            _ => (base - 86_400 * (1 + rng.below(20) as i64), base + 86_400 * (1 + rng.below(300) as i64), base),
        };
        let spec = Spec {
            kind, key, issuer_key: node.key, serial: 2 + rng.below(1 << 50), not_before: cnb, not_after: cna, overclaim,
            claims: claims.clone(), aki: AkiChoice::Issuer, issuer_name: Some(node.rc.subject().clone()), subject_name: None,
            router_key: if kind == Kind::Router { Some(rng.pick(&w.router_keys).clone()) } else { None },
        };
        let d = build(w, &spec);
        let detail = json!({
            "chain": chain_no, "level": level, "kind": format!("{:?}", kind), "policy": format!("{:?}", overclaim),
            "claims": claims_json(&claims),
            "issuer_effective": {"as": set_json(&node.eff[0]), "v4": set_json(&node.eff[1]), "v6": set_json(&node.eff[2])},
            "window": [cnb, cna], "now": now,
        });
        let want = expected_eff(&node.eff, &claims, overclaim);
        ctx.eval();
        ctx.sig(&format!("{:?} depth={} {:?} claims={} expect={}", kind, node.depth + 1, overclaim, tags, if want.is_some() { "accept" } else { "reject" }));
        let outcome = validate(ctx, w, kind, &d, Some(&node.rc), strict, now);
        {
            let observed = match &outcome {
                Some(Outcome::Accepted(_)) => "accepted".to_string(),
                Some(Outcome::Rejected(e)) => format!("rejected: {}", e),
                None => "panic".to_string(),
            };
            let key = if want.is_some() { "link-expected-accept" } else { "link-expected-reject" };
            ctx.sample(key, || json!({"case": detail, "observed": observed}));
        }
        let rc = match (outcome, &want) {
            (Some(Outcome::Accepted(rc)), Some(eff)) => {
                ctx.obs("accepted", 1);
                if over {
                    ctx.obs("trimmed_overclaim_accepted", 1);
                }
                if let Some(rc) = &rc {
                    check_resources(ctx, &format!("{:?}", kind).to_lowercase(), rc, eff, &node.eff, &detail);
                }
                rc
            }
            (Some(Outcome::Accepted(_)), None) => {
                ctx.violation(&format!("C01:accepts:overclaim-refuse:{}", format!("{:?}", kind).to_lowercase()), "a no-overclaim certificate claiming resources outside its issuer was accepted", json!({"cert": hex(&d), "case": detail}));
                None
            }
            (Some(Outcome::Rejected(e)), Some(_)) => {
                ctx.violation(&format!("C01:rejects-conforming:{}", format!("{:?}", kind).to_lowercase()), "a correctly issued certificate was rejected", json!({"error": e, "cert": hex(&d), "case": detail}));
                None
            }
            (Some(Outcome::Rejected(_)), None) => {
                ctx.obs("rejected_overclaim", 1);
                None
            }
            (None, _) => None,
        };
        if want.is_some() && rng.chance(1, 4) {
            for (route, accepted) in alt_routes(ctx, w, kind, &d, Some(&node.rc), strict, now) {
                ctx.eval();
                ctx.sig(&format!("route {} {:?}", route, kind));
                if !accepted {
                    ctx.violation(
                        &format!("C01:rejects-conforming:{}:{}", format!("{:?}", kind).to_lowercase(), route),
                        &format!("a correctly issued certificate is accepted by validate_*_at but rejected via {}", route),
                        json!({"route": route, "cert": hex(&d), "case": detail}),
                    );
                }
            }
        }
        if kind == Kind::Ee {
            if let Some(eff) = &want {
                ctx.eval();
                match validate_detached(ctx, &d, &node.rc, strict, now) {
                    Some(Outcome::Accepted(Some(rc))) => check_resources(ctx, "detached-ee", &rc, eff, &node.eff, &detail),
                    Some(Outcome::Rejected(e)) => ctx.violation("C01:rejects-conforming:detached-ee", "a correctly issued EE certificate was rejected by validate_detached_ee_at", json!({"error": e, "cert": hex(&d), "case": detail})),
                    _ => {}
                }
            }
        }
        if want.is_none() {
            break;
        }
        // ---- single-point tampers of this valid (cert, issuer, time)
        let tamper_budget = if ctx.stage == Stage::Valgrind { 2 } else { 1 };
        if rng.chance(tamper_budget, 2) {
            tampers(ctx, w, rng, &spec, &d, &node, strict, now, &detail);
        }
        match (kind, rc, want) {
            (Kind::Ca, Some(rc), Some(eff)) => {
                node = Node { der_bytes: d, rc, eff, key, depth: node.depth + 1, nb: cnb, na: cna };
            }
            _ => break,
        }
    }
    let _ = (&node.der_bytes, node.nb, node.na);
    ctx.drain_chain_hook(|| json!({"chain": chain_no}));
}

#[allow(clippy::too_many_arguments)]
fn tampers(ctx: &mut Ctx, w: &World, rng: &mut Rng, spec: &Spec, d: &[u8], issuer: &Node, strict: bool, now: i64, detail: &Value) {
    let kind = spec.kind;
    let nkeys = w.pool.len();
    // 1. time just outside either end (and exactly at the ends: must still be accepted)
    expect_reject(ctx, w, "time-before", kind, d, Some(&issuer.rc), strict, spec.not_before - 1, detail);
    expect_reject(ctx, w, "time-after", kind, d, Some(&issuer.rc), strict, spec.not_after + 1, detail);
    for (edge, t) in [("at-not-before", spec.not_before), ("at-not-after", spec.not_after)] {
        ctx.eval();
        ctx.sig(&format!("edge {} {:?}", edge, kind));
        if let Some(Outcome::Rejected(e)) = validate(ctx, w, kind, d, Some(&issuer.rc), strict, t) {
            ctx.violation(&format!("C01:rejects-conforming:{}", edge), "a certificate was rejected at an instant inside its validity window (end points are inclusive)", json!({"error": e, "cert": hex(d), "now": t, "case": detail}));
        }
    }
    // 1b. a fraction of a second outside either end (evaluation times are not whole seconds in practice)
    for (variant, t, ns) in [("time-1ms-after", spec.not_after, 1_000_000u32), ("time-999ms-after", spec.not_after, 999_000_000), ("time-1ms-before", spec.not_before - 1, 999_000_000)] {
        ctx.eval();
        ctx.sig(&format!("tamper {} {:?}", variant, kind));
        ctx.obs(&format!("tamper_{}", variant), 1);
        if let Some(Outcome::Accepted(_)) = validate_ns(ctx, w, kind, d, Some(&issuer.rc), strict, t, ns) {
            ctx.violation(
                &format!("C01:accepts:{}:{}", variant, format!("{:?}", kind).to_lowercase()),
                "a certificate was accepted at an instant a fraction of a second outside its validity window",
                json!({"variant": variant, "cert": hex(d), "seconds": t, "nanos": ns, "case": detail}),
            );
        }
    }
    // 1c. notBefore and notAfter swapped in the encoding (re-signed): the window is
    // empty, so no instant lies inside it
    if spec.not_before < spec.not_after {
        if let Some(root) = der::parse(d) {
            if let Some(tbs) = root.child(0) {
                // Validity is the SEQUENCE of two time values among the TBS children
                let vidx = tbs.children.iter().position(|c| c.tag == der::T_SEQUENCE && c.children.len() == 2 && c.children.iter().all(|t| t.tag == der::T_UTCTIME || t.tag == der::T_GENTIME));
                if let Some(vidx) = vidx {
                    let v = &tbs.children[vidx];
                    let swapped = der::seq(&[v.children[1].whole(d), v.children[0].whole(d)]);
                    let tbs_bytes = tbs.whole(d).to_vec();
                    let tbs_root = der::parse(&tbs_bytes).unwrap();
                    let new_tbs = der::replace_node(&tbs_bytes, &tbs_root, &[vidx], &swapped);
                    if let Some(x) = resign(w.pool, d, &new_tbs, issuer.key) {
                        for t in [now, spec.not_before, spec.not_after, (spec.not_before + spec.not_after) / 2] {
                            expect_reject(ctx, w, "window-inverted", kind, &x, Some(&issuer.rc), strict, t, detail);
                        }
                    }
                }
            }
        }
    }
    // 2. AKI missing / different, correctly re-signed by the issuer
    let mut s = spec.clone();
    s.aki = AkiChoice::None;
    let x = build(w, &s);
    expect_reject(ctx, w, "aki-missing", kind, &x, Some(&issuer.rc), strict, now, detail);
    let mut s = spec.clone();
    s.aki = AkiChoice::Other((issuer.key + 1 + rng.usize_below(nkeys - 1)) % nkeys);
    let x = build(w, &s);
    expect_reject(ctx, w, "aki-other", kind, &x, Some(&issuer.rc), strict, now, detail);
    let mut s = spec.clone();
    s.aki = AkiChoice::Flip(match rng.below(3) { 0 => 159, 1 => 0, _ => rng.usize_below(160) });
    let x = build(w, &s);
    expect_reject(ctx, w, "aki-one-bit-off", kind, &x, Some(&issuer.rc), strict, now, detail);
    // 3. claims to be issued by the issuer (AKI, issuer name) but is signed by another key
    let mut s = spec.clone();
    s.issuer_key = (issuer.key + 1 + rng.usize_below(nkeys - 1)) % nkeys;
    s.aki = AkiChoice::Other(issuer.key);
    let x = build(w, &s);
    expect_reject(ctx, w, "signed-by-other-key", kind, &x, Some(&issuer.rc), strict, now, detail);
    // 4. SKI patched inside the TBS and correctly re-signed (only the SKI check can object)
    if let Some(root) = der::parse(d) {
        let tbs = root.child(0).map(|n| n.whole(d).to_vec()).unwrap_or_default();
        let ski = if kind == Kind::Router { spec.router_key.as_ref().map(|k| k.key_identifier()) } else { Some(w.pool.info(spec.key).key_identifier()) };
        if let Some(ski) = ski {
            let needle = ski.as_slice();
            // the SKI extension value: OCTET STRING(20) right after its own OCTET STRING wrapper
            let positions: Vec<usize> = (0..tbs.len().saturating_sub(22)).filter(|i| tbs[*i] == 0x04 && tbs[i + 1] == 0x14 && &tbs[i + 2..i + 22] == needle).collect();
            if positions.len() == 1 {
                let mut t2 = tbs.clone();
                let bit = rng.below(160) as usize;
                t2[positions[0] + 2 + bit / 8] ^= 1 << (bit % 8);
                if let Some(x) = resign(w.pool, d, &t2, issuer.key) {
                    expect_reject(ctx, w, "ski-not-key-hash", kind, &x, Some(&issuer.rc), strict, now, detail);
                }
            } else {
                ctx.obs("ski_patch_position_ambiguous", 1);
            }
        }
        // 5. bit flips in the signed bytes and in the signature value
        let sig = root.child(2).cloned();
        let tbs_node = root.child(0).cloned();
        if let (Some(sig), Some(tbs_node)) = (sig, tbs_node) {
            let exhaustive = ctx.tier == Tier::Thorough && ctx.stage == Stage::Native && rng.chance(1, 150);
            let ranges = [(tbs_node.start, tbs_node.end, "tbs"), (sig.content_start + 1, sig.content_end, "signature")];
            for (lo, hi, what) in ranges {
                let nbits = (hi - lo) * 8;
                let flips: Vec<usize> = if exhaustive { (0..nbits).collect() } else { (0..6).map(|_| rng.usize_below(nbits)).collect() };
                if exhaustive {
                    ctx.obs("exhaustive_flip_certs", 1);
                }
                for bit in flips {
                    let mut x = d.to_vec();
                    x[lo + bit / 8] ^= 1 << (bit % 8);
                    ctx.eval();
                    ctx.obs(&format!("bitflip_{}", what), 1);
                    if let Some(Outcome::Accepted(_)) = validate(ctx, w, kind, &x, Some(&issuer.rc), strict, now) {
                        ctx.violation(
                            &format!("C01:accepts:bitflip-{}:{}", what, format!("{:?}", kind).to_lowercase()),
                            "a certificate with one flipped bit in its signed bytes or signature was accepted",
                            json!({"bit": bit, "region": what, "cert": hex(&x), "now": now, "case": detail}),
                        );
                    }
                }
                ctx.sig(&format!("bitflip {} {:?}", what, kind));
            }
        }
    }
    // 6. validated under a different issuer: same subject name, different key
    let other_key = (issuer.key + 1 + rng.usize_below(nkeys - 1)) % nkeys;
    let imp = Spec {
        kind: Kind::Ta, key: other_key, issuer_key: other_key, serial: 77, not_before: issuer.nb.min(now) - 10, not_after: issuer.na.max(now) + 10,
        overclaim: Overclaim::Refuse,
        claims: [Claim::Blocks(IntervalSet::from_ranges(&[(0, Flavour::As.max())])), Claim::Blocks(IntervalSet::from_ranges(&[(0, Flavour::V4.max())])), Claim::Blocks(IntervalSet::from_ranges(&[(0, Flavour::V6.max())]))],
        aki: AkiChoice::Issuer, issuer_name: Some(issuer.rc.subject().clone()), subject_name: Some(issuer.rc.subject().clone()), router_key: None,
    };
    let imp_der = build(w, &imp);
    if let Some(Outcome::Accepted(Some(imp_rc))) = validate(ctx, w, Kind::Ta, &imp_der, None, strict, now) {
        expect_reject(ctx, w, "other-issuer-same-name", kind, d, Some(&imp_rc), strict, now, detail);
    } else {
        ctx.obs("impostor_ta_not_accepted", 1);
    }
}

pub fn run(ctx: &mut Ctx) {
    if ctx.no_ffi() {
        ctx.notes.push("C01 needs signatures (aws-lc, FFI): not run under Miri".into());
        return;
    }
    let pool = PoolSigner::new(6);
    let w = World {
        pool: &pool,
        tal: TalInfo::from_name("verif".into()).into_arc(),
        uri: uri::Rsync::from_str("rsync://example.com/m/p").unwrap(),
        router_keys: (0..2).map(|_| PublicKey::decode(crate::keys::p256_spki().as_slice()).unwrap()).collect(),
    };
    let chains = ctx.stage_budget((20_000, 600_000), 3_000, 0, 24);
    let mut rng = ctx.rng("chains");
    for i in 0..chains {
        run_chain(ctx, &w, &mut rng, i);
    }
    ctx.obs("signatures_made", pool.signatures.get());
}
