//! C01 — certificate validation: only correctly issued certificates are
//! accepted and the validated resources never grow.
//!
//! Workload: chains TA -> CA^k -> {CA, EE, router} built with the library's
//! TbsCert under the PoolSigner, encoded and re-decoded (the path a relying
//! party takes), plus single-point tampers of valid (cert, issuer, time)
//! triples. Oracle: the conjunction in the statement evaluated from the
//! parameters the harness chose, and an interval-set model of the effective
//! resources. Valid links are also re-issued with one extension rewritten by
//! the harness' own DER writer (resource extensions in shapes the builder
//! cannot produce, key identifiers of other lengths and encodings) and signed
//! with the issuer key: see `encoder_shapes` and `keyid_shapes`. Key
//! identifiers computed from the RIGHT key in another way than the SHA-1 hash
//! of the key bits (a dictionary of sources x hash functions x truncations)
//! are planted through every validate / inspect+verify entry point, strict and
//! relaxed: see `derivations`, `derivation_sweep` and `derived_in_chain`.

use crate::c03_gen::{sequence, Flavour};
use crate::core::{hex, Ctx, Rng, Stage, Tier};
use crate::der;
use crate::keys::PoolSigner;
use crate::model::IntervalSet;
use rpki::crypto::keys::PublicKey;
use rpki::repository::cert::{Cert, ExtendedKeyUsage, KeyUsage, Overclaim, ResourceCert, TbsCert};
use rpki::repository::resources::{
    Addr, AsBlock, AsBlocks, AsResources, Asn, IpBlock, IpBlocks, IpResources,
};
use rpki::repository::tal::TalInfo;
use rpki::repository::x509::{Name, Time, Validity};
use rpki::uri;
use serde_json::{json, Value};
use std::str::FromStr;
use std::sync::Arc;

const FLS: [Flavour; 3] = [Flavour::As, Flavour::V4, Flavour::V6];

pub fn time_at_ns(secs: i64, nanos: u32) -> Time {
    Time::new(chrono::DateTime::<chrono::Utc>::from_timestamp(secs, nanos).unwrap())
}

pub fn time_at(secs: i64) -> Time {
    Time::new(chrono::DateTime::<chrono::Utc>::from_timestamp(secs, 0).unwrap())
}

/// How a family's resources are expressed in a certificate.
#[derive(Clone, Debug, PartialEq)]
pub enum Claim {
    Missing,
    Inherit,
    Blocks(IntervalSet), // element space
}

impl Claim {
    fn tag(&self) -> &'static str {
        match self {
            Claim::Missing => "missing",
            Claim::Inherit => "inherit",
            Claim::Blocks(_) => "blocks",
        }
    }
}

pub fn as_blocks(m: &IntervalSet) -> AsBlocks {
    AsBlocks::from_iter(m.iv.iter().map(|(a, b)| {
        if a == b {
            AsBlock::Id(Asn::from_u32(*a as u32))
        } else {
            AsBlock::from((Asn::from_u32(*a as u32), Asn::from_u32(*b as u32)))
        }
    }))
}

pub fn ip_blocks(fl: Flavour, m: &IntervalSet) -> IpBlocks {
    IpBlocks::from_iter(m.iv.iter().map(|(a, b)| {
        let (x, y) = fl.embed(*a, *b);
        IpBlock::from((Addr::from_bits(x), Addr::from_bits(y)))
    }))
}

/// Observed blocks of a validated certificate in element space; Err if an
/// IPv4 block is not aligned to the /32 convention.
fn observe(fl: Flavour, rc: &ResourceCert) -> Result<Vec<(u128, u128)>, String> {
    match fl {
        Flavour::As => Ok(rc.as_resources().iter().map(|b| (b.min().into_u32() as u128, b.max().into_u32() as u128)).collect()),
        Flavour::V6 => Ok(rc.v6_resources().iter().map(|b| (b.min().to_bits(), b.max().to_bits())).collect()),
        Flavour::V4 => {
            let low = (1u128 << 96) - 1;
            let mut out = Vec::new();
            for b in rc.v4_resources().iter() {
                let (lo, hi) = (b.min().to_bits(), b.max().to_bits());
                if lo & low != 0 || hi & low != low {
                    return Err(format!("IPv4 block {:x}-{:x} not aligned", lo, hi));
                }
                out.push((lo >> 96, hi >> 96));
            }
            Ok(out)
        }
    }
}

fn canonical(blocks: &[(u128, u128)]) -> bool {
    blocks.iter().all(|(a, b)| a <= b)
        && blocks.windows(2).all(|w| w[1].0 > w[0].1 && !(w[0].1 != u128::MAX && w[1].0 == w[0].1 + 1))
}

#[derive(Clone, Copy, Debug, PartialEq)]
enum Kind {
    Ta,
    Ca,
    Ee,
    Router,
}

#[derive(Clone)]
struct Spec {
    kind: Kind,
    key: usize,        // subject key (pool index); router: ignored
    issuer_key: usize, // signing key
    serial: u64,
    not_before: i64,
    not_after: i64,
    overclaim: Overclaim,
    claims: [Claim; 3],
    aki: AkiChoice,
    issuer_name: Option<Name>,
    subject_name: Option<Name>,
    router_key: Option<PublicKey>,
}

#[derive(Clone, Debug, PartialEq)]
enum AkiChoice {
    Issuer,
    None,
    Other(usize),
    /// the issuer's key identifier with one bit flipped
    Flip(usize),
}

struct World<'a> {
    pool: &'a PoolSigner,
    tal: Arc<TalInfo>,
    uri: uri::Rsync,
    router_keys: Vec<PublicKey>,
    /// what the harness worked out by itself about every pool key / router key
    /// (same order): the required identifier and the alternative derivations
    pool_facts: Vec<KeyFacts>,
    router_facts: Vec<KeyFacts>,
}

fn build(w: &World, s: &Spec) -> Vec<u8> {
    let subject_key = match (&s.kind, &s.router_key) {
        (Kind::Router, Some(k)) => k.clone(),
        _ => w.pool.info(s.key),
    };
    let issuer_info = w.pool.info(s.issuer_key);
    let issuer_name = s.issuer_name.clone().unwrap_or_else(|| issuer_info.to_subject_name());
    let usage = match s.kind {
        Kind::Ta | Kind::Ca => KeyUsage::Ca,
        _ => KeyUsage::Ee,
    };
    let mut tbs = TbsCert::new(
        s.serial.into(),
        issuer_name,
        Validity::new(time_at(s.not_before), time_at(s.not_after)),
        s.subject_name.clone(),
        subject_key,
        usage,
        s.overclaim,
    );
    match s.kind {
        Kind::Ta | Kind::Ca => {
            tbs.set_basic_ca(Some(true));
            tbs.set_ca_repository(Some(w.uri.clone()));
            tbs.set_rpki_manifest(Some(w.uri.clone()));
        }
        Kind::Ee => tbs.set_signed_object(Some(w.uri.clone())),
        Kind::Router => tbs.set_extended_key_usage(Some(ExtendedKeyUsage::create_router())),
    }
    if s.kind != Kind::Ta {
        tbs.set_crl_uri(Some(w.uri.clone()));
        tbs.set_ca_issuer(Some(w.uri.clone()));
        match s.aki {
            AkiChoice::Issuer => tbs.set_authority_key_identifier(Some(issuer_info.key_identifier())),
            AkiChoice::None => {}
            AkiChoice::Other(k) => tbs.set_authority_key_identifier(Some(w.pool.info(k).key_identifier())),
            AkiChoice::Flip(bit) => {
                let mut raw: [u8; 20] = issuer_info.key_identifier().into();
                raw[(bit / 8) % 20] ^= 1 << (bit % 8);
                tbs.set_authority_key_identifier(Some(raw.into()))
            }
        }
    }
    match &s.claims[0] {
        Claim::Missing => {}
        Claim::Inherit => tbs.set_as_resources(AsResources::inherit()),
        Claim::Blocks(m) => tbs.set_as_resources(AsResources::blocks(as_blocks(m))),
    }
    match &s.claims[1] {
        Claim::Missing => {}
        Claim::Inherit => tbs.set_v4_resources(IpResources::inherit()),
        Claim::Blocks(m) => tbs.set_v4_resources(IpResources::blocks(ip_blocks(Flavour::V4, m))),
    }
    match &s.claims[2] {
        Claim::Missing => {}
        Claim::Inherit => tbs.set_v6_resources(IpResources::inherit()),
        Claim::Blocks(m) => tbs.set_v6_resources(IpResources::blocks(ip_blocks(Flavour::V6, m))),
    }
    let cert = tbs.into_cert(w.pool, &s.issuer_key).expect("sign");
    cert.to_captured().as_slice().to_vec()
}

/// Random non-empty subset of an element-space set, with boundary-hugging blocks.
fn subset_of(rng: &mut Rng, eff: &IntervalSet) -> IntervalSet {
    if eff.is_empty() {
        return IntervalSet::empty();
    }
    let mut out = Vec::new();
    for _ in 0..1 + rng.below(3) {
        let (lo, hi) = *rng.pick(&eff.iv);
        let span = hi - lo;
        let pick = |rng: &mut Rng| -> u128 {
            match rng.below(5) {
                0 => lo,
                1 => hi,
                2 => lo + span.min(1),
                3 => hi - span.min(1),
                _ => lo + if span == u128::MAX { rng.next_u128() } else { rng.next_u128() % (span + 1) },
            }
        };
        let a = pick(rng);
        let b = pick(rng);
        out.push((a.min(b), a.max(b)));
    }
    IntervalSet::from_ranges(&out)
}

/// A set that is NOT inside `eff`: a subset plus something sticking out by as
/// little as possible. Returns None if `eff` is everything.
fn overclaim_of(rng: &mut Rng, fl: Flavour, eff: &IntervalSet) -> Option<(IntervalSet, &'static str)> {
    let max = fl.max();
    let all = IntervalSet::from_ranges(&[(0, max)]);
    let gaps = all.difference(eff);
    if gaps.is_empty() {
        return None;
    }
    let (glo, ghi) = *rng.pick(&gaps.iv);
    let base = subset_of(rng, eff);
    let (extra, how) = match rng.below(4) {
        // stick out by exactly one element at the upper end of an issuer block
        0 if glo > 0 => ((glo - 1, glo), "one-past-end"),
        // stick out by one element below an issuer block
        1 if ghi < max => ((ghi, ghi + 1), "one-before-start"),
        // a single element in a gap
        2 => ((glo, glo), "in-gap"),
        // straddle: the whole gap plus both neighbours
        _ => ((glo.saturating_sub(1), ghi.saturating_add(1).min(max)), "straddle"),
    };
    let m = base.union(&IntervalSet::from_ranges(&[extra]));
    if m.is_subset_of(eff) {
        None
    } else {
        Some((m, how))
    }
}

/// A set of `n` blocks (the library may switch algorithms with the length of
/// a chain): short blocks and single elements with gaps of at least one
/// element between them, somewhere in the number space or hugging its end.
fn long_set(rng: &mut Rng, fl: Flavour, n: usize) -> IntervalSet {
    let max = fl.max();
    let unit: u128 = if fl == Flavour::V4 { 1u128 << 96 } else { 1 };
    let room = (max / unit).saturating_sub(16 * n as u128 + 16);
    let start = match rng.below(3) {
        0 => 0,
        1 => room,
        _ => rng.next_u128() % (room + 1),
    };
    let mut v = Vec::with_capacity(n);
    let mut pos = start;
    for _ in 0..n {
        let len = *rng.pick(&[1u128, 1, 2, 3, 4, 8]);
        let gap = *rng.pick(&[1u128, 1, 2, 5, 7]);
        let lo = pos * unit;
        let hi = (pos + len - 1) * unit + (unit - 1);
        v.push((lo, hi.min(max)));
        pos += len + gap;
    }
    IntervalSet::from_ranges(&v)
}

fn gen_ta_claims(rng: &mut Rng) -> [Claim; 3] {
    let mut c: Vec<Claim> = FLS
        .iter()
        .map(|fl| match rng.below(7) {
            0 => Claim::Missing,
            1 => Claim::Blocks(IntervalSet::from_ranges(&[(0, fl.max())])),
            2 if rng.bool() => {
                let n = *rng.pick(&[15usize, 16, 17, 31, 32, 33, 48, 63, 64, 65, 127, 128, 129, 200, 255, 256, 257, 600]);
                Claim::Blocks(long_set(rng, *fl, n))
            }
            _ => {
                let s = sequence(*fl, rng, 6);
                let m = IntervalSet::from_ranges(&s.blocks);
                if m.is_empty() {
                    Claim::Missing
                } else {
                    Claim::Blocks(m)
                }
            }
        })
        .collect();
    if c.iter().all(|x| *x == Claim::Missing) {
        c[0] = Claim::Blocks(IntervalSet::from_ranges(&[(0, 65535)]));
    }
    [c[0].clone(), c[1].clone(), c[2].clone()]
}

/// Child claims relative to the issuer's effective sets. Returns the claims,
/// whether they overclaim, and a tag per family.
fn gen_child_claims(rng: &mut Rng, eff: &[IntervalSet; 3], kind: Kind, want_overclaim: bool) -> ([Claim; 3], bool, String) {
    let mut claims = Vec::new();
    let mut over = false;
    let mut tags = Vec::new();
    let over_family = if want_overclaim { Some(if kind == Kind::Router { 0 } else { rng.usize_below(3) }) } else { None };
    for (i, fl) in FLS.iter().enumerate() {
        if kind == Kind::Router && i > 0 {
            claims.push(Claim::Missing);
            tags.push("missing".to_string());
            continue;
        }
        if over_family == Some(i) {
            if let Some((m, how)) = overclaim_of(rng, *fl, &eff[i]) {
                claims.push(Claim::Blocks(m));
                tags.push(format!("over:{}", how));
                over = true;
                continue;
            }
        }
        let c = match rng.below(if kind == Kind::Router { 1 } else { 5 }) {
            1 => Claim::Missing,
            2 if kind != Kind::Router => Claim::Inherit,
            _ => {
                let m = if rng.chance(1, 5) { eff[i].clone() } else { subset_of(rng, &eff[i]) };
                if m.is_empty() {
                    Claim::Missing
                } else {
                    Claim::Blocks(m)
                }
            }
        };
        tags.push(c.tag().to_string());
        claims.push(c);
    }
    if claims.iter().all(|x| *x == Claim::Missing) {
        // the profile requires at least one resource extension
        if kind == Kind::Router {
            // a router certificate needs explicit AS numbers; if the issuer has none, skip
            claims[0] = Claim::Missing;
        } else {
            claims[0] = Claim::Inherit;
            tags[0] = "inherit".into();
        }
    }
    ([claims[0].clone(), claims[1].clone(), claims[2].clone()], over, tags.join("/"))
}

/// Model of the validated resources. None = validation must fail.
fn expected_eff(issuer: &[IntervalSet; 3], claims: &[Claim; 3], overclaim: Overclaim) -> Option<[IntervalSet; 3]> {
    let mut out = Vec::new();
    for i in 0..3 {
        let e = match &claims[i] {
            Claim::Missing => IntervalSet::empty(),
            Claim::Inherit => issuer[i].clone(),
            Claim::Blocks(b) => match overclaim {
                Overclaim::Refuse => {
                    if b.is_subset_of(&issuer[i]) {
                        b.clone()
                    } else {
                        return None;
                    }
                }
                Overclaim::Trim => b.intersection(&issuer[i]),
            },
        };
        out.push(e);
    }
    Some([out[0].clone(), out[1].clone(), out[2].clone()])
}

fn set_json(m: &IntervalSet) -> Value {
    Value::Array(m.iv.iter().map(|(a, b)| json!([a.to_string(), b.to_string()])).collect())
}

fn claims_json(c: &[Claim; 3]) -> Value {
    let f = |c: &Claim| match c {
        Claim::Missing => json!("missing"),
        Claim::Inherit => json!("inherit"),
        Claim::Blocks(m) => set_json(m),
    };
    json!({"as": f(&c[0]), "v4": f(&c[1]), "v6": f(&c[2])})
}

/// Compares the resources of an accepted certificate with the model.
fn check_resources(ctx: &mut Ctx, what: &str, rc: &ResourceCert, want: &[IntervalSet; 3], issuer: &[IntervalSet; 3], detail: &Value) {
    for (i, fl) in FLS.iter().enumerate() {
        ctx.eval();
        match observe(*fl, rc) {
            Err(e) => ctx.violation(&format!("C01:{}:resources:{}:malformed", what, fl.name()), &e, detail.clone()),
            Ok(blocks) => {
                let got = IntervalSet::from_ranges(&blocks);
                if !canonical(&blocks) {
                    ctx.violation(&format!("C01:{}:resources:{}:non-canonical", what, fl.name()), "validated resources are not a canonical block list", json!({"observed": set_json(&IntervalSet { iv: blocks.clone() }), "case": detail}));
                } else if !got.is_subset_of(&issuer[i]) {
                    ctx.violation(&format!("C01:{}:resources:{}:grew-beyond-issuer", what, fl.name()), "validated resources are not a subset of the issuer's validated resources", json!({"observed": set_json(&got), "issuer": set_json(&issuer[i]), "case": detail}));
                } else if got != want[i] {
                    ctx.violation(&format!("C01:{}:resources:{}:wrong-set", what, fl.name()), "validated resources differ from claimed/trimmed/inherited set", json!({"observed": set_json(&got), "expected": set_json(&want[i]), "case": detail}));
                }
            }
        }
    }
}

enum Outcome {
    Accepted(Option<ResourceCert>),
    Rejected(String),
}

/// Decodes `der` and validates it as `kind` under `issuer` at `now`.
fn validate(ctx: &mut Ctx, w: &World, kind: Kind, der_bytes: &[u8], issuer: Option<&ResourceCert>, strict: bool, now: i64) -> Option<Outcome> {
    validate_ns(ctx, w, kind, der_bytes, issuer, strict, now, 0)
}

/// As `validate` but through `verify_ta_ref_at` (the by-reference trust anchor path).
fn validate_ta_ref(ctx: &mut Ctx, der_bytes: &[u8], strict: bool, now: i64) -> Option<Outcome> {
    ctx.no_panic("validate-ta-ref", || json!({"cert": hex(der_bytes), "now": now, "strict": strict}), move || {
        let cert = match Cert::decode(der_bytes) {
            Ok(c) => c,
            Err(e) => return Outcome::Rejected(format!("decode: {}", e)),
        };
        if let Err(e) = cert.inspect_ta(strict) {
            return Outcome::Rejected(e.to_string());
        }
        match cert.verify_ta_ref_at(strict, time_at(now)) {
            Ok(()) => Outcome::Accepted(None),
            Err(e) => Outcome::Rejected(e.to_string()),
        }
    })
}

/// Validates an EE certificate through the detached-EE entry point.
fn validate_detached(ctx: &mut Ctx, der_bytes: &[u8], issuer: &ResourceCert, strict: bool, now: i64) -> Option<Outcome> {
    ctx.no_panic("validate-detached-ee", || json!({"cert": hex(der_bytes), "now": now, "strict": strict}), move || {
        let cert = match Cert::decode(der_bytes) {
            Ok(c) => c,
            Err(e) => return Outcome::Rejected(format!("decode: {}", e)),
        };
        match cert.validate_detached_ee_at(issuer, strict, time_at(now)) {
            Ok(rc) => Outcome::Accepted(Some(rc)),
            Err(e) => Outcome::Rejected(e.to_string()),
        }
    })
}

#[allow(clippy::too_many_arguments)]
fn validate_ns(ctx: &mut Ctx, w: &World, kind: Kind, der_bytes: &[u8], issuer: Option<&ResourceCert>, strict: bool, now: i64, nanos: u32) -> Option<Outcome> {
    let what = format!("validate-{:?}", kind).to_lowercase();
    let tal = w.tal.clone();
    ctx.no_panic(&what, || json!({"cert": hex(der_bytes), "now": now, "strict": strict}), move || {
        let cert = match Cert::decode(der_bytes) {
            Ok(c) => c,
            Err(e) => return Outcome::Rejected(format!("decode: {}", e)),
        };
        let now = time_at_ns(now, nanos);
        match kind {
            Kind::Ta => match cert.validate_ta_at(tal, strict, now) {
                Ok(rc) => Outcome::Accepted(Some(rc)),
                Err(e) => Outcome::Rejected(e.to_string()),
            },
            Kind::Ca => match cert.validate_ca_at(issuer.unwrap(), strict, now) {
                Ok(rc) => Outcome::Accepted(Some(rc)),
                Err(e) => Outcome::Rejected(e.to_string()),
            },
            Kind::Ee => match cert.validate_ee_at(issuer.unwrap(), strict, now) {
                Ok(rc) => Outcome::Accepted(Some(rc)),
                Err(e) => Outcome::Rejected(e.to_string()),
            },
            Kind::Router => match cert.validate_router_at(issuer.unwrap(), strict, now) {
                Ok(()) => Outcome::Accepted(None),
                Err(e) => Outcome::Rejected(e.to_string()),
            },
        }
    })
}

/// The same question through the other public routes to it: inspection and
/// verification as two separate calls, and a certificate that went through
/// its serde form first. Returns (route, accepted) pairs.
fn alt_routes(ctx: &mut Ctx, w: &World, kind: Kind, der_bytes: &[u8], issuer: Option<&ResourceCert>, strict: bool, now: i64) -> Vec<(&'static str, bool)> {
    let tal = w.tal.clone();
    let res = ctx.no_panic("validate-alt-routes", || json!({"cert": hex(der_bytes), "now": now, "strict": strict}), move || {
        let mut out = Vec::new();
        let Ok(cert) = Cert::decode(der_bytes) else { return out };
        let t = time_at(now);
        // two-step
        let two = match kind {
            Kind::Ta => cert.inspect_ta(strict).is_ok() && cert.clone().verify_ta_at(tal.clone(), strict, t).is_ok(),
            Kind::Ca => cert.inspect_ca(strict).is_ok() && cert.clone().verify_ca_at(issuer.unwrap(), strict, t).is_ok(),
            Kind::Ee => cert.inspect_ee(strict).is_ok() && cert.clone().verify_ee_at(issuer.unwrap(), strict, t).is_ok(),
            Kind::Router => cert.inspect_router(strict).is_ok() && cert.verify_router_at(issuer.unwrap(), strict, t).is_ok(),
        };
        out.push(("inspect-then-verify", two));
        // through serde
        if let Ok(js) = serde_json::to_string(&cert) {
            if let Ok(back) = serde_json::from_str::<Cert>(&js) {
                let ok = match kind {
                    Kind::Ta => back.validate_ta_at(tal, strict, t).is_ok(),
                    Kind::Ca => back.validate_ca_at(issuer.unwrap(), strict, t).is_ok(),
                    Kind::Ee => back.validate_ee_at(issuer.unwrap(), strict, t).is_ok(),
                    Kind::Router => back.validate_router_at(issuer.unwrap(), strict, t).is_ok(),
                };
                out.push(("after-serde-roundtrip", ok));
            }
        }
        out
    });
    res.unwrap_or_default()
}

fn node_ta_der(ta: &Spec, w: &World) -> Vec<u8> {
    build(w, ta)
}

/// Asserts rejection of a tampered variant.
fn expect_reject(ctx: &mut Ctx, w: &World, variant: &str, kind: Kind, der_bytes: &[u8], issuer: Option<&ResourceCert>, strict: bool, now: i64, detail: &Value) {
    ctx.eval();
    ctx.sig(&format!("tamper {} {:?}", variant, kind));
    ctx.obs(&format!("tamper_{}", variant), 1);
    let out = validate(ctx, w, kind, der_bytes, issuer, strict, now);
    if let Some(Outcome::Rejected(e)) = &out {
        ctx.sample(&format!("tamper-{}", variant), || json!({"variant": variant, "kind": format!("{:?}", kind), "now": now, "observed": format!("rejected: {}", e)}));
    }
    if !variant.starts_with("bitflip") {
        for (route, accepted) in alt_routes(ctx, w, kind, der_bytes, issuer, strict, now) {
            ctx.eval();
            if accepted {
                ctx.violation(
                    &format!("C01:accepts:{}:{}:{}", variant, format!("{:?}", kind).to_lowercase(), route),
                    &format!("a certificate with a single non-conforming input ({}) was accepted via {}", variant, route),
                    json!({"variant": variant, "route": route, "cert": hex(der_bytes), "now": now, "strict": strict, "case": detail}),
                );
            }
        }
    }
    if kind == Kind::Ee {
        if let Some(iss) = issuer {
            ctx.eval();
            if let Some(Outcome::Accepted(_)) = validate_detached(ctx, der_bytes, iss, strict, now) {
                ctx.violation(
                    &format!("C01:accepts:{}:detached-ee", variant),
                    &format!("validate_detached_ee_at accepted a certificate with a single non-conforming input ({})", variant),
                    json!({"variant": variant, "cert": hex(der_bytes), "now": now, "strict": strict, "case": detail}),
                );
            }
        }
    }
    if let Some(Outcome::Accepted(_)) = out {
        ctx.violation(
            &format!("C01:accepts:{}:{}", variant, format!("{:?}", kind).to_lowercase()),
            &format!("a certificate with a single non-conforming input ({}) was accepted", variant),
            json!({"variant": variant, "cert": hex(der_bytes), "now": now, "strict": strict, "case": detail}),
        );
    }
}

/// Rebuilds the certificate DER around a modified TBS, signed by `key` with
/// aws-lc-rs directly.
fn resign(pool: &PoolSigner, cert_der: &[u8], new_tbs: &[u8], key: usize) -> Option<Vec<u8>> {
    let root = der::parse(cert_der)?;
    let alg = root.child(1)?.whole(cert_der).to_vec();
    let sig = pool.key(key).sign_raw(new_tbs);
    Some(der::seq(&[new_tbs, &alg, &der::bitstring(0, &sig)]))
}

struct Node {
    der_bytes: Vec<u8>,
    rc: ResourceCert,
    eff: [IntervalSet; 3],
    key: usize,
    depth: usize,
    nb: i64,
    na: i64,
}

fn run_chain(ctx: &mut Ctx, w: &World, rng: &mut Rng, xrng: &mut Rng, drng: &mut Rng, chain_no: u64) {
    let nkeys = w.pool.len();
    // evaluation instants in several eras so that validity windows are encoded
    // as UTCTime on both sides of the two-digit-year pivot and as GeneralizedTime
    let era: i64 = match rng.below(8) {
        0 => -473_385_600,            // 1955-01-01 (UTCTime year 55)
        1 => -31_536_000,             // 1969-01-01
        2 => 0,                       // 1970-01-01
        3 => 946_684_800,             // 2000-01-01
        4 => 2_524_608_000 - 86_400 * 200, // mid 2049, windows straddle 2049/2050
        5 => 2_840_140_800,           // 2060-01-01 (GeneralizedTime)
        6 => -631_152_000 + 86_400 * 400,  // early 1951, notBefore may fall before 1950
        _ => 1_700_000_000,
    };
    let base: i64 = era + (rng.below(1000) as i64) * 86_400 + rng.below(86_400) as i64;
    let strict = rng.bool();
    // ---- trust anchor
    let ta_key = rng.usize_below(nkeys);
    let (nb, na) = (base - 86_400 * 30, base + 86_400 * 365);
    let ta_claims = gen_ta_claims(rng);
    let ta = Spec {
        kind: Kind::Ta, key: ta_key, issuer_key: ta_key, serial: 1 + rng.below(1 << 40), not_before: nb, not_after: na,
        overclaim: if rng.bool() { Overclaim::Refuse } else { Overclaim::Trim }, claims: ta_claims.clone(), aki: AkiChoice::Issuer,
        issuer_name: None, subject_name: None, router_key: None,
    };
    let ta_der = build(w, &ta);
    let detail = json!({"chain": chain_no, "ta_claims": claims_json(&ta_claims)});
    ctx.eval();
    let ta_eff: [IntervalSet; 3] = {
        let f = |c: &Claim| match c {
            Claim::Blocks(m) => m.clone(),
            _ => IntervalSet::empty(),
        };
        [f(&ta_claims[0]), f(&ta_claims[1]), f(&ta_claims[2])]
    };
    let ta_rc = match validate(ctx, w, Kind::Ta, &ta_der, None, strict, base) {
        Some(Outcome::Accepted(Some(rc))) => rc,
        Some(Outcome::Rejected(e)) => {
            ctx.violation("C01:rejects-conforming:ta", "a conforming trust anchor certificate was rejected", json!({"error": e, "cert": hex(&ta_der), "case": detail}));
            return;
        }
        _ => return,
    };
    ctx.sig(&format!("ta claims {}/{}/{}", ta_claims[0].tag(), ta_claims[1].tag(), ta_claims[2].tag()));
    let everything = [
        IntervalSet::from_ranges(&[(0, Flavour::As.max())]),
        IntervalSet::from_ranges(&[(0, Flavour::V4.max())]),
        IntervalSet::from_ranges(&[(0, Flavour::V6.max())]),
    ];
    check_resources(ctx, "ta", &ta_rc, &ta_eff, &everything, &detail);
    // TA tampers
    if rng.chance(1, 3) {
        // the by-reference trust anchor path must agree
        ctx.eval();
        if let Some(Outcome::Rejected(e)) = validate_ta_ref(ctx, &node_ta_der(&ta, w), strict, base) {
            ctx.violation("C01:rejects-conforming:ta-by-reference", "a conforming trust anchor certificate was rejected by verify_ta_ref_at", json!({"error": e, "case": detail}));
        }
        // inherited resources in a trust anchor (each family in turn over the runs)
        let mut s = ta.clone();
        let fam = rng.usize_below(3);
        s.claims[fam] = Claim::Inherit;
        let d = build(w, &s);
        expect_reject(ctx, w, "ta-inherit", Kind::Ta, &d, None, strict, base, &detail);
        ctx.eval();
        ctx.sig(&format!("tamper ta-inherit-by-reference family={}", fam));
        if let Some(Outcome::Accepted(_)) = validate_ta_ref(ctx, &d, strict, base) {
            ctx.violation(
                &format!("C01:accepts:ta-inherit-by-reference:{}", FLS[fam].name()),
                "a trust anchor certificate with inherited resources was accepted by verify_ta_ref_at",
                json!({"family": FLS[fam].name(), "cert": hex(&d), "case": detail}),
            );
        }
        // self-signature by another key
        let mut s = ta.clone();
        s.issuer_key = (ta_key + 1) % nkeys;
        s.issuer_name = Some(w.pool.info(ta_key).to_subject_name());
        let d = build(w, &s);
        expect_reject(ctx, w, "ta-signed-by-other-key", Kind::Ta, &d, None, strict, base, &detail);
        // time
        expect_reject(ctx, w, "time-before", Kind::Ta, &ta_der, None, strict, nb - 1, &detail);
        expect_reject(ctx, w, "time-after", Kind::Ta, &ta_der, None, strict, na + 1, &detail);
    }
    let mut node = Node { der_bytes: ta_der, rc: ta_rc, eff: ta_eff, key: ta_key, depth: 0, nb, na };
    // ---- descend
    let depth = rng.below(4) as usize;
    for level in 0..=depth {
        let leaf = level == depth;
        let kind = if !leaf {
            Kind::Ca
        } else {
            match rng.below(4) {
                0 => Kind::Ca,
                1 => Kind::Router,
                _ => Kind::Ee,
            }
        };
        if kind == Kind::Router && node.eff[0].is_empty() {
            break;
        }
        let want_over = rng.chance(1, 3);
        let (claims, over, tags) = gen_child_claims(rng, &node.eff, kind, want_over);
        if kind == Kind::Router && !matches!(claims[0], Claim::Blocks(_)) {
            break;
        }
        let overclaim = if rng.bool() { Overclaim::Refuse } else { Overclaim::Trim };
        let key = (node.key + 1 + rng.usize_below(nkeys - 1)) % nkeys;
        // window chosen around the evaluation instant, including both ends exactly
        let (cnb, cna, now) = match rng.below(6) {
            0 => (base, base + 1000, base),
            1 => (base - 1000, base, base),
            2 => (base, base, base),
            _ => (base - 86_400 * (1 + rng.below(20) as i64), base + 86_400 * (1 + rng.below(300) as i64), base),
        };
        let spec = Spec {
            kind, key, issuer_key: node.key, serial: 2 + rng.below(1 << 50), not_before: cnb, not_after: cna, overclaim,
            claims: claims.clone(), aki: AkiChoice::Issuer, issuer_name: Some(node.rc.subject().clone()), subject_name: None,
            router_key: if kind == Kind::Router { Some(rng.pick(&w.router_keys).clone()) } else { None },
        };
        let d = build(w, &spec);
        let detail = json!({
            "chain": chain_no, "level": level, "kind": format!("{:?}", kind), "policy": format!("{:?}", overclaim),
            "claims": claims_json(&claims),
            "issuer_effective": {"as": set_json(&node.eff[0]), "v4": set_json(&node.eff[1]), "v6": set_json(&node.eff[2])},
            "window": [cnb, cna], "now": now,
        });
        let want = expected_eff(&node.eff, &claims, overclaim);
        ctx.eval();
        ctx.sig(&format!("{:?} depth={} {:?} claims={} expect={}", kind, node.depth + 1, overclaim, tags, if want.is_some() { "accept" } else { "reject" }));
        let outcome = validate(ctx, w, kind, &d, Some(&node.rc), strict, now);
        {
            let observed = match &outcome {
                Some(Outcome::Accepted(_)) => "accepted".to_string(),
                Some(Outcome::Rejected(e)) => format!("rejected: {}", e),
                None => "panic".to_string(),
            };
            let key = if want.is_some() { "link-expected-accept" } else { "link-expected-reject" };
            ctx.sample(key, || json!({"case": detail, "observed": observed}));
        }
        let rc = match (outcome, &want) {
            (Some(Outcome::Accepted(rc)), Some(eff)) => {
                ctx.obs("accepted", 1);
                if over {
                    ctx.obs("trimmed_overclaim_accepted", 1);
                }
                if let Some(rc) = &rc {
                    check_resources(ctx, &format!("{:?}", kind).to_lowercase(), rc, eff, &node.eff, &detail);
                }
                rc
            }
            (Some(Outcome::Accepted(_)), None) => {
                ctx.violation(&format!("C01:accepts:overclaim-refuse:{}", format!("{:?}", kind).to_lowercase()), "a no-overclaim certificate claiming resources outside its issuer was accepted", json!({"cert": hex(&d), "case": detail}));
                None
            }
            (Some(Outcome::Rejected(e)), Some(_)) => {
                ctx.violation(&format!("C01:rejects-conforming:{}", format!("{:?}", kind).to_lowercase()), "a correctly issued certificate was rejected", json!({"error": e, "cert": hex(&d), "case": detail}));
                None
            }
            (Some(Outcome::Rejected(_)), None) => {
                ctx.obs("rejected_overclaim", 1);
                None
            }
            (None, _) => None,
        };
        if want.is_some() && rng.chance(1, 4) {
            for (route, accepted) in alt_routes(ctx, w, kind, &d, Some(&node.rc), strict, now) {
                ctx.eval();
                ctx.sig(&format!("route {} {:?}", route, kind));
                if !accepted {
                    ctx.violation(
                        &format!("C01:rejects-conforming:{}:{}", format!("{:?}", kind).to_lowercase(), route),
                        &format!("a correctly issued certificate is accepted by validate_*_at but rejected via {}", route),
                        json!({"route": route, "cert": hex(&d), "case": detail}),
                    );
                }
            }
        }
        if kind == Kind::Ee {
            if let Some(eff) = &want {
                ctx.eval();
                match validate_detached(ctx, &d, &node.rc, strict, now) {
                    Some(Outcome::Accepted(Some(rc))) => check_resources(ctx, "detached-ee", &rc, eff, &node.eff, &detail),
                    Some(Outcome::Rejected(e)) => ctx.violation("C01:rejects-conforming:detached-ee", "a correctly issued EE certificate was rejected by validate_detached_ee_at", json!({"error": e, "cert": hex(&d), "case": detail})),
                    _ => {}
                }
            }
        }
        if want.is_none() {
            break;
        }
        // ---- single-point tampers of this valid (cert, issuer, time)
        let tamper_budget = if ctx.stage == Stage::Valgrind { 2 } else { 1 };
        if rng.chance(tamper_budget, 2) {
            tampers(ctx, w, rng, &spec, &d, &node, strict, now, &detail);
        }
        // ---- the same certificate with one extension rewritten by the independent encoder
        // (own random stream: the chains above stay the same for a given seed)
        // (the thorough native stage runs 30 times as many chains: a third of the rate there)
        let (es_den, ki_den) = if ctx.tier == Tier::Thorough && ctx.stage == Stage::Native { (6, 9) } else { (2, 3) };
        if xrng.chance(tamper_budget, es_den) {
            for _ in 0..2 {
                encoder_shapes(ctx, w, xrng, &spec, &d, &node, strict, now, &detail);
            }
        }
        if xrng.chance(tamper_budget, ki_den) {
            keyid_shapes(ctx, w, xrng, &spec, &d, &node, strict, now, &detail);
        }
        // ---- the same certificate with a key identifier derived from the right key in
        // another way (own random stream again)
        if drng.chance(tamper_budget, ki_den) {
            derived_in_chain(ctx, w, drng, &spec, &d, &node, now, &detail);
        }
        match (kind, rc, want) {
            (Kind::Ca, Some(rc), Some(eff)) => {
                node = Node { der_bytes: d, rc, eff, key, depth: node.depth + 1, nb: cnb, na: cna };
            }
            _ => break,
        }
    }
    let _ = (&node.der_bytes, node.nb, node.na);
    ctx.drain_chain_hook(|| json!({"chain": chain_no}));
}

#[allow(clippy::too_many_arguments)]
fn tampers(ctx: &mut Ctx, w: &World, rng: &mut Rng, spec: &Spec, d: &[u8], issuer: &Node, strict: bool, now: i64, detail: &Value) {
    let kind = spec.kind;
    let nkeys = w.pool.len();
    // 1. time just outside either end (and exactly at the ends: must still be accepted)
    expect_reject(ctx, w, "time-before", kind, d, Some(&issuer.rc), strict, spec.not_before - 1, detail);
    expect_reject(ctx, w, "time-after", kind, d, Some(&issuer.rc), strict, spec.not_after + 1, detail);
    for (edge, t) in [("at-not-before", spec.not_before), ("at-not-after", spec.not_after)] {
        ctx.eval();
        ctx.sig(&format!("edge {} {:?}", edge, kind));
        if let Some(Outcome::Rejected(e)) = validate(ctx, w, kind, d, Some(&issuer.rc), strict, t) {
            ctx.violation(&format!("C01:rejects-conforming:{}", edge), "a certificate was rejected at an instant inside its validity window (end points are inclusive)", json!({"error": e, "cert": hex(d), "now": t, "case": detail}));
        }
    }
    // 1b. a fraction of a second outside either end (evaluation times are not whole seconds in practice)
    for (variant, t, ns) in [("time-1ms-after", spec.not_after, 1_000_000u32), ("time-999ms-after", spec.not_after, 999_000_000), ("time-1ms-before", spec.not_before - 1, 999_000_000)] {
        ctx.eval();
        ctx.sig(&format!("tamper {} {:?}", variant, kind));
        ctx.obs(&format!("tamper_{}", variant), 1);
        if let Some(Outcome::Accepted(_)) = validate_ns(ctx, w, kind, d, Some(&issuer.rc), strict, t, ns) {
            ctx.violation(
                &format!("C01:accepts:{}:{}", variant, format!("{:?}", kind).to_lowercase()),
                "a certificate was accepted at an instant a fraction of a second outside its validity window",
                json!({"variant": variant, "cert": hex(d), "seconds": t, "nanos": ns, "case": detail}),
            );
        }
    }
    // 1c. notBefore and notAfter swapped in the encoding (re-signed): the window is
    // empty, so no instant lies inside it
    if spec.not_before < spec.not_after {
        if let Some(root) = der::parse(d) {
            if let Some(tbs) = root.child(0) {
                // Validity is the SEQUENCE of two time values among the TBS children
                let vidx = tbs.children.iter().position(|c| c.tag == der::T_SEQUENCE && c.children.len() == 2 && c.children.iter().all(|t| t.tag == der::T_UTCTIME || t.tag == der::T_GENTIME));
                if let Some(vidx) = vidx {
                    let v = &tbs.children[vidx];
                    let swapped = der::seq(&[v.children[1].whole(d), v.children[0].whole(d)]);
                    let tbs_bytes = tbs.whole(d).to_vec();
                    let tbs_root = der::parse(&tbs_bytes).unwrap();
                    let new_tbs = der::replace_node(&tbs_bytes, &tbs_root, &[vidx], &swapped);
                    if let Some(x) = resign(w.pool, d, &new_tbs, issuer.key) {
                        for t in [now, spec.not_before, spec.not_after, (spec.not_before + spec.not_after) / 2] {
                            expect_reject(ctx, w, "window-inverted", kind, &x, Some(&issuer.rc), strict, t, detail);
                        }
                    }
                }
            }
        }
    }
    // 2. AKI missing / different, correctly re-signed by the issuer
    let mut s = spec.clone();
    s.aki = AkiChoice::None;
    let x = build(w, &s);
    expect_reject(ctx, w, "aki-missing", kind, &x, Some(&issuer.rc), strict, now, detail);
    let mut s = spec.clone();
    s.aki = AkiChoice::Other((issuer.key + 1 + rng.usize_below(nkeys - 1)) % nkeys);
    let x = build(w, &s);
    expect_reject(ctx, w, "aki-other", kind, &x, Some(&issuer.rc), strict, now, detail);
    let mut s = spec.clone();
    s.aki = AkiChoice::Flip(match rng.below(3) { 0 => 159, 1 => 0, _ => rng.usize_below(160) });
    let x = build(w, &s);
    expect_reject(ctx, w, "aki-one-bit-off", kind, &x, Some(&issuer.rc), strict, now, detail);
    // 3. claims to be issued by the issuer (AKI, issuer name) but is signed by another key
    let mut s = spec.clone();
    s.issuer_key = (issuer.key + 1 + rng.usize_below(nkeys - 1)) % nkeys;
    s.aki = AkiChoice::Other(issuer.key);
    let x = build(w, &s);
    expect_reject(ctx, w, "signed-by-other-key", kind, &x, Some(&issuer.rc), strict, now, detail);
    // 4. SKI patched inside the TBS and correctly re-signed (only the SKI check can object)
    if let Some(root) = der::parse(d) {
        let tbs = root.child(0).map(|n| n.whole(d).to_vec()).unwrap_or_default();
        let ski = if kind == Kind::Router { spec.router_key.as_ref().map(|k| k.key_identifier()) } else { Some(w.pool.info(spec.key).key_identifier()) };
        if let Some(ski) = ski {
            let needle = ski.as_slice();
            // the SKI extension value: OCTET STRING(20) right after its own OCTET STRING wrapper
            let positions: Vec<usize> = (0..tbs.len().saturating_sub(22)).filter(|i| tbs[*i] == 0x04 && tbs[i + 1] == 0x14 && &tbs[i + 2..i + 22] == needle).collect();
            if positions.len() == 1 {
                let mut t2 = tbs.clone();
                let bit = rng.below(160) as usize;
                t2[positions[0] + 2 + bit / 8] ^= 1 << (bit % 8);
                if let Some(x) = resign(w.pool, d, &t2, issuer.key) {
                    expect_reject(ctx, w, "ski-not-key-hash", kind, &x, Some(&issuer.rc), strict, now, detail);
                }
            } else {
                ctx.obs("ski_patch_position_ambiguous", 1);
            }
        }
        // 5. bit flips in the signed bytes and in the signature value
        let sig = root.child(2).cloned();
        let tbs_node = root.child(0).cloned();
        if let (Some(sig), Some(tbs_node)) = (sig, tbs_node) {
            let exhaustive = ctx.tier == Tier::Thorough && ctx.stage == Stage::Native && rng.chance(1, 150);
            let ranges = [(tbs_node.start, tbs_node.end, "tbs"), (sig.content_start + 1, sig.content_end, "signature")];
            for (lo, hi, what) in ranges {
                let nbits = (hi - lo) * 8;
                let flips: Vec<usize> = if exhaustive { (0..nbits).collect() } else { (0..6).map(|_| rng.usize_below(nbits)).collect() };
                if exhaustive {
                    ctx.obs("exhaustive_flip_certs", 1);
                }
                for bit in flips {
                    let mut x = d.to_vec();
                    x[lo + bit / 8] ^= 1 << (bit % 8);
                    ctx.eval();
                    ctx.obs(&format!("bitflip_{}", what), 1);
                    if let Some(Outcome::Accepted(_)) = validate(ctx, w, kind, &x, Some(&issuer.rc), strict, now) {
                        ctx.violation(
                            &format!("C01:accepts:bitflip-{}:{}", what, format!("{:?}", kind).to_lowercase()),
                            "a certificate with one flipped bit in its signed bytes or signature was accepted",
                            json!({"bit": bit, "region": what, "cert": hex(&x), "now": now, "case": detail}),
                        );
                    }
                }
                ctx.sig(&format!("bitflip {} {:?}", what, kind));
            }
        }
    }
    // 6. validated under a different issuer: same subject name, different key
    let other_key = (issuer.key + 1 + rng.usize_below(nkeys - 1)) % nkeys;
    let imp = Spec {
        kind: Kind::Ta, key: other_key, issuer_key: other_key, serial: 77, not_before: issuer.nb.min(now) - 10, not_after: issuer.na.max(now) + 10,
        overclaim: Overclaim::Refuse,
        claims: [Claim::Blocks(IntervalSet::from_ranges(&[(0, Flavour::As.max())])), Claim::Blocks(IntervalSet::from_ranges(&[(0, Flavour::V4.max())])), Claim::Blocks(IntervalSet::from_ranges(&[(0, Flavour::V6.max())]))],
        aki: AkiChoice::Issuer, issuer_name: Some(issuer.rc.subject().clone()), subject_name: Some(issuer.rc.subject().clone()), router_key: None,
    };
    let imp_der = build(w, &imp);
    if let Some(Outcome::Accepted(Some(imp_rc))) = validate(ctx, w, Kind::Ta, &imp_der, None, strict, now) {
        expect_reject(ctx, w, "other-issuer-same-name", kind, d, Some(&imp_rc), strict, now, detail);
    } else {
        ctx.obs("impostor_ta_not_accepted", 1);
    }
}

//------------ certificates written by the independent encoder ---------------
//
// The library's builder can only produce one shape of the RFC 3779 extensions
// (at most one entry per address family, IPv4 before IPv6, canonical block
// lists) and only 20-octet key identifiers. A relying party reads whatever
// an issuer signed. The functions below take a valid certificate, rewrite one
// extension with the harness' own DER writer, and sign the result with the
// issuer's key, so that nothing but the decoder and the checks named in the
// statement stand between the input and acceptance.

const OID_CE_SKI: &[u64] = &[2, 5, 29, 14];
const OID_CE_AKI: &[u64] = &[2, 5, 29, 35];
const OID_IP_REFUSE: &[u64] = &[1, 3, 6, 1, 5, 5, 7, 1, 7];
const OID_AS_REFUSE: &[u64] = &[1, 3, 6, 1, 5, 5, 7, 1, 8];
const OID_IP_TRIM: &[u64] = &[1, 3, 6, 1, 5, 5, 7, 1, 28];
const OID_AS_TRIM: &[u64] = &[1, 3, 6, 1, 5, 5, 7, 1, 29];

fn extension(oid: &[u64], critical: bool, value: &[u8]) -> Vec<u8> {
    if critical {
        der::seq(&[&der::oid(oid), &der::boolean(true), &der::octets(value)])
    } else {
        der::seq(&[&der::oid(oid), &der::octets(value)])
    }
}

/// The TBS of `cert` with the extensions named in `remove` dropped and `add`
/// appended (everything else byte for byte).
fn edit_extensions(cert: &[u8], remove: &[&[u64]], add: &[Vec<u8>]) -> Option<Vec<u8>> {
    edit_extensions2(cert, remove, &[], add)
}

/// As `edit_extensions`, with extensions to put in front of the list too.
fn edit_extensions2(cert: &[u8], remove: &[&[u64]], add_front: &[Vec<u8>], add: &[Vec<u8>]) -> Option<Vec<u8>> {
    let root = der::parse(cert)?;
    let tbs_bytes = root.child(0)?.whole(cert).to_vec();
    let troot = der::parse(&tbs_bytes)?;
    let xi = troot.children.iter().position(|c| c.tag == der::ctx(3))?;
    let list = troot.children[xi].child(0)?;
    let rm: Vec<Vec<u8>> = remove.iter().map(|o| der::oid(o)).collect();
    let mut exts: Vec<Vec<u8>> = add_front.to_vec();
    for e in &list.children {
        let oid = e.child(0)?.whole(&tbs_bytes);
        if rm.iter().any(|r| r.as_slice() == oid) {
            continue;
        }
        exts.push(e.whole(&tbs_bytes).to_vec());
    }
    exts.extend(add.iter().cloned());
    let new = der::tlv(der::ctx(3), &der::seq_of(&exts));
    Some(der::replace_node(&tbs_bytes, &troot, &[xi], &new))
}

/// BIT STRING holding the first `nbits` bits of `v` (unused bits zero).
fn addr_bits(v: u128, nbits: u32) -> Vec<u8> {
    let v = if nbits == 0 { 0 } else if nbits >= 128 { v } else { v & !((1u128 << (128 - nbits)) - 1) };
    let bytes = v.to_be_bytes();
    let n = nbits.div_ceil(8) as usize;
    der::bitstring(((8 - nbits % 8) % 8) as u8, &bytes[..n])
}

fn is_prefix(lo: u128, hi: u128) -> bool {
    if lo == 0 && hi == u128::MAX {
        return true;
    }
    let size = hi - lo + 1;
    size.is_power_of_two() && lo % size == 0
}

/// `SEQUENCE OF IPAddressOrRange` for element-space blocks in the order given.
fn enc_ip_blocks(fl: Flavour, blocks: &[(u128, u128)], range_form: bool) -> Vec<u8> {
    let items: Vec<Vec<u8>> = blocks
        .iter()
        .map(|(lo, hi)| {
            let (a, b) = fl.embed(*lo, *hi);
            if is_prefix(a, b) && !range_form {
                let host = if a == 0 && b == u128::MAX { 128 } else { (b - a + 1).trailing_zeros() };
                addr_bits(a, 128 - host)
            } else {
                let nmin = if a == 0 { 0 } else { 128 - a.trailing_zeros() };
                let nmax = if b == u128::MAX { 0 } else { 128 - b.trailing_ones() };
                der::seq(&[&addr_bits(a, nmin), &addr_bits(b, nmax)])
            }
        })
        .collect();
    der::seq_of(&items)
}

/// `SEQUENCE OF ASIdOrRange` for blocks in the order given.
fn enc_as_blocks(blocks: &[(u128, u128)], range_form: bool) -> Vec<u8> {
    let items: Vec<Vec<u8>> = blocks
        .iter()
        .map(|(lo, hi)| if lo == hi && !range_form { der::uint(*lo) } else { der::seq(&[&der::uint(*lo), &der::uint(*hi)]) })
        .collect();
    der::seq_of(&items)
}

#[derive(Clone, Debug, PartialEq)]
enum EChoice {
    Inherit,
    /// element-space blocks in the order they are written
    Blocks(Vec<(u128, u128)>),
}

/// One entry of a resource extension as written: an `IPAddressFamily`
/// (family 1 = IPv4, 2 = IPv6) or one tagged member of `ASIdentifiers`
/// (family 0 = asnum `[0]`, 3 = rdi `[1]`).
#[derive(Clone, Debug)]
struct Entry {
    fam: usize,
    choice: EChoice,
    range_form: bool,
    /// how the block list was written: "", "rev", "adj", "dup"
    order: &'static str,
}

impl Entry {
    fn tag(&self) -> String {
        let f = ["a", "4", "6", "r"][self.fam];
        let c = match &self.choice {
            EChoice::Inherit => "i".to_string(),
            EChoice::Blocks(b) if b.is_empty() => "e".to_string(),
            EChoice::Blocks(_) => "b".to_string(),
        };
        format!("{}{}", f, c)
    }

    fn json(&self) -> Value {
        let family = ["asnum", "ipv4", "ipv6", "rdi"][self.fam];
        json!({
            "family": family,
            "choice": match &self.choice {
                EChoice::Inherit => json!("inherit"),
                EChoice::Blocks(b) => Value::Array(b.iter().map(|(a, b)| json!([a.to_string(), b.to_string()])).collect()),
            },
            "range_form": self.range_form,
            "list_order": self.order,
        })
    }
}

fn enc_ip_ext(entries: &[Entry]) -> Vec<u8> {
    let fams: Vec<Vec<u8>> = entries
        .iter()
        .map(|e| {
            let fl = if e.fam == 1 { Flavour::V4 } else { Flavour::V6 };
            let choice = match &e.choice {
                EChoice::Inherit => der::null(),
                EChoice::Blocks(b) => enc_ip_blocks(fl, b, e.range_form),
            };
            der::seq(&[&der::octets(&[0, e.fam as u8]), &choice])
        })
        .collect();
    der::seq_of(&fams)
}

fn enc_as_ext(entries: &[Entry]) -> Vec<u8> {
    let parts: Vec<Vec<u8>> = entries
        .iter()
        .map(|e| {
            let choice = match &e.choice {
                EChoice::Inherit => der::null(),
                EChoice::Blocks(b) => enc_as_blocks(b, e.range_form),
            };
            der::tlv(der::ctx(if e.fam == 0 { 0 } else { 1 }), &choice)
        })
        .collect();
    der::seq_of(&parts)
}

/// Whether a written block list is in the canonical form of RFC 3779.
fn written_canonical(b: &[(u128, u128)]) -> bool {
    !b.is_empty() && canonical(b)
}

/// One entry for family `fam` (0 as, 1 v4, 2 v6, 3 rdi) relative to the
/// issuer's effective set.
fn gen_entry(rng: &mut Rng, fam: usize, eff: &[IntervalSet; 3]) -> Entry {
    let fi = if fam == 3 { 0 } else { fam };
    let fl = FLS[fi];
    let model: Option<IntervalSet> = match rng.below(8) {
        0 => None,
        1 => Some(IntervalSet::empty()),
        2 | 3 => Some(overclaim_of(rng, fl, &eff[fi]).map(|(m, _)| m).unwrap_or_else(|| subset_of(rng, &eff[fi]))),
        _ => Some(subset_of(rng, &eff[fi])),
    };
    let Some(model) = model else {
        return Entry { fam, choice: EChoice::Inherit, range_form: false, order: "" };
    };
    let mut blocks = model.iv.clone();
    let mut order = "";
    match rng.below(8) {
        0 if blocks.len() > 1 => {
            blocks.reverse();
            order = "rev";
        }
        1 => {
            // one block written as two adjacent halves
            if let Some(i) = blocks.iter().position(|(a, b)| a < b) {
                let (a, b) = blocks[i];
                let mid = a + (b - a) / 2;
                blocks[i] = (a, mid);
                blocks.insert(i + 1, (mid + 1, b));
                order = "adj";
            }
        }
        2 if !blocks.is_empty() => {
            let b = *rng.pick(&blocks);
            blocks.push(b);
            order = "dup";
        }
        _ => {}
    }
    Entry { fam, choice: EChoice::Blocks(blocks), range_form: rng.chance(1, 8), order }
}

/// What the entries written for one family claim together.
struct Claimed {
    entries: usize,
    any_inherit: bool,
    union: IntervalSet,
    /// written exactly the way the profile prescribes for one family
    conforming: bool,
}

fn claimed_of(entries: &[Entry], fam: usize) -> Claimed {
    let mine: Vec<&Entry> = entries.iter().filter(|e| e.fam == fam).collect();
    let mut union = IntervalSet::empty();
    let mut any_inherit = false;
    let mut conforming = mine.len() <= 1;
    for e in &mine {
        match &e.choice {
            EChoice::Inherit => any_inherit = true,
            EChoice::Blocks(b) => {
                union = union.union(&IntervalSet::from_ranges(b));
                if !written_canonical(b) {
                    conforming = false;
                }
                let fl = FLS[fam];
                if e.range_form && b.iter().any(|(lo, hi)| if fam == 0 { lo == hi } else { let (x, y) = fl.embed(*lo, *hi); is_prefix(x, y) }) {
                    conforming = false;
                }
            }
        }
    }
    Claimed { entries: mine.len(), any_inherit, union, conforming }
}

/// Certificates whose IP or AS resources extension was written by the
/// independent encoder in shapes the builder cannot produce: several entries
/// for one family, families in any order, empty lists, inherit next to blocks,
/// block lists unsorted / adjacent / overlapping / in range form, an rdi
/// member. The statement allows such a certificate to be rejected; if it is
/// accepted, everything it claims counts: under the no-overclaim policy all
/// written blocks must lie inside the issuer, and the validated set must be
/// the union of what was written (cut to the issuer under the trimming
/// policy), never just one of the entries.
#[allow(clippy::too_many_arguments)]
fn encoder_shapes(ctx: &mut Ctx, w: &World, rng: &mut Rng, spec: &Spec, d: &[u8], issuer: &Node, strict: bool, now: i64, detail: &Value) {
    let kind = spec.kind;
    let kname = format!("{:?}", kind).to_lowercase();
    let ip = kind != Kind::Router && rng.chance(2, 3);
    let entries: Vec<Entry> = if ip {
        let n = 1 + rng.usize_below(3);
        (0..n)
            .map(|_| {
                let fam = 1 + rng.usize_below(2);
                gen_entry(rng, fam, &issuer.eff)
            })
            .collect()
    } else {
        let pat: &[usize] = *rng.pick(&[&[0usize][..], &[0, 0], &[0, 0], &[0, 3], &[3, 0], &[0, 0, 0], &[3], &[]]);
        pat.iter().map(|f| gen_entry(rng, *f, &issuer.eff)).collect()
    };
    let refuse = spec.overclaim == Overclaim::Refuse;
    let touched: &[usize] = if ip { &[1, 2] } else { &[0] };
    let (value, oids): (Vec<u8>, [&[u64]; 2]) = if ip { (enc_ip_ext(&entries), [OID_IP_REFUSE, OID_IP_TRIM]) } else { (enc_as_ext(&entries), [OID_AS_REFUSE, OID_AS_TRIM]) };
    let ext = extension(if refuse { oids[0] } else { oids[1] }, true, &value);
    // one time in six the builder's own extension of that kind stays where it is
    // and the written one comes in addition, before or after it: the extension
    // is then present twice and both count as claimed
    let builder_has_it = touched.iter().any(|f| spec.claims[*f] != Claim::Missing);
    let twice = builder_has_it && rng.chance(1, 6);
    let written_first = rng.bool();
    let mut entries = entries;
    let new_tbs = if twice {
        let mut own: Vec<Entry> = Vec::new();
        for f in touched {
            match &spec.claims[*f] {
                Claim::Missing => {}
                Claim::Inherit => own.push(Entry { fam: *f, choice: EChoice::Inherit, range_form: false, order: "" }),
                Claim::Blocks(m) => own.push(Entry { fam: *f, choice: EChoice::Blocks(m.iv.clone()), range_form: false, order: "" }),
            }
        }
        if written_first {
            entries.extend(own);
            edit_extensions2(d, &[], &[ext], &[])
        } else {
            own.extend(entries);
            entries = own;
            edit_extensions2(d, &[], &[], &[ext])
        }
    } else {
        edit_extensions(d, &oids, &[ext])
    };
    let Some(new_tbs) = new_tbs else {
        ctx.obs("encoder_shape_splice_failed", 1);
        return;
    };
    let Some(x) = resign(w.pool, d, &new_tbs, issuer.key) else { return };
    let claimed: Vec<(usize, Claimed)> = touched.iter().map(|f| (*f, claimed_of(&entries, *f))).collect();
    // order of the IP families as written: IPv4 before IPv6
    let fam_order_ok = entries.windows(2).all(|p| p[0].fam <= p[1].fam);
    let has_rdi = entries.iter().any(|e| e.fam == 3);
    // the claims as a conforming encoder would have expressed them
    let mut claims = spec.claims.clone();
    for (f, c) in &claimed {
        claims[*f] = if c.entries == 0 {
            Claim::Missing
        } else if c.any_inherit {
            Claim::Inherit
        } else {
            Claim::Blocks(c.union.clone())
        };
    }
    let mut conforming = !twice && fam_order_ok && !has_rdi && !entries.is_empty() && claimed.iter().all(|(_, c)| c.conforming && !(c.any_inherit && !c.union.is_empty()));
    if kind == Kind::Router && !matches!(claims[0], Claim::Blocks(_)) {
        conforming = false;
    }
    if claims.iter().all(|c| *c == Claim::Missing) {
        conforming = false;
    }
    // in which ways the written extension departs from what the builder can produce
    let mut odd: Vec<&'static str> = Vec::new();
    if twice {
        odd.push("extension-twice");
    } else if claimed.iter().any(|(_, c)| c.entries > 1) {
        odd.push("family-repeated");
    }
    if !fam_order_ok {
        odd.push("family-order");
    }
    if has_rdi {
        odd.push("rdi");
    }
    if entries.is_empty() {
        odd.push("no-entry");
    }
    if entries.iter().any(|e| matches!(&e.choice, EChoice::Blocks(b) if b.is_empty())) {
        odd.push("empty-list");
    }
    if claimed.iter().any(|(_, c)| c.any_inherit && !c.union.is_empty()) {
        odd.push("inherit-and-blocks");
    }
    if entries.iter().any(|e| !e.order.is_empty()) {
        odd.push("blocks-not-canonical");
    }
    if entries.iter().any(|e| e.range_form) {
        odd.push("range-form");
    }
    let shape = format!("{}:{}", if ip { "ip" } else { "as" }, entries.iter().map(|e| e.tag()).collect::<Vec<_>>().join(","));
    let outside = claimed.iter().any(|(f, c)| !c.union.is_subset_of(&issuer.eff[*f]));
    let det = json!({"extension": if ip { "ipAddrBlocks" } else { "autonomousSysIds" }, "written_entries": entries.iter().map(|e| e.json()).collect::<Vec<_>>(),
        "shape": shape, "departs_from_builder_output_by": odd, "policy": format!("{:?}", spec.overclaim), "cert": hex(&x), "now": now, "strict": strict, "case": detail});
    ctx.sig(&format!("encoder-shape {} {:?} {} {} odd={}{}", kname, spec.overclaim, shape, if outside { "outside" } else { "inside" }, odd.join("+"), if conforming { " conforming" } else { "" }));
    let want = expected_eff(&issuer.eff, &claims, spec.overclaim);
    let mut routes: Vec<(&'static str, Option<Outcome>)> = vec![("validate", validate(ctx, w, kind, &x, Some(&issuer.rc), strict, now))];
    if kind == Kind::Ee {
        routes.push(("detached-ee", validate_detached(ctx, &x, &issuer.rc, strict, now)));
    }
    for (route, outcome) in routes {
        ctx.eval();
        let rc = match outcome {
            None => continue,
            Some(Outcome::Rejected(e)) => {
                ctx.obs("encoder_shape_rejected", 1);
                for o in &odd {
                    ctx.obs(&format!("encoder_shape_rejected_with:{}", o), 1);
                }
                if conforming && want.is_some() {
                    let mut dd = det.clone();
                    dd["error"] = json!(e);
                    ctx.violation(
                        &format!("C01:rejects-conforming:encoder-shape:{}:{}", kname, route),
                        "a correctly issued certificate whose resource extension was written by the independent encoder in the canonical form was rejected",
                        dd,
                    );
                }
                ctx.sample("encoder-shape-rejected", || json!({"shape": shape, "kind": kname, "observed": format!("rejected: {}", e)}));
                continue;
            }
            Some(Outcome::Accepted(rc)) => rc,
        };
        ctx.obs("encoder_shape_accepted", 1);
        if !conforming {
            ctx.obs("encoder_shape_nonconforming_accepted", 1);
            for o in &odd {
                ctx.obs(&format!("encoder_shape_accepted_with:{}", o), 1);
            }
        }
        ctx.sample("encoder-shape-accepted", || json!({"shape": shape, "kind": kname, "policy": format!("{:?}", spec.overclaim), "observed": "accepted"}));
        // every written block counts as claimed
        if refuse && outside {
            ctx.violation(
                &format!("C01:accepts:overclaim-refuse:encoder-shape:{}:{}", kname, route),
                "a no-overclaim certificate whose resource extension (as written) claims blocks outside its issuer was accepted",
                det.clone(),
            );
            continue;
        }
        let Some(rc) = rc else { continue };
        if conforming {
            if let Some(eff) = &want {
                check_resources(ctx, &format!("encoder-shape:{}", route), &rc, eff, &issuer.eff, &det);
            }
            continue;
        }
        for (i, fl) in FLS.iter().enumerate() {
            ctx.eval();
            let blocks = match observe(*fl, &rc) {
                Ok(b) => b,
                Err(e) => {
                    ctx.violation(&format!("C01:encoder-shape:{}:resources:{}:malformed", route, fl.name()), &e, det.clone());
                    continue;
                }
            };
            if !canonical(&blocks) {
                ctx.obs("encoder_shape_noncanonical_result", 1);
            }
            let got = IntervalSet::from_ranges(&blocks);
            let mut dd = json!({"observed": set_json(&got), "issuer": set_json(&issuer.eff[i]), "case": det});
            if !got.is_subset_of(&issuer.eff[i]) {
                ctx.violation(&format!("C01:encoder-shape:{}:resources:{}:grew-beyond-issuer", route, fl.name()), "validated resources are not a subset of the issuer's validated resources", dd);
                continue;
            }
            let (exact, at_least): (Option<IntervalSet>, IntervalSet) = match claimed.iter().find(|(f, _)| *f == i) {
                // untouched family: as the builder wrote it
                None => (want.as_ref().map(|x| x[i].clone()), IntervalSet::empty()),
                Some((_, c)) => {
                    let honoured = c.union.intersection(&issuer.eff[i]);
                    if c.any_inherit {
                        (None, honoured)
                    } else {
                        (Some(honoured.clone()), honoured)
                    }
                }
            };
            if let Some(exact) = exact {
                if got != exact {
                    dd["expected"] = set_json(&exact);
                    ctx.violation(
                        &format!("C01:encoder-shape:{}:resources:{}:claimed-blocks-not-honoured", route, fl.name()),
                        "an accepted certificate's validated resources differ from the union of the blocks written in its extension (cut to the issuer under the trimming policy)",
                        dd,
                    );
                }
            } else if !at_least.is_subset_of(&got) {
                dd["expected_at_least"] = set_json(&at_least);
                ctx.violation(
                    &format!("C01:encoder-shape:{}:resources:{}:claimed-blocks-dropped", route, fl.name()),
                    "an accepted certificate's validated resources lack blocks written in its extension that the issuer holds",
                    dd,
                );
            }
        }
    }
}

/// How a key identifier is written inside its extension.
fn keyid_encodings(id_is_aki: bool, content: &[u8], rng: &mut Rng) -> Vec<(String, Vec<u8>)> {
    // segmentations for the constructed form
    let n = content.len();
    let mut segs: Vec<(String, Vec<usize>)> = vec![("1x".into(), vec![n])];
    if n >= 2 {
        segs.push(("2x".into(), vec![n / 2, n - n / 2]));
    }
    if n > 20 {
        segs.push(("20+rest".into(), vec![20, n - 20]));
        segs.push(("rest+20".into(), vec![n - 20, 20]));
    }
    if n >= 3 {
        let a = 1 + rng.usize_below(n - 1);
        segs.push(("random-split".into(), vec![a, n - a]));
    }
    segs.push(("with-empty-piece".into(), vec![0, n]));
    let (name, seg) = rng.pick(&segs).clone();
    let mut pieces = Vec::new();
    let mut pos = 0;
    for s in seg {
        pieces.extend_from_slice(&der::octets(&content[pos..pos + s]));
        pos += s;
    }
    if id_is_aki {
        vec![
            ("prim".into(), der::seq(&[&der::tlv(der::ctx_prim(0), content)])),
            (format!("cons:{}", name), der::seq(&[&der::tlv(der::ctx(0), &pieces)])),
        ]
    } else {
        vec![("prim".into(), der::octets(content)), (format!("cons:{}", name), der::tlv(der::T_OCTETSTRING | 0x20, &pieces))]
    }
}

/// Key identifiers of every length other than 20 whose leading or trailing
/// octets agree with the required value, written primitive and constructed,
/// in a certificate that is otherwise untouched and re-signed by the issuer.
/// The statement demands equality (AKI = issuer SKI, SKI = hash of the key):
/// an identifier of another length is not equal, so acceptance is a violation.
#[allow(clippy::too_many_arguments)]
fn keyid_shapes(ctx: &mut Ctx, w: &World, rng: &mut Rng, spec: &Spec, d: &[u8], issuer: &Node, strict: bool, now: i64, detail: &Value) {
    let kind = spec.kind;
    let ski: [u8; 20] = if kind == Kind::Router {
        match spec.router_key.as_ref() {
            Some(k) => k.key_identifier().into(),
            None => return,
        }
    } else {
        w.pool.info(spec.key).key_identifier().into()
    };
    let aki: [u8; 20] = w.pool.info(issuer.key).key_identifier().into();
    // the extension twice, one instance holding another identifier: whichever the
    // decoder keeps, the certificate carries an identifier that is not the required one
    if rng.chance(1, 2) {
        let id_is_aki = rng.bool();
        let right: &[u8; 20] = if id_is_aki { &aki } else { &ski };
        let which = if id_is_aki { "aki" } else { "ski" };
        let oid = if id_is_aki { OID_CE_AKI } else { OID_CE_SKI };
        let mut other = *right;
        match rng.below(3) {
            0 => other[rng.usize_below(20)] ^= 1 << rng.below(8),
            1 => other = if id_is_aki { ski } else { aki },
            _ => other.copy_from_slice(&rng.bytes(20)),
        }
        if other != *right {
            let value = if id_is_aki { der::seq(&[&der::tlv(der::ctx_prim(0), &other)]) } else { der::octets(&other) };
            let ext = extension(oid, false, &value);
            let wrong_first = rng.bool();
            let tbs = if wrong_first { edit_extensions2(d, &[], &[ext], &[]) } else { edit_extensions2(d, &[], &[], &[ext]) };
            if let Some(x) = tbs.and_then(|t| resign(w.pool, d, &t, issuer.key)) {
                let variant = format!("{}-twice-wrong-{}", which, if wrong_first { "first" } else { "last" });
                let mut det = detail.clone();
                det["key_identifier"] = json!({"which": which, "additional_instance": hex(&other), "required": hex(right)});
                ctx.sig(&format!("keyid {} {:?}", variant, kind));
                expect_reject(ctx, w, &variant, kind, &x, Some(&issuer.rc), strict, now, &det);
            }
        }
    }
    for _ in 0..2 {
        let id_is_aki = rng.bool();
        let right: &[u8; 20] = if id_is_aki { &aki } else { &ski };
        let which = if id_is_aki { "aki" } else { "ski" };
        let len = *rng.pick(&[0usize, 1, 10, 19, 20, 21, 24, 32, 40]);
        let anchor = if rng.bool() { "prefix" } else { "suffix" };
        let pad: Vec<u8> = match rng.below(3) {
            0 => vec![0; 20],
            1 => right.to_vec(),
            _ => rng.bytes(20),
        };
        let content: Vec<u8> = match (len.cmp(&20), anchor) {
            (std::cmp::Ordering::Less, "prefix") => right[..len].to_vec(),
            (std::cmp::Ordering::Less, _) => right[20 - len..].to_vec(),
            (std::cmp::Ordering::Equal, _) => right.to_vec(),
            (_, "prefix") => [&right[..], &pad[..len - 20]].concat(),
            _ => [&pad[..len - 20], &right[..]].concat(),
        };
        for (enc, value) in keyid_encodings(id_is_aki, &content, rng) {
            if len == 20 && enc == "prim" {
                continue; // that is the untouched certificate
            }
            let ext = extension(if id_is_aki { OID_CE_AKI } else { OID_CE_SKI }, false, &value);
            let Some(new_tbs) = edit_extensions(d, &[if id_is_aki { OID_CE_AKI } else { OID_CE_SKI }], &[ext]) else {
                ctx.obs("keyid_splice_failed", 1);
                continue;
            };
            let Some(x) = resign(w.pool, d, &new_tbs, issuer.key) else { continue };
            let enc_class = if enc == "prim" { "prim" } else { "cons" };
            let mut det = detail.clone();
            det["key_identifier"] = json!({"which": which, "octets": hex(&content), "required": hex(right), "encoding": enc});
            if len == 20 {
                // the right value in a BER-only encoding: DER forbids it, the statement is
                // satisfied; either verdict is fine
                ctx.eval();
                ctx.sig(&format!("keyid {} right-value {} {:?}", which, enc, kind));
                match validate(ctx, w, kind, &x, Some(&issuer.rc), strict, now) {
                    Some(Outcome::Accepted(_)) => ctx.obs("keyid_right_value_constructed_accepted", 1),
                    Some(Outcome::Rejected(_)) => ctx.obs("keyid_right_value_constructed_rejected", 1),
                    None => {}
                }
                continue;
            }
            let variant = format!("{}-len{}-{}-{}", which, len, if len == 0 { "empty" } else { anchor }, enc_class);
            ctx.sig(&format!("keyid {} len={} {} {} {:?}", which, len, anchor, enc, kind));
            expect_reject(ctx, w, &variant, kind, &x, Some(&issuer.rc), strict, now, &det);
        }
    }
}

//------------ key identifiers derived from the right key in another way -----
//
// The tampers above replace a key identifier by something unrelated to the
// right key (another key's identifier, flipped bits, other lengths). A
// validator can also go wrong by accepting an identifier that WAS computed
// from the right key, only not the way the statement says ("the hash of its
// key": RFC 6487 4.8.2, the 160-bit SHA-1 hash of the subjectPublicKey bits):
// RFC 7093 truncated SHA-2 hashes, a hash over the whole SubjectPublicKeyInfo
// or over the RSA modulus, RFC 5280 method 2, and so on. Such a value differs
// from the required one in about every second bit, so it is a non-conforming
// key identifier like any other and the certificate must be rejected by every
// entry point, strict or relaxed. The dictionary is the product
// sources x hash functions x truncations, all computed by the harness from
// the SubjectPublicKeyInfo octets with its own DER reader and aws-lc-rs.

/// One alternative derivation of a key identifier from a public key.
#[derive(Clone, Debug)]
struct Deriv {
    /// `<hash>-of-<source>-<form>`; part of violation signatures
    name: String,
    hash: &'static str,
    source: &'static str,
    form: &'static str,
    octets: Vec<u8>,
}

struct KeyFacts {
    spki: Vec<u8>,
    /// SHA-1 of the subjectPublicKey bits, computed by the harness
    required: Vec<u8>,
    derivs: Vec<Deriv>,
}

const HASHES: [&str; 7] = ["sha1", "sha224", "sha256", "sha384", "sha512", "sha512-256", "sha3-256"];

fn hash_of(name: &str, data: &[u8]) -> Vec<u8> {
    use aws_lc_rs::digest as d;
    let alg = match name {
        "sha1" => &d::SHA1_FOR_LEGACY_USE_ONLY,
        "sha224" => &d::SHA224,
        "sha256" => &d::SHA256,
        "sha384" => &d::SHA384,
        "sha512" => &d::SHA512,
        "sha512-256" => &d::SHA512_256,
        _ => &d::SHA3_256,
    };
    d::digest(alg, data).as_ref().to_vec()
}

/// The octet strings of a public key somebody might hash, read from the
/// SubjectPublicKeyInfo with the harness' DER reader. The first entry is the
/// one the profile prescribes.
fn key_sources(spki: &[u8]) -> Option<Vec<(&'static str, Vec<u8>)>> {
    let root = der::parse(spki)?;
    if root.tag != der::T_SEQUENCE || root.children.len() != 2 {
        return None;
    }
    let bs = root.child(1)?;
    if bs.tag != der::T_BITSTRING {
        return None;
    }
    let content = bs.content(spki);
    if content.is_empty() || content[0] != 0 {
        return None;
    }
    let bits = content[1..].to_vec();
    let mut out: Vec<(&'static str, Vec<u8>)> = vec![
        ("key-bits", bits.clone()),
        ("spki", spki.to_vec()),
        ("spki-content", root.content(spki).to_vec()),
        ("bitstring-content", content.to_vec()),
        ("bitstring-tlv", bs.whole(spki).to_vec()),
    ];
    if bits.first() == Some(&der::T_SEQUENCE) {
        // RSAPublicKey ::= SEQUENCE { modulus INTEGER, publicExponent INTEGER }
        if let Some(rsa) = der::parse(&bits) {
            if rsa.children.len() == 2 && rsa.children.iter().all(|c| c.tag == der::T_INTEGER) {
                let n_signed = rsa.children[0].content(&bits).to_vec();
                let strip = |v: &[u8]| -> Vec<u8> {
                    let k = v.iter().position(|b| *b != 0).unwrap_or(v.len());
                    v[k..].to_vec()
                };
                let n = strip(&n_signed);
                let e = strip(rsa.children[1].content(&bits));
                out.push(("rsa-modulus", n.clone()));
                out.push(("rsa-modulus-integer-content", n_signed));
                out.push(("rsa-modulus-tlv", rsa.children[0].whole(&bits).to_vec()));
                out.push(("rsa-modulus-and-exponent", [n, e].concat()));
            }
        }
    } else if bits.len() == 65 && bits[0] == 4 {
        // uncompressed P-256 point
        out.push(("ec-point-without-prefix", bits[1..].to_vec()));
        out.push(("ec-x-coordinate", bits[1..33].to_vec()));
        let mut comp = vec![2 + (bits[64] & 1)];
        comp.extend_from_slice(&bits[1..33]);
        out.push(("ec-compressed-point", comp));
    }
    Some(out)
}

/// Everything the harness knows about one key: the required identifier and
/// every alternative derivation that differs from it.
fn key_facts(spki: &[u8]) -> KeyFacts {
    let sources = key_sources(spki).expect("SubjectPublicKeyInfo of a harness key");
    let required = hash_of("sha1", &sources[0].1);
    let mut derivs = Vec::new();
    for (source, bytes) in &sources {
        for h in HASHES {
            let full = hash_of(h, bytes);
            let mut forms: Vec<(&'static str, Vec<u8>)> = vec![("full", full.clone())];
            if full.len() > 20 {
                // RFC 7093 methods 1-3 take the leftmost 160 bits
                forms.push(("left20", full[..20].to_vec()));
                forms.push(("right20", full[full.len() - 20..].to_vec()));
            }
            if h == "sha1" {
                // RFC 5280 4.2.1.2 method 2: 0100 followed by the least significant 60 bits
                let mut m2 = vec![0x40 | (full[12] & 0x0F)];
                m2.extend_from_slice(&full[13..20]);
                forms.push(("rfc5280-method2", m2.clone()));
                forms.push(("rfc5280-method2-zero-padded-left", [&[0u8; 12][..], &m2[..]].concat()));
                forms.push(("rfc5280-method2-zero-padded-right", [&m2[..], &[0u8; 12][..]].concat()));
            }
            for (form, octets) in forms {
                if octets == required {
                    continue; // the prescribed derivation
                }
                derivs.push(Deriv { name: format!("{}-of-{}-{}", h, source, form), hash: h, source, form, octets });
            }
        }
    }
    KeyFacts { spki: spki.to_vec(), required, derivs }
}

/// An identifier that belongs to a neighbour in the chain (not a hash at all).
fn relation(name: &str, octets: &[u8]) -> Deriv {
    Deriv { name: name.to_string(), hash: "none", source: "chain-relation", form: "full", octets: octets.to_vec() }
}

/// The SKI / AKI extension holding `content`.
fn keyid_ext(id_is_aki: bool, content: &[u8]) -> Vec<u8> {
    if id_is_aki {
        extension(OID_CE_AKI, false, &der::seq(&[&der::tlv(der::ctx_prim(0), content)]))
    } else {
        extension(OID_CE_SKI, false, &der::octets(content))
    }
}

/// The TBS of `cert` with the extension `oid` replaced where it stands.
fn replace_extension(cert: &[u8], oid: &[u64], new_ext: &[u8]) -> Option<Vec<u8>> {
    let root = der::parse(cert)?;
    let tbs_bytes = root.child(0)?.whole(cert).to_vec();
    let troot = der::parse(&tbs_bytes)?;
    let xi = troot.children.iter().position(|c| c.tag == der::ctx(3))?;
    let list = troot.children[xi].child(0)?;
    let want = der::oid(oid);
    let mut found = list.children.iter().enumerate().filter(|(_, e)| e.child(0).map(|o| o.whole(&tbs_bytes) == want.as_slice()).unwrap_or(false));
    let (ei, _) = found.next()?;
    if found.next().is_some() {
        return None;
    }
    Some(der::replace_node(&tbs_bytes, &troot, &[xi, 0, ei], new_ext))
}

/// The certificate `cert` with its SKI / AKI holding `content`, signed by `signer`.
fn with_keyid(pool: &PoolSigner, cert: &[u8], id_is_aki: bool, content: &[u8], signer: usize) -> Option<Vec<u8>> {
    let tbs = replace_extension(cert, if id_is_aki { OID_CE_AKI } else { OID_CE_SKI }, &keyid_ext(id_is_aki, content))?;
    resign(pool, cert, &tbs, signer)
}

/// At which instant a certificate is judged: a given one (the `_at` entry
/// points) or the wall clock (the entry points without `_at`, which read
/// `Time::now()` themselves).
#[derive(Clone, Copy, Debug, PartialEq)]
enum Clock {
    At(i64),
    Wall,
}

fn ok_of<T, E: std::fmt::Display>(r: Result<T, E>) -> Result<(), String> {
    r.map(|_| ()).map_err(|e| e.to_string())
}

/// Every public way to have `der_bytes` validated as `kind`: the one-call
/// entry points, inspection and verification as two calls (for a trust anchor
/// both verification functions, for an EE certificate both inspection
/// functions), and the one-call entry point after a trip through serde.
fn entry_points(ctx: &mut Ctx, w: &World, kind: Kind, der_bytes: &[u8], issuer: Option<&ResourceCert>, strict: bool, clock: Clock) -> Vec<(&'static str, Result<(), String>)> {
    let tal = w.tal.clone();
    let res = ctx.no_panic("validate-entry-points", || json!({"cert": hex(der_bytes), "kind": format!("{:?}", kind), "clock": format!("{:?}", clock), "strict": strict}), move || {
        let mut out: Vec<(&'static str, Result<(), String>)> = Vec::new();
        let cert = match Cert::decode(der_bytes) {
            Ok(c) => c,
            Err(e) => {
                out.push(("decode", Err(format!("decode: {}", e))));
                return out;
            }
        };
        match (kind, clock) {
            (Kind::Ta, Clock::At(t)) => {
                let t = time_at(t);
                out.push(("validate_ta_at", ok_of(cert.clone().validate_ta_at(tal.clone(), strict, t))));
                out.push(("inspect_ta+verify_ta_at", ok_of(cert.inspect_ta(strict)).and_then(|_| ok_of(cert.clone().verify_ta_at(tal.clone(), strict, t)))));
                out.push(("inspect_ta+verify_ta_ref_at", ok_of(cert.inspect_ta(strict)).and_then(|_| ok_of(cert.verify_ta_ref_at(strict, t)))));
            }
            (Kind::Ta, Clock::Wall) => {
                out.push(("validate_ta", ok_of(cert.clone().validate_ta(tal.clone(), strict))));
                out.push(("inspect_ta+verify_ta", ok_of(cert.inspect_ta(strict)).and_then(|_| ok_of(cert.clone().verify_ta(tal.clone(), strict)))));
                out.push(("inspect_ta+verify_ta_ref", ok_of(cert.inspect_ta(strict)).and_then(|_| ok_of(cert.verify_ta_ref(strict)))));
            }
            (Kind::Ca, Clock::At(t)) => {
                let (t, iss) = (time_at(t), issuer.unwrap());
                out.push(("validate_ca_at", ok_of(cert.clone().validate_ca_at(iss, strict, t))));
                out.push(("inspect_ca+verify_ca_at", ok_of(cert.inspect_ca(strict)).and_then(|_| ok_of(cert.clone().verify_ca_at(iss, strict, t)))));
            }
            (Kind::Ca, Clock::Wall) => {
                let iss = issuer.unwrap();
                out.push(("validate_ca", ok_of(cert.clone().validate_ca(iss, strict))));
                out.push(("inspect_ca+verify_ca", ok_of(cert.inspect_ca(strict)).and_then(|_| ok_of(cert.clone().verify_ca(iss, strict)))));
            }
            (Kind::Ee, Clock::At(t)) => {
                let (t, iss) = (time_at(t), issuer.unwrap());
                out.push(("validate_ee_at", ok_of(cert.clone().validate_ee_at(iss, strict, t))));
                out.push(("inspect_ee+verify_ee_at", ok_of(cert.inspect_ee(strict)).and_then(|_| ok_of(cert.clone().verify_ee_at(iss, strict, t)))));
                out.push(("validate_detached_ee_at", ok_of(cert.clone().validate_detached_ee_at(iss, strict, t))));
                out.push(("inspect_detached_ee+verify_ee_at", ok_of(cert.inspect_detached_ee(strict)).and_then(|_| ok_of(cert.clone().verify_ee_at(iss, strict, t)))));
            }
            (Kind::Ee, Clock::Wall) => {
                let iss = issuer.unwrap();
                out.push(("validate_ee", ok_of(cert.clone().validate_ee(iss, strict))));
                out.push(("inspect_ee+verify_ee", ok_of(cert.inspect_ee(strict)).and_then(|_| ok_of(cert.clone().verify_ee(iss, strict)))));
                out.push(("validate_detached_ee", ok_of(cert.clone().validate_detached_ee(iss, strict))));
                out.push(("inspect_detached_ee+verify_ee", ok_of(cert.inspect_detached_ee(strict)).and_then(|_| ok_of(cert.clone().verify_ee(iss, strict)))));
            }
            (Kind::Router, Clock::At(t)) => {
                let (t, iss) = (time_at(t), issuer.unwrap());
                out.push(("validate_router_at", ok_of(cert.validate_router_at(iss, strict, t))));
                out.push(("inspect_router+verify_router_at", ok_of(cert.inspect_router(strict)).and_then(|_| ok_of(cert.verify_router_at(iss, strict, t)))));
            }
            (Kind::Router, Clock::Wall) => {
                let iss = issuer.unwrap();
                out.push(("validate_router", ok_of(cert.validate_router(iss, strict))));
                out.push(("inspect_router+verify_router", ok_of(cert.inspect_router(strict)).and_then(|_| ok_of(cert.verify_router(iss, strict)))));
            }
        }
        if let Clock::At(t) = clock {
            let t = time_at(t);
            if let Some(back) = serde_json::to_string(&cert).ok().and_then(|js| serde_json::from_str::<Cert>(&js).ok()) {
                out.push(match kind {
                    Kind::Ta => ("serde+validate_ta_at", ok_of(back.validate_ta_at(tal, strict, t))),
                    Kind::Ca => ("serde+validate_ca_at", ok_of(back.validate_ca_at(issuer.unwrap(), strict, t))),
                    Kind::Ee => ("serde+validate_ee_at", ok_of(back.validate_ee_at(issuer.unwrap(), strict, t))),
                    Kind::Router => ("serde+validate_router_at", ok_of(back.validate_router_at(issuer.unwrap(), strict, t))),
                });
            }
        }
        out
    });
    res.unwrap_or_default()
}

fn clock_json(clock: Clock) -> Value {
    match clock {
        Clock::At(t) => json!(t),
        Clock::Wall => json!("wall clock (entry points without _at)"),
    }
}

/// One certificate whose SKI (`which` = "ski") or AKI ("aki") holds `dv`
/// instead of `required`, correctly signed: every entry point must refuse it,
/// strict and relaxed.
#[allow(clippy::too_many_arguments)]
fn check_derived(ctx: &mut Ctx, w: &World, kind: Kind, x: &[u8], issuer: Option<&ResourceCert>, clock: Clock, which: &'static str, dv: &Deriv, facts: &KeyFacts, detail: &Value) {
    let required: &[u8] = &facts.required;
    let kname = format!("{:?}", kind).to_lowercase();
    ctx.sig(&format!("derived {} {} {}{}", which, dv.name, kname, if clock == Clock::Wall { " wall-clock" } else { "" }));
    ctx.obs("derived_cases", 1);
    ctx.obs(&format!("derived_cases:{}:{}", which, kname), 1);
    ctx.obs(&format!("derived_cases_hash:{}", dv.hash), 1);
    ctx.obs(&format!("derived_cases_source:{}", dv.source), 1);
    ctx.obs(&format!("derived_cases_form:{}", dv.form), 1);
    // (entry point, strict) pairs that accepted / all pairs tried
    let mut accepted: Vec<(&'static str, bool)> = Vec::new();
    let mut tried: Vec<&'static str> = Vec::new();
    for strict in [true, false] {
        let sname = if strict { "strict" } else { "relaxed" };
        for (route, res) in entry_points(ctx, w, kind, x, issuer, strict, clock) {
            ctx.eval();
            ctx.obs(&format!("derived_checks:{}", sname), 1);
            ctx.obs(&format!("derived_checks_via:{}", route), 1);
            if !tried.contains(&route) {
                tried.push(route);
            }
            match res {
                Err(e) => {
                    ctx.sample(&format!("derived-{}-{}", which, if dv.octets.len() == 20 { "20-octets" } else { "other-length" }), || {
                        json!({"which": which, "derivation": dv.name, "identifier_in_certificate": hex(&dv.octets), "required": hex(required), "kind": kname, "entry_point": route, "strict": strict, "observed": format!("rejected: {}", e)})
                    });
                }
                Ok(()) => accepted.push((route, strict)),
            }
        }
    }
    if accepted.is_empty() {
        return;
    }
    // where it got through, as part of the signature: under which strictness and
    // through which entry points (a change in one entry point and a change in the
    // shared inspection step are different findings)
    let routes: Vec<&'static str> = tried.iter().copied().filter(|r| accepted.iter().any(|(a, _)| a == r)).collect();
    let uniform = |strict: bool| routes.iter().all(|r| accepted.contains(&(*r, strict)));
    let none = |strict: bool| !accepted.iter().any(|(_, s)| *s == strict);
    let strictness = if uniform(true) && uniform(false) {
        "strict-and-relaxed".to_string()
    } else if uniform(false) && none(true) {
        "relaxed-only".to_string()
    } else if uniform(true) && none(false) {
        "strict-only".to_string()
    } else {
        format!("mixed({})", accepted.iter().map(|(r, s)| format!("{}/{}", r, if *s { "strict" } else { "relaxed" })).collect::<Vec<_>>().join(","))
    };
    let through = if routes.len() == tried.len() { "all-entry-points".to_string() } else { format!("only({})", routes.join(",")) };
    let what = if which == "ski" { "subject key identifier is not the SHA-1 hash of its key bits" } else { "authority key identifier is not the issuer's subject key identifier" };
    ctx.violation(
        &format!("C01:accepts:{}-derived:{}:{}:{}:{}", which, dv.name, kname, strictness, through),
        &format!("a correctly signed certificate whose {} (it holds {} instead) was accepted ({}; {})", what, dv.name, strictness, through),
        json!({
            "which": which,
            "derivation": {"name": dv.name, "hash": dv.hash, "source": dv.source, "form": dv.form},
            "identifier_in_certificate": hex(&dv.octets),
            "required": hex(required),
            "public_key_the_identifier_belongs_to": hex(&facts.spki),
            "kind": kname,
            "accepted_by": accepted.iter().map(|(r, s)| json!({"entry_point": r, "strict": s})).collect::<Vec<_>>(),
            "entry_points_tried": tried,
            "now": clock_json(clock),
            "cert": hex(x), "case": detail,
        }),
    );
}

/// The control of a sweep: the certificate as issued must pass every entry
/// point, strict and relaxed. Returns false if it does not (the sweep then has
/// nothing to say about this certificate).
fn control_accepted(ctx: &mut Ctx, w: &World, kind: Kind, d: &[u8], issuer: Option<&ResourceCert>, clock: Clock, detail: &Value) -> bool {
    let kname = format!("{:?}", kind).to_lowercase();
    let mut all = true;
    for strict in [true, false] {
        let routes = entry_points(ctx, w, kind, d, issuer, strict, clock);
        if routes.is_empty() {
            return false;
        }
        for (route, res) in routes {
            ctx.eval();
            match res {
                Ok(()) => ctx.obs("derived_control_accepted", 1),
                Err(e) => {
                    all = false;
                    if clock == Clock::Wall {
                        // the harness cannot vouch for the machine's clock
                        ctx.obs("derived_control_rejected_at_wall_clock", 1);
                    } else {
                        ctx.violation(
                            &format!("C01:rejects-conforming:{}:{}", kname, route),
                            &format!("a correctly issued certificate was rejected via {} with strict = {}", route, strict),
                            json!({"error": e, "entry_point": route, "strict": strict, "cert": hex(d), "case": detail}),
                        );
                    }
                }
            }
        }
    }
    all
}

/// Which part of the dictionary a sweep goes through.
#[derive(Clone, Copy)]
struct Slice {
    modulus: usize,
    residue: usize,
    /// only 20-octet identifiers hashed from the key bits or the whole SubjectPublicKeyInfo
    core_only: bool,
}

impl Slice {
    fn takes(&self, i: usize, dv: &Deriv) -> bool {
        i % self.modulus == self.residue && (!self.core_only || dv.source == "chain-relation" || (dv.octets.len() == 20 && (dv.source == "key-bits" || dv.source == "spki")))
    }
}

/// A chain TA -> CA -> {CA, EE, router} of its own; then for the trust anchor
/// (SKI) and for each of the three leaves (SKI and AKI) the certificate is
/// re-issued once per dictionary entry with that identifier in place, signed by
/// the right issuer key, and put through every entry point strict and relaxed.
fn derivation_sweep(ctx: &mut Ctx, w: &World, rng: &mut Rng, sweep_no: u64, clock: Clock, slice: Slice) {
    let nkeys = w.pool.len();
    let wall = matches!(clock, Clock::Wall);
    let base: i64 = match clock {
        Clock::Wall => std::time::SystemTime::now().duration_since(std::time::UNIX_EPOCH).map(|d| d.as_secs() as i64).unwrap_or(1_790_000_000),
        Clock::At(_) => {
            let era: i64 = *rng.pick(&[-473_385_600i64, 0, 946_684_800, 2_524_608_000 - 86_400 * 200, 2_840_140_800, 1_700_000_000]);
            era + (rng.below(1000) as i64) * 86_400 + rng.below(86_400) as i64
        }
    };
    let clock = if wall { Clock::Wall } else { Clock::At(base) };
    let strict0 = rng.bool();
    let ta_key = (ctx.shard as usize + sweep_no as usize) % nkeys;
    let ca_key = (ta_key + 1 + rng.usize_below(nkeys - 1)) % nkeys;
    let leaf_key = (ca_key + 1 + rng.usize_below(nkeys - 1)) % nkeys;
    let full = |fl: Flavour| Claim::Blocks(IntervalSet::from_ranges(&[(0, fl.max())]));
    let ta = Spec {
        kind: Kind::Ta, key: ta_key, issuer_key: ta_key, serial: 1 + rng.below(1 << 40), not_before: base - 86_400 * 40, not_after: base + 86_400 * 400,
        overclaim: Overclaim::Refuse, claims: [full(Flavour::As), full(Flavour::V4), full(Flavour::V6)], aki: AkiChoice::Issuer,
        issuer_name: None, subject_name: None, router_key: None,
    };
    let ta_der = build(w, &ta);
    let detail = json!({"sweep": sweep_no, "clock": clock_json(clock), "keys": {"ta": ta_key, "ca": ca_key, "leaf": leaf_key}});
    let validate_here = |ctx: &mut Ctx, kind: Kind, d: &[u8], issuer: Option<&ResourceCert>| -> Option<ResourceCert> {
        match clock {
            Clock::At(t) => match validate(ctx, w, kind, d, issuer, strict0, t) {
                Some(Outcome::Accepted(rc)) => rc,
                _ => None,
            },
            Clock::Wall => {
                let tal = w.tal.clone();
                ctx.no_panic("validate-wall-clock", || json!({"cert": hex(d)}), move || {
                    let cert = Cert::decode(d).ok()?;
                    match kind {
                        Kind::Ta => cert.validate_ta(tal, strict0).ok(),
                        _ => cert.validate_ca(issuer?, strict0).ok(),
                    }
                })
                .flatten()
            }
        }
    };
    // ---- trust anchor: subject key identifier
    let ta_facts = &w.pool_facts[ta_key];
    if !control_accepted(ctx, w, Kind::Ta, &ta_der, None, clock, &detail) {
        ctx.obs("derived_sweep_abandoned", 1);
        return;
    }
    let Some(ta_rc) = validate_here(ctx, Kind::Ta, &ta_der, None) else {
        ctx.obs("derived_sweep_abandoned", 1);
        return;
    };
    match with_keyid(w.pool, &ta_der, false, &ta_facts.required, ta_key) {
        Some(x) if x == ta_der => ctx.obs("derived_splice_of_required_value_reproduces_certificate", 1),
        _ => {
            // the certificate as issued does not hold SHA-1(key bits) where the harness expects it
            ctx.obs("derived_splice_of_required_value_differs", 1);
        }
    }
    for (i, dv) in ta_facts.derivs.iter().enumerate() {
        if !slice.takes(i, dv) {
            continue;
        }
        let Some(x) = with_keyid(w.pool, &ta_der, false, &dv.octets, ta_key) else {
            ctx.obs("derived_splice_failed", 1);
            continue;
        };
        check_derived(ctx, w, Kind::Ta, &x, None, clock, "ski", dv, ta_facts, &detail);
    }
    // a trust anchor may carry an authority key identifier; the statement says nothing
    // about it, so what happens with a derived one is only recorded
    if let Clock::At(t) = clock {
        for (i, dv) in ta_facts.derivs.iter().enumerate() {
            if !(Slice { core_only: true, ..slice }).takes(i, dv) {
                continue;
            }
            let Some(x) = edit_extensions(&ta_der, &[], &[keyid_ext(true, &dv.octets)]).and_then(|tbs| resign(w.pool, &ta_der, &tbs, ta_key)) else { continue };
            match validate(ctx, w, Kind::Ta, &x, None, false, t) {
                Some(Outcome::Accepted(_)) => ctx.obs("derived_aki_added_to_trust_anchor_accepted_relaxed", 1),
                Some(Outcome::Rejected(_)) => ctx.obs("derived_aki_added_to_trust_anchor_rejected_relaxed", 1),
                None => {}
            }
        }
    }
    // ---- the issuing CA
    let sub = |lo: u128, hi: u128| Claim::Blocks(IntervalSet::from_ranges(&[(lo, hi)]));
    let ca = Spec {
        kind: Kind::Ca, key: ca_key, issuer_key: ta_key, serial: 2 + rng.below(1 << 50), not_before: base - 86_400 * 30, not_after: base + 86_400 * 300,
        overclaim: Overclaim::Refuse, claims: [sub(64496, 64511), sub(0x0A00_0000, 0x0AFF_FFFF), sub(0x2001_0db8 << 96, (0x2001_0db9 << 96) - 1)], aki: AkiChoice::Issuer,
        issuer_name: Some(ta_rc.subject().clone()), subject_name: None, router_key: None,
    };
    let ca_der = build(w, &ca);
    let Some(ca_rc) = validate_here(ctx, Kind::Ca, &ca_der, Some(&ta_rc)) else {
        ctx.obs("derived_sweep_abandoned", 1);
        return;
    };
    let ca_facts = &w.pool_facts[ca_key];
    // ---- the three kinds of leaf
    for kind in [Kind::Ca, Kind::Ee, Kind::Router] {
        let rk = rng.usize_below(w.router_keys.len());
        let claims = match kind {
            Kind::Router => [sub(64500, 64501), Claim::Missing, Claim::Missing],
            Kind::Ee => [Claim::Missing, sub(0x0A01_0000, 0x0A01_FFFF), Claim::Inherit],
            _ => [Claim::Inherit, Claim::Inherit, Claim::Inherit],
        };
        let spec = Spec {
            kind, key: leaf_key, issuer_key: ca_key, serial: 3 + rng.below(1 << 50), not_before: base - 86_400 * 20, not_after: base + 86_400 * 200,
            overclaim: if rng.bool() { Overclaim::Refuse } else { Overclaim::Trim }, claims, aki: AkiChoice::Issuer,
            issuer_name: Some(ca_rc.subject().clone()), subject_name: None,
            router_key: if kind == Kind::Router { Some(w.router_keys[rk].clone()) } else { None },
        };
        let d = build(w, &spec);
        let mut det = detail.clone();
        det["leaf"] = json!(format!("{:?}", kind));
        det["issuer_cert"] = json!(hex(&ca_der));
        if !control_accepted(ctx, w, kind, &d, Some(&ca_rc), clock, &det) {
            ctx.obs("derived_leaf_abandoned", 1);
            continue;
        }
        let subject = if kind == Kind::Router { &w.router_facts[rk] } else { &w.pool_facts[leaf_key] };
        for id_is_aki in [false, true] {
            let which = if id_is_aki { "aki" } else { "ski" };
            // the right key: the subject's for the SKI, the issuer's for the AKI
            let facts = if id_is_aki { ca_facts } else { subject };
            match with_keyid(w.pool, &d, id_is_aki, &facts.required, ca_key) {
                Some(x) if x == d => ctx.obs("derived_splice_of_required_value_reproduces_certificate", 1),
                _ => ctx.obs("derived_splice_of_required_value_differs", 1),
            }
            let relations: Vec<Deriv> = if id_is_aki {
                vec![relation("the-certificates-own-subject-key-identifier", &subject.required), relation("the-issuers-authority-key-identifier", &ta_facts.required)]
            } else {
                vec![relation("the-issuers-subject-key-identifier", &ca_facts.required)]
            };
            for (i, dv) in facts.derivs.iter().enumerate().chain(relations.iter().map(|r| (slice.residue, r))) {
                if !slice.takes(i, dv) || dv.octets == facts.required {
                    continue;
                }
                let Some(x) = with_keyid(w.pool, &d, id_is_aki, &dv.octets, ca_key) else {
                    ctx.obs("derived_splice_failed", 1);
                    continue;
                };
                check_derived(ctx, w, kind, &x, Some(&ca_rc), clock, which, dv, facts, &det);
            }
        }
    }
    ctx.obs(if wall { "derived_sweeps_wall_clock" } else { "derived_sweeps" }, 1);
    ctx.obs_max("derived_dictionary_entries_per_rsa_key", ta_facts.derivs.len() as u64);
    ctx.obs_max("derived_dictionary_entries_per_router_key", w.router_facts[0].derivs.len() as u64);
    ctx.drain_chain_hook(|| json!({"sweep": sweep_no}));
}

/// One entry of the dictionary planted into a valid link of a generated
/// chain (whatever its depth, era, resources and policy are).
#[allow(clippy::too_many_arguments)]
fn derived_in_chain(ctx: &mut Ctx, w: &World, rng: &mut Rng, spec: &Spec, d: &[u8], issuer: &Node, now: i64, detail: &Value) {
    let kind = spec.kind;
    let id_is_aki = rng.bool();
    let facts = if id_is_aki {
        &w.pool_facts[issuer.key]
    } else if kind == Kind::Router {
        match spec.router_key.as_ref().and_then(|k| w.router_keys.iter().position(|x| x == k)) {
            Some(i) => &w.router_facts[i],
            None => return,
        }
    } else {
        &w.pool_facts[spec.key]
    };
    let dv = rng.pick(&facts.derivs);
    let Some(x) = with_keyid(w.pool, d, id_is_aki, &dv.octets, issuer.key) else {
        ctx.obs("derived_splice_failed", 1);
        return;
    };
    ctx.obs("derived_cases_in_generated_chains", 1);
    let mut det = detail.clone();
    det["issuer_cert"] = json!(hex(&issuer.der_bytes));
    check_derived(ctx, w, kind, &x, Some(&issuer.rc), Clock::At(now), if id_is_aki { "aki" } else { "ski" }, dv, facts, &det);
}


/// The entry points without `_at` read the clock themselves. Certificates
/// whose validity ends (or starts) a few seconds from now are validated
/// through them while the real clock crosses the edge. A call is judged only
/// when the harness' own clock readings before and after the call lie on the
/// same side of the edge (the library's reading is in between), so scheduling
/// delays cost verdicts, never correctness. Between notAfter and the next
/// whole second the certificate is expired: X.509 times have whole seconds,
/// instants do not.
fn wall_clock_edges(ctx: &mut Ctx, w: &World, kind: Kind, rng: &mut Rng) {
    use std::time::{Duration, SystemTime, UNIX_EPOCH};
    let now_ns = || SystemTime::now().duration_since(UNIX_EPOCH).map(|d| d.as_nanos() as i128).unwrap_or(0);
    let t0 = (now_ns() / 1_000_000_000) as i64;
    let edge = t0 + 3; // notAfter of A; B starts at edge + 1
    let nkeys = w.pool.len();
    let ta_key = rng.usize_below(nkeys);
    let leaf_key = (ta_key + 1 + rng.usize_below(nkeys - 1)) % nkeys;
    let full = |fl: Flavour| Claim::Blocks(IntervalSet::from_ranges(&[(0, fl.max())]));
    let sub = |lo: u128, hi: u128| Claim::Blocks(IntervalSet::from_ranges(&[(lo, hi)]));
    let ta = Spec {
        kind: Kind::Ta, key: ta_key, issuer_key: ta_key, serial: 7, not_before: t0 - 86_400, not_after: t0 + 86_400,
        overclaim: Overclaim::Refuse, claims: [full(Flavour::As), full(Flavour::V4), full(Flavour::V6)], aki: AkiChoice::Issuer,
        issuer_name: None, subject_name: None, router_key: None,
    };
    let strict = rng.bool();
    let ta_der = build(w, &ta);
    let issuer_rc = match validate(ctx, w, Kind::Ta, &ta_der, None, strict, t0) {
        Some(Outcome::Accepted(Some(rc))) => rc,
        _ => {
            ctx.obs("wall_clock_edges_abandoned", 1);
            return;
        }
    };
    // A: valid until `edge`; B: valid from `edge + 1`
    let mk = |nb: i64, na: i64, serial: u64| -> Vec<u8> {
        let spec = match kind {
            Kind::Ta => Spec { not_before: nb, not_after: na, serial, ..ta.clone() },
            _ => Spec {
                kind, key: leaf_key, issuer_key: ta_key, serial, not_before: nb, not_after: na, overclaim: Overclaim::Refuse,
                claims: if kind == Kind::Router { [sub(64496, 64496), Claim::Missing, Claim::Missing] } else { [sub(64496, 64511), sub(0x0A00_0000, 0x0AFF_FFFF), Claim::Missing] },
                aki: AkiChoice::Issuer, issuer_name: Some(issuer_rc.subject().clone()), subject_name: None,
                router_key: if kind == Kind::Router { Some(w.router_keys[0].clone()) } else { None },
            },
        };
        build(w, &spec)
    };
    let a = mk(t0 - 3600, edge, 1001);
    let b = mk(edge + 1, t0 + 3600, 1002);
    let issuer = if kind == Kind::Ta { None } else { Some(&issuer_rc) };
    let kname = format!("{:?}", kind).to_lowercase();
    // (cert, lower bound incl. in ns, upper bound incl. in ns)
    let certs: [(&str, &[u8], i128, i128); 2] = [
        ("expiring", &a, (t0 as i128 - 3600) * 1_000_000_000, edge as i128 * 1_000_000_000),
        ("starting", &b, (edge as i128 + 1) * 1_000_000_000, (t0 as i128 + 3600) * 1_000_000_000),
    ];
    // probe moments relative to `edge`, in ms
    for at_ms in [-1500i64, -400, 120, 350, 600, 870, 1150, 1600] {
        let target = edge as i128 * 1_000_000_000 + at_ms as i128 * 1_000_000;
        let wait = target - now_ns();
        if wait > 0 {
            std::thread::sleep(Duration::from_nanos(wait as u64));
        }
        for (what, der_bytes, lo, hi) in certs.iter() {
            let t1 = now_ns();
            let res = entry_points(ctx, w, kind, der_bytes, issuer, strict, Clock::Wall);
            let t2 = now_ns();
            if t2 < t1 {
                continue;
            }
            let inside = t1 >= *lo && t2 <= *hi;
            let outside = t2 < *lo || t1 > *hi;
            if !inside && !outside {
                ctx.obs("wall_clock_probe_straddled_an_edge_no_verdict", res.len() as u64);
                continue;
            }
            let sub_second = outside && (t1 > *hi && t2 < *hi + 1_000_000_000 || t2 < *lo && t1 > *lo - 1_000_000_000);
            for (entry, r) in res {
                ctx.eval();
                ctx.sig(&format!("wall-clock edge | {} | {} | {} | {}{}", kname, entry, what, if inside { "inside" } else { "outside" }, if sub_second { " by less than a second" } else { "" }));
                let detail = || json!({
                    "kind": kname, "entry_point": entry, "certificate": what, "cert": hex(der_bytes), "strict": strict,
                    "not_before_ns": lo.to_string(), "not_after_ns": hi.to_string(),
                    "clock_before_call_ns": t1.to_string(), "clock_after_call_ns": t2.to_string(),
                    "result": match &r { Ok(()) => "accepted".to_string(), Err(e) => format!("rejected: {}", e) },
                });
                match (&r, inside) {
                    (Ok(()), false) => ctx.violation(
                        &format!("C01:accepts:wall-clock-outside-validity:{}:{}{}", kname, entry, if sub_second { ":sub-second" } else { "" }),
                        "an entry point that reads the clock itself accepted a certificate although the clock was outside its validity window before and after the call",
                        detail(),
                    ),
                    (Err(_), true) if !entry.starts_with("decode") => ctx.violation(
                        &format!("C01:rejects-conforming:wall-clock-inside-validity:{}:{}", kname, entry),
                        "an entry point that reads the clock itself rejected a conforming certificate although the clock was inside its validity window before and after the call",
                        detail(),
                    ),
                    _ => {}
                }
                ctx.obs(if inside { "wall_clock_probes_inside" } else if sub_second { "wall_clock_probes_outside_by_less_than_a_second" } else { "wall_clock_probes_outside" }, 1);
            }
        }
    }
}

pub fn run(ctx: &mut Ctx) {
    if ctx.no_ffi() {
        ctx.notes.push("C01 needs signatures (aws-lc, FFI): not run under Miri".into());
        return;
    }
    let pool = PoolSigner::new(6);
    let router_spki: Vec<Vec<u8>> = (0..2).map(|_| crate::keys::p256_spki()).collect();
    let w = World {
        pool: &pool,
        tal: TalInfo::from_name("verif".into()).into_arc(),
        uri: uri::Rsync::from_str("rsync://example.com/m/p").unwrap(),
        router_keys: router_spki.iter().map(|s| PublicKey::decode(s.as_slice()).unwrap()).collect(),
        pool_facts: pool.keys.iter().map(|k| key_facts(&k.spki)).collect(),
        router_facts: router_spki.iter().map(|s| key_facts(s)).collect(),
    };
    // ---- key identifiers derived from the right key in another way: the whole
    // dictionary on chains of this shard's own (a slice of it under valgrind)
    {
        let mut srng = ctx.rng("derivation-sweeps");
        let everything = Slice { modulus: 1, residue: 0, core_only: false };
        let (sweeps, slice, wall) = match ctx.stage {
            Stage::Native if ctx.tier == Tier::Thorough => (6, everything, true),
            Stage::Native | Stage::Asan => (1, everything, true),
            _ => (1, Slice { modulus: 16, residue: (ctx.shard as usize + ctx.seed as usize) % 16, core_only: false }, false),
        };
        for i in 0..sweeps {
            derivation_sweep(ctx, &w, &mut srng, i, Clock::At(0), slice);
        }
        if wall {
            derivation_sweep(ctx, &w, &mut srng, sweeps, Clock::Wall, Slice { core_only: true, ..slice });
        }
    }
    // ---- the real clock crossing a validity edge (four shards, one kind each; ~5 s of waiting)
    if ctx.stage == Stage::Native && ctx.shard < 4.min(ctx.nshards) {
        let mut crng = ctx.rng("wall-clock-edges");
        let kind = [Kind::Ca, Kind::Ee, Kind::Ta, Kind::Router][ctx.shard as usize % 4];
        wall_clock_edges(ctx, &w, kind, &mut crng);
    }
    let chains = ctx.stage_budget((20_000, 600_000), 3_000, 0, 24);
    let mut rng = ctx.rng("chains");
    let mut xrng = ctx.rng("encoder-shapes");
    let mut drng = ctx.rng("derived-key-identifiers");
    for i in 0..chains {
        run_chain(ctx, &w, &mut rng, &mut xrng, &mut drng, i);
    }
    ctx.obs("signatures_made", pool.signatures.get());
}
