//! C07 helpers that do not touch the library: the truncating reader, the
//! manual poll driver and an independent model of the RTR wire format
//! (RFC 6810 / RFC 8210 / 8210bis layout written down from the documents).

use serde_json::{json, Value};
use std::future::Future;
use std::io;
use std::pin::Pin;
use std::task::{Context, Poll};
use tokio::io::{AsyncRead, ReadBuf};

use crate::core::hex;

//------------ TruncatingReader ----------------------------------------------

/// Number of reads after end-of-stream that are answered with a plain EOF
/// (`Ok` with nothing filled). The next one is answered with an error, so a
/// loop that keeps reading a closed stream terminates and is observable.
pub const EOF_READS_TOLERATED: u32 = 2;

/// How the reader hands out the bytes it has.
#[derive(Clone, Debug, PartialEq, Eq)]
pub enum Chunking {
    /// Whatever fits into the caller's buffer, never `Pending`.
    AllAtOnce,
    /// One byte per successful poll, `Pending` before every byte and before
    /// the end of stream.
    ByteWise,
    /// A cyclic script: `0` means "return Pending once", `n > 0` means
    /// "deliver at most n bytes".
    Script(Vec<usize>),
}

impl Chunking {
    pub fn label(&self) -> &'static str {
        match self {
            Chunking::AllAtOnce => "all-at-once",
            Chunking::ByteWise => "bytewise+pending",
            Chunking::Script(_) => "random-chunks",
        }
    }
}

/// Serves `data[..limit]` and then end-of-stream.
pub struct TruncatingReader<'a> {
    data: &'a [u8],
    limit: usize,
    pos: usize,
    chunking: Chunking,
    script_idx: usize,
    pended: bool,
    /// reads that arrived when the stream was already at its end
    pub reads_after_eof: u32,
    /// the reader had to answer a read after EOF with an error
    pub tripped: bool,
    pub polls: u64,
    pub pendings: u64,
    /// largest buffer the caller ever offered
    pub max_offered: usize,
}

impl<'a> TruncatingReader<'a> {
    pub fn new(data: &'a [u8], limit: usize, chunking: Chunking) -> Self {
        TruncatingReader {
            data,
            limit: limit.min(data.len()),
            pos: 0,
            chunking,
            script_idx: 0,
            pended: false,
            reads_after_eof: 0,
            tripped: false,
            polls: 0,
            pendings: 0,
            max_offered: 0,
        }
    }

    /// Bytes handed out so far.
    pub fn consumed(&self) -> usize {
        self.pos
    }

    pub fn limit(&self) -> usize {
        self.limit
    }
}

impl AsyncRead for TruncatingReader<'_> {
    fn poll_read(self: Pin<&mut Self>, cx: &mut Context<'_>, buf: &mut ReadBuf<'_>) -> Poll<io::Result<()>> {
        let this = self.get_mut();
        this.polls += 1;
        let room = buf.remaining();
        if room > this.max_offered {
            this.max_offered = room;
        }
        if room == 0 {
            // a zero-length read says nothing about the stream
            return Poll::Ready(Ok(()));
        }
        // how many bytes may go out in this poll, or Pending
        let allowance = match &this.chunking {
            Chunking::AllAtOnce => usize::MAX,
            Chunking::ByteWise => {
                if !this.pended {
                    this.pended = true;
                    this.pendings += 1;
                    cx.waker().wake_by_ref();
                    return Poll::Pending;
                }
                this.pended = false;
                1
            }
            Chunking::Script(script) => {
                let step = if script.is_empty() { usize::MAX } else { script[this.script_idx % script.len()] };
                this.script_idx += 1;
                if step == 0 {
                    this.pendings += 1;
                    cx.waker().wake_by_ref();
                    return Poll::Pending;
                }
                step
            }
        };
        if this.pos >= this.limit {
            this.reads_after_eof += 1;
            if this.reads_after_eof > EOF_READS_TOLERATED {
                this.tripped = true;
                return Poll::Ready(Err(io::Error::new(
                    io::ErrorKind::Other,
                    "verif: stream was read again after two end-of-stream answers",
                )));
            }
            return Poll::Ready(Ok(()));
        }
        let n = room.min(allowance).min(this.limit - this.pos);
        buf.put_slice(&this.data[this.pos..this.pos + n]);
        this.pos += n;
        Poll::Ready(Ok(()))
    }
}

//------------ poll driver ---------------------------------------------------

/// Polls `fut` at most `budget` times with a no-op waker. `None` means the
/// budget ran out while the future was still pending.
pub fn drive<F: Future>(fut: F, budget: u64) -> (Option<F::Output>, u64) {
    let waker = futures_util::task::noop_waker();
    let mut cx = Context::from_waker(&waker);
    let mut fut = std::pin::pin!(fut);
    let mut polls = 0u64;
    loop {
        polls += 1;
        let pinned: Pin<&mut F> = fut.as_mut();
        match pinned.poll(&mut cx) {
            Poll::Ready(v) => return (Some(v), polls),
            Poll::Pending => {
                if polls >= budget {
                    return (None, polls);
                }
            }
        }
    }
}

/// Drives a future that cannot pend (writes into a `Vec`).
pub fn drive_now<F: Future>(fut: F) -> Option<F::Output> {
    drive(fut, 4).0
}

//------------ wire model ----------------------------------------------------

pub const T_SERIAL_NOTIFY: u8 = 0;
pub const T_SERIAL_QUERY: u8 = 1;
pub const T_RESET_QUERY: u8 = 2;
pub const T_CACHE_RESPONSE: u8 = 3;
pub const T_IPV4: u8 = 4;
pub const T_IPV6: u8 = 6;
pub const T_END_OF_DATA: u8 = 7;
pub const T_CACHE_RESET: u8 = 8;
pub const T_ROUTER_KEY: u8 = 9;
pub const T_ERROR: u8 = 10;
pub const T_ASPA: u8 = 11;

/// A PDU as the documents define it; `encode` lays it out on the wire.
#[derive(Clone, Debug, PartialEq, Eq)]
pub enum Pdu {
    SerialNotify { v: u8, session: u16, serial: u32 },
    SerialQuery { v: u8, session: u16, serial: u32 },
    ResetQuery { v: u8 },
    CacheResponse { v: u8, session: u16 },
    V4 { v: u8, flags: u8, plen: u8, mlen: u8, addr: u32, asn: u32, via_item: bool, explicit_max: bool },
    V6 { v: u8, flags: u8, plen: u8, mlen: u8, addr: u128, asn: u32, via_item: bool, explicit_max: bool },
    /// v == 0: 12 octets, timers absent on the wire
    EndOfData { v: u8, session: u16, serial: u32, refresh: u32, retry: u32, expire: u32 },
    CacheReset { v: u8 },
    RouterKey { v: u8, flags: u8, ski: [u8; 20], asn: u32, info: Vec<u8>, via_item: bool },
    Error { v: u8, code: u16, pdu: Vec<u8>, text: Vec<u8> },
    Aspa { v: u8, flags: u8, customer: u32, providers: Vec<u32>, via_item: bool },
}

fn header(out: &mut Vec<u8>, v: u8, t: u8, session: u16, len: u32) {
    out.push(v);
    out.push(t);
    out.extend_from_slice(&session.to_be_bytes());
    out.extend_from_slice(&len.to_be_bytes());
}

impl Pdu {
    pub fn type_code(&self) -> u8 {
        match self {
            Pdu::SerialNotify { .. } => T_SERIAL_NOTIFY,
            Pdu::SerialQuery { .. } => T_SERIAL_QUERY,
            Pdu::ResetQuery { .. } => T_RESET_QUERY,
            Pdu::CacheResponse { .. } => T_CACHE_RESPONSE,
            Pdu::V4 { .. } => T_IPV4,
            Pdu::V6 { .. } => T_IPV6,
            Pdu::EndOfData { .. } => T_END_OF_DATA,
            Pdu::CacheReset { .. } => T_CACHE_RESET,
            Pdu::RouterKey { .. } => T_ROUTER_KEY,
            Pdu::Error { .. } => T_ERROR,
            Pdu::Aspa { .. } => T_ASPA,
        }
    }

    pub fn name(&self) -> &'static str {
        match self {
            Pdu::SerialNotify { .. } => "SerialNotify",
            Pdu::SerialQuery { .. } => "SerialQuery",
            Pdu::ResetQuery { .. } => "ResetQuery",
            Pdu::CacheResponse { .. } => "CacheResponse",
            Pdu::V4 { .. } => "Ipv4Prefix",
            Pdu::V6 { .. } => "Ipv6Prefix",
            Pdu::EndOfData { v: 0, .. } => "EndOfDataV0",
            Pdu::EndOfData { .. } => "EndOfDataV1",
            Pdu::CacheReset { .. } => "CacheReset",
            Pdu::RouterKey { .. } => "RouterKey",
            Pdu::Error { .. } => "Error",
            Pdu::Aspa { .. } => "Aspa",
        }
    }

    pub fn version(&self) -> u8 {
        match self {
            Pdu::SerialNotify { v, .. }
            | Pdu::SerialQuery { v, .. }
            | Pdu::ResetQuery { v }
            | Pdu::CacheResponse { v, .. }
            | Pdu::V4 { v, .. }
            | Pdu::V6 { v, .. }
            | Pdu::EndOfData { v, .. }
            | Pdu::CacheReset { v }
            | Pdu::RouterKey { v, .. }
            | Pdu::Error { v, .. }
            | Pdu::Aspa { v, .. } => *v,
        }
    }

    /// The octets the documents prescribe for this PDU.
    pub fn encode(&self) -> Vec<u8> {
        let mut o = Vec::new();
        match self {
            Pdu::SerialNotify { v, session, serial } => {
                header(&mut o, *v, T_SERIAL_NOTIFY, *session, 12);
                o.extend_from_slice(&serial.to_be_bytes());
            }
            Pdu::SerialQuery { v, session, serial } => {
                header(&mut o, *v, T_SERIAL_QUERY, *session, 12);
                o.extend_from_slice(&serial.to_be_bytes());
            }
            Pdu::ResetQuery { v } => header(&mut o, *v, T_RESET_QUERY, 0, 8),
            Pdu::CacheResponse { v, session } => header(&mut o, *v, T_CACHE_RESPONSE, *session, 8),
            Pdu::V4 { v, flags, plen, mlen, addr, asn, .. } => {
                header(&mut o, *v, T_IPV4, 0, 20);
                o.extend_from_slice(&[*flags, *plen, *mlen, 0]);
                o.extend_from_slice(&addr.to_be_bytes());
                o.extend_from_slice(&asn.to_be_bytes());
            }
            Pdu::V6 { v, flags, plen, mlen, addr, asn, .. } => {
                header(&mut o, *v, T_IPV6, 0, 32);
                o.extend_from_slice(&[*flags, *plen, *mlen, 0]);
                o.extend_from_slice(&addr.to_be_bytes());
                o.extend_from_slice(&asn.to_be_bytes());
            }
            Pdu::EndOfData { v, session, serial, refresh, retry, expire } => {
                if *v == 0 {
                    header(&mut o, 0, T_END_OF_DATA, *session, 12);
                    o.extend_from_slice(&serial.to_be_bytes());
                } else {
                    header(&mut o, *v, T_END_OF_DATA, *session, 24);
                    o.extend_from_slice(&serial.to_be_bytes());
                    o.extend_from_slice(&refresh.to_be_bytes());
                    o.extend_from_slice(&retry.to_be_bytes());
                    o.extend_from_slice(&expire.to_be_bytes());
                }
            }
            Pdu::CacheReset { v } => header(&mut o, *v, T_CACHE_RESET, 0, 8),
            Pdu::RouterKey { v, flags, ski, asn, info, .. } => {
                header(&mut o, *v, T_ROUTER_KEY, (*flags as u16) << 8, (32 + info.len()) as u32);
                o.extend_from_slice(ski);
                o.extend_from_slice(&asn.to_be_bytes());
                o.extend_from_slice(info);
            }
            Pdu::Error { v, code, pdu, text } => {
                header(&mut o, *v, T_ERROR, *code, (16 + pdu.len() + text.len()) as u32);
                o.extend_from_slice(&(pdu.len() as u32).to_be_bytes());
                o.extend_from_slice(pdu);
                o.extend_from_slice(&(text.len() as u32).to_be_bytes());
                o.extend_from_slice(text);
            }
            Pdu::Aspa { v, flags, customer, providers, .. } => {
                header(&mut o, *v, T_ASPA, (*flags as u16) << 8, (12 + 4 * providers.len()) as u32);
                o.extend_from_slice(&customer.to_be_bytes());
                for p in providers {
                    o.extend_from_slice(&p.to_be_bytes());
                }
            }
        }
        o
    }

    /// Literal description for samples and violation details (long octet
    /// strings are abbreviated, the wire octets are given in full elsewhere).
    pub fn to_json(&self) -> Value {
        fn short(b: &[u8]) -> String {
            if b.len() <= 48 {
                hex(b)
            } else {
                format!("{}..({} octets)", hex(&b[..24]), b.len())
            }
        }
        match self {
            Pdu::SerialNotify { v, session, serial } => json!({"pdu": "SerialNotify", "version": v, "session": session, "serial": serial}),
            Pdu::SerialQuery { v, session, serial } => json!({"pdu": "SerialQuery", "version": v, "session": session, "serial": serial}),
            Pdu::ResetQuery { v } => json!({"pdu": "ResetQuery", "version": v}),
            Pdu::CacheResponse { v, session } => json!({"pdu": "CacheResponse", "version": v, "session": session}),
            Pdu::V4 { v, flags, plen, mlen, addr, asn, via_item, explicit_max } => json!({
                "pdu": "Ipv4Prefix", "version": v, "flags": flags, "prefix": format!("{}/{}", std::net::Ipv4Addr::from(*addr), plen),
                "max_len": mlen, "asn": asn, "built_from_item": via_item, "explicit_max_len": explicit_max}),
            Pdu::V6 { v, flags, plen, mlen, addr, asn, via_item, explicit_max } => json!({
                "pdu": "Ipv6Prefix", "version": v, "flags": flags, "prefix": format!("{}/{}", std::net::Ipv6Addr::from(*addr), plen),
                "max_len": mlen, "asn": asn, "built_from_item": via_item, "explicit_max_len": explicit_max}),
            Pdu::EndOfData { v, session, serial, refresh, retry, expire } => json!({
                "pdu": "EndOfData", "version": v, "session": session, "serial": serial, "refresh": refresh, "retry": retry, "expire": expire}),
            Pdu::CacheReset { v } => json!({"pdu": "CacheReset", "version": v}),
            Pdu::RouterKey { v, flags, ski, asn, info, via_item } => json!({
                "pdu": "RouterKey", "version": v, "flags": flags, "ski": hex(ski), "asn": asn, "key_info_len": info.len(), "key_info": short(info), "built_from_item": via_item}),
            Pdu::Error { v, code, pdu, text } => json!({
                "pdu": "Error", "version": v, "code": code, "embedded_pdu_len": pdu.len(), "embedded_pdu": short(pdu), "text_len": text.len(), "text": short(text)}),
            Pdu::Aspa { v, flags, customer, providers, via_item } => json!({
                "pdu": "Aspa", "version": v, "flags": flags, "customer": customer, "provider_count": providers.len(),
                "providers_head": providers.iter().take(8).collect::<Vec<_>>(), "built_from_item": via_item}),
        }
    }
}

/// The eight header octets as the documents define them.
#[derive(Clone, Copy, Debug, PartialEq, Eq)]
pub struct Hdr {
    pub version: u8,
    pub pdu: u8,
    pub session: u16,
    pub length: u32,
}

pub fn parse_header(b: &[u8]) -> Option<Hdr> {
    if b.len() < 8 {
        return None;
    }
    Some(Hdr {
        version: b[0],
        pdu: b[1],
        session: u16::from_be_bytes([b[2], b[3]]),
        length: u32::from_be_bytes([b[4], b[5], b[6], b[7]]),
    })
}

pub fn be32(b: &[u8], at: usize) -> Option<u32> {
    b.get(at..at + 4).map(|s| u32::from_be_bytes([s[0], s[1], s[2], s[3]]))
}

/// Abbreviated hex for violation details: streams can be tens of kilobytes.
pub fn hex_capped(b: &[u8], cap: usize) -> String {
    if b.len() <= cap {
        hex(b)
    } else {
        format!("{}..(+{} octets)", hex(&b[..cap]), b.len() - cap)
    }
}
