//! C05 — *foreign* objects: certificates, CRLs, signed objects and CSRs
//! written by the harness' own DER writer (`crate::der`) and signed with
//! aws-lc directly (`PoolKey::sign_raw`). Nothing here calls an encoder of
//! rpki-rs or bcder.
//!
//! Their purpose is to be *decoded* by the library so that the values its
//! decoders hand out — which can carry state no constructor produces (the
//! "parameters were absent" annotation of a signature algorithm, captured
//! names in any string type, the mode a value was captured in, a Basic
//! Constraints extension with cA false, …) — can be fed into the builders
//! (`c05_reissue`). Every object is written in one of the *spellings* the
//! profile and the decoders allow; a spelling the library refuses is not a
//! violation of C05 (it is counted and nothing is derived from it).

use crate::core::Rng;
use crate::der;
use crate::keys::{sha1, sha256, PoolKey};
use chrono::{Datelike, Timelike};
use rpki::repository::x509::Time;
use serde_json::{json, Value};

//------------ Spelling ------------------------------------------------------

/// The free choices an encoder has inside the profile (or inside what the
/// library documents it tolerates).
#[derive(Clone, Debug)]
pub struct Spell {
    /// sha256WithRSAEncryption AlgorithmIdentifier with NULL parameters (true)
    /// or without parameters (false) — RFC 4055 allows both; used for the
    /// inner and the outer identifier alike.
    pub alg_null: bool,
    /// rsaEncryption in SubjectPublicKeyInfo with NULL (RFC 3279) or without.
    pub spki_null: bool,
    /// GeneralizedTime also for years 1950..=2049 (the decoders accept it).
    pub gen_time: bool,
    /// extensions in reverse order of what the library writes
    pub ext_reversed: bool,
    /// `critical FALSE` written explicitly on non-critical extensions
    pub explicit_false: bool,
    /// a CPS policy qualifier in Certificate Policies
    pub policy_qualifier: bool,
    /// an additional non-critical extension the library does not know
    pub unknown_ext: bool,
    /// SIA access descriptions in reverse order and an additional https
    /// caRepository / signedObject entry before the rsync one
    pub sia_varied: bool,
    /// SHA-256 digest AlgorithmIdentifier with NULL parameters (CMS)
    pub digest_null: bool,
    /// SignerInfo signatureAlgorithm: false = rsaEncryption, true = sha256WithRSAEncryption
    pub cms_sig_sha256_with_rsa: bool,
    /// ... with NULL parameters
    pub cms_sig_null: bool,
    /// explicit `version [0] 0` in the eContent
    pub econtent_version: bool,
    /// CRL: crlNumber extension before authorityKeyIdentifier
    pub crl_ext_swapped: bool,
    /// CRL without entries: an explicit empty SEQUENCE instead of leaving the field out
    pub crl_empty_list_explicit: bool,
}

impl Spell {
    pub fn canonical() -> Self {
        Spell {
            alg_null: true,
            spki_null: true,
            gen_time: false,
            ext_reversed: false,
            explicit_false: false,
            policy_qualifier: false,
            unknown_ext: false,
            sia_varied: false,
            digest_null: false,
            cms_sig_sha256_with_rsa: false,
            cms_sig_null: true,
            econtent_version: false,
            crl_ext_swapped: false,
            crl_empty_list_explicit: false,
        }
    }

    /// One to three deviations from the canonical spelling (sometimes none,
    /// sometimes all at once).
    pub fn random(rng: &mut Rng) -> Self {
        let mut s = Spell::canonical();
        let n = match rng.below(8) {
            0 => 0,
            1 => 14,
            2 | 3 => 1,
            4 | 5 => 2,
            _ => 3,
        };
        for _ in 0..n {
            match if n == 14 { None } else { Some(rng.below(14)) } {
                Some(0) => s.alg_null = false,
                Some(1) => s.spki_null = false,
                Some(2) => s.gen_time = true,
                Some(3) => s.ext_reversed = true,
                Some(4) => s.explicit_false = true,
                Some(5) => s.policy_qualifier = true,
                Some(6) => s.unknown_ext = true,
                Some(7) => s.sia_varied = true,
                Some(8) => s.digest_null = true,
                Some(9) => s.cms_sig_sha256_with_rsa = true,
                Some(10) => s.cms_sig_null = false,
                Some(11) => s.econtent_version = true,
                Some(12) => s.crl_ext_swapped = true,
                Some(13) => s.crl_empty_list_explicit = true,
                _ => {
                    s = Spell {
                        alg_null: false,
                        spki_null: false,
                        gen_time: true,
                        ext_reversed: true,
                        explicit_false: true,
                        policy_qualifier: true,
                        unknown_ext: true,
                        sia_varied: true,
                        digest_null: true,
                        cms_sig_sha256_with_rsa: true,
                        cms_sig_null: false,
                        econtent_version: true,
                        crl_ext_swapped: true,
                        crl_empty_list_explicit: true,
                    };
                    break;
                }
            }
        }
        // the identifier without NULL is the spelling most often met in the wild: keep it frequent
        if rng.chance(1, 3) {
            s.alg_null = false;
        }
        s
    }

    /// The deviations as a list of short labels (class and detail).
    pub fn labels(&self) -> Vec<&'static str> {
        let mut v = Vec::new();
        if !self.alg_null {
            v.push("alg-without-NULL");
        }
        if !self.spki_null {
            v.push("spki-without-NULL");
        }
        if self.gen_time {
            v.push("GeneralizedTime<2050");
        }
        if self.ext_reversed {
            v.push("extensions-reversed");
        }
        if self.explicit_false {
            v.push("critical-FALSE-explicit");
        }
        if self.policy_qualifier {
            v.push("policy-qualifier");
        }
        if self.unknown_ext {
            v.push("unknown-extension");
        }
        if self.sia_varied {
            v.push("sia-varied");
        }
        if self.digest_null {
            v.push("digest-NULL");
        }
        if self.cms_sig_sha256_with_rsa {
            v.push("cms-sha256WithRSA");
        }
        if !self.cms_sig_null {
            v.push("cms-sig-without-NULL");
        }
        if self.econtent_version {
            v.push("econtent-version-explicit");
        }
        if self.crl_ext_swapped {
            v.push("crl-extensions-swapped");
        }
        if self.crl_empty_list_explicit {
            v.push("crl-empty-list-explicit");
        }
        v
    }

    pub fn json(&self) -> Value {
        json!(self.labels())
    }
}

//------------ Primitive pieces ----------------------------------------------

pub const OID_CN: &[u64] = &[2, 5, 4, 3];
pub const OID_SERIAL_NUMBER: &[u64] = &[2, 5, 4, 5];
pub const OID_ORGANIZATION: &[u64] = &[2, 5, 4, 10];

const OID_BASIC_CONSTRAINTS: &[u64] = &[2, 5, 29, 19];
const OID_SKI: &[u64] = &[2, 5, 29, 14];
const OID_AKI: &[u64] = &[2, 5, 29, 35];
const OID_KEY_USAGE: &[u64] = &[2, 5, 29, 15];
const OID_EKU: &[u64] = &[2, 5, 29, 37];
const OID_CRLDP: &[u64] = &[2, 5, 29, 31];
const OID_CRL_NUMBER: &[u64] = &[2, 5, 29, 20];
const OID_CERT_POLICIES: &[u64] = &[2, 5, 29, 32];
const OID_AIA: &[u64] = &[1, 3, 6, 1, 5, 5, 7, 1, 1];
const OID_SIA: &[u64] = &[1, 3, 6, 1, 5, 5, 7, 1, 11];
const OID_IP_BLOCKS: &[u64] = &[1, 3, 6, 1, 5, 5, 7, 1, 7];
const OID_AS_IDS: &[u64] = &[1, 3, 6, 1, 5, 5, 7, 1, 8];
const OID_IP_BLOCKS_V2: &[u64] = &[1, 3, 6, 1, 5, 5, 7, 1, 28];
const OID_AS_IDS_V2: &[u64] = &[1, 3, 6, 1, 5, 5, 7, 1, 29];
const OID_CP_RESOURCES: &[u64] = &[1, 3, 6, 1, 5, 5, 7, 14, 2];
const OID_CP_RESOURCES_V2: &[u64] = &[1, 3, 6, 1, 5, 5, 7, 14, 3];
const OID_CPS: &[u64] = &[1, 3, 6, 1, 5, 5, 7, 2, 1];
const OID_AD_CA_ISSUERS: &[u64] = &[1, 3, 6, 1, 5, 5, 7, 48, 2];
const OID_AD_CA_REPOSITORY: &[u64] = &[1, 3, 6, 1, 5, 5, 7, 48, 5];
const OID_AD_RPKI_MANIFEST: &[u64] = &[1, 3, 6, 1, 5, 5, 7, 48, 10];
const OID_AD_SIGNED_OBJECT: &[u64] = &[1, 3, 6, 1, 5, 5, 7, 48, 11];
const OID_AD_RPKI_NOTIFY: &[u64] = &[1, 3, 6, 1, 5, 5, 7, 48, 13];
const OID_KP_BGPSEC_ROUTER: &[u64] = &[1, 3, 6, 1, 5, 5, 7, 3, 30];
const OID_EXTENSION_REQUEST: &[u64] = &[1, 2, 840, 113549, 1, 9, 14];
// some private-enterprise arc: an extension nobody knows
const OID_UNKNOWN_EXT: &[u64] = &[1, 3, 6, 1, 4, 1, 99999, 1, 7];

pub fn alg_id(arcs: &[u64], with_null: bool) -> Vec<u8> {
    if with_null {
        der::seq(&[&der::oid(arcs), &der::null()])
    } else {
        der::seq(&[&der::oid(arcs)])
    }
}

/// X.509 time: UTCTime for 1950..=2049 unless `force_gen`, else GeneralizedTime.
pub fn time_tlv(t: Time, force_gen: bool) -> Vec<u8> {
    let y = t.year();
    if (1950..=2049).contains(&y) && !force_gen {
        der::utctime(&format!("{:02}{:02}{:02}{:02}{:02}{:02}Z", y % 100, t.month(), t.day(), t.hour(), t.minute(), t.second()))
    } else {
        der::gentime(&format!("{:04}{:02}{:02}{:02}{:02}{:02}Z", y, t.month(), t.day(), t.hour(), t.minute(), t.second()))
    }
}

pub fn gentime_tlv(t: Time) -> Vec<u8> {
    time_tlv(t, true)
}

const PRINTABLE: &[u8] = b"ABCDEFGHIJKLMNOPQRSTUVWXYZabcdefghijklmnopqrstuvwxyz0123456789 '()+,-./:=?";

fn attr(oid: &[u64], tag: u8, value: &[u8]) -> Vec<u8> {
    der::seq(&[&der::oid(oid), &der::tlv(tag, value)])
}

/// A distinguished name in one of the forms met in the RPKI. Returns the
/// DER, a class label and whether RFC 6487 (strict) allows the form.
pub fn name(rng: &mut Rng) -> (Vec<u8>, &'static str, bool) {
    let printable = |rng: &mut Rng, min: usize, max: usize| -> Vec<u8> {
        let n = min + rng.usize_below(max - min + 1);
        (0..n).map(|_| *rng.pick(PRINTABLE)).collect()
    };
    match rng.below(7) {
        0 => {
            let cn = crate::core::hex(&rng.bytes(20)).into_bytes();
            (der::seq(&[&der::set_of_sorted(&[attr(OID_CN, der::T_PRINTABLE, &cn)])]), "cn printable 40 hex", true)
        }
        1 => {
            let cn = printable(rng, 1, 60);
            (der::seq(&[&der::set_of_sorted(&[attr(OID_CN, der::T_PRINTABLE, &cn)])]), "cn printable", true)
        }
        2 => {
            let cn = printable(rng, 1, 30);
            let sn = printable(rng, 1, 20);
            (
                der::seq(&[&der::set_of_sorted(&[attr(OID_CN, der::T_PRINTABLE, &cn), attr(OID_SERIAL_NUMBER, der::T_PRINTABLE, &sn)])]),
                "cn+serialNumber one rdn",
                true,
            )
        }
        3 => {
            let cn = printable(rng, 1, 30);
            let sn = printable(rng, 1, 20);
            (
                der::seq(&[
                    &der::set_of_sorted(&[attr(OID_CN, der::T_PRINTABLE, &cn)]),
                    &der::set_of_sorted(&[attr(OID_SERIAL_NUMBER, der::T_PRINTABLE, &sn)]),
                ]),
                "cn,serialNumber two rdns",
                true,
            )
        }
        4 => {
            // UTF8String common name: tolerated in relaxed mode only
            let cn = "Zertifizierungsstelle \u{00e4}\u{00f6}\u{00fc} \u{2603}".as_bytes().to_vec();
            (der::seq(&[&der::set_of_sorted(&[attr(OID_CN, der::T_UTF8, &cn)])]), "cn utf8", false)
        }
        5 => {
            // an organization next to the common name
            let cn = printable(rng, 1, 30);
            let o = printable(rng, 1, 30);
            (
                der::seq(&[&der::set_of_sorted(&[attr(OID_ORGANIZATION, der::T_PRINTABLE, &o)]), &der::set_of_sorted(&[attr(OID_CN, der::T_PRINTABLE, &cn)])]),
                // RFC 6487 only allows commonName and serialNumber: tolerated in relaxed mode only
                "o,cn two rdns",
                false,
            )
        }
        _ => {
            let cn = printable(rng, 130, 200);
            (der::seq(&[&der::set_of_sorted(&[attr(OID_CN, der::T_PRINTABLE, &cn)])]), "cn printable long", true)
        }
    }
}

/// The default name rpki-rs derives from a key (RFC 6487 section 8 advice):
/// CN = hex of the key identifier, PrintableString.
pub fn name_of_key(key: &PoolKey) -> Vec<u8> {
    let cn = crate::core::hex(&ski_of(key)).into_bytes();
    der::seq(&[&der::set_of_sorted(&[attr(OID_CN, der::T_PRINTABLE, &cn)])])
}

/// The subjectPublicKey BIT STRING content (without the unused-bits octet).
pub fn key_bits(spki: &[u8]) -> Vec<u8> {
    let n = der::parse(spki).expect("spki");
    let bits = n.child(1).expect("spki bits").content(spki);
    bits[1..].to_vec()
}

/// RFC 6487 key identifier: SHA-1 over the subjectPublicKey bits.
pub fn ski_of(key: &PoolKey) -> Vec<u8> {
    sha1(&key_bits(&key.spki))
}

/// SubjectPublicKeyInfo of an RSA pool key with / without NULL parameters.
pub fn spki(key: &PoolKey, with_null: bool) -> Vec<u8> {
    let mut bits = vec![0u8];
    bits.extend_from_slice(&key_bits(&key.spki));
    der::seq(&[&alg_id(der::OID_RSA_ENCRYPTION, with_null), &der::tlv(der::T_BITSTRING, &bits)])
}

pub fn extension(oid: &[u64], critical: bool, explicit_false: bool, value: &[u8]) -> Vec<u8> {
    let o = der::oid(oid);
    let v = der::octets(value);
    if critical {
        der::seq(&[&o, &der::boolean(true), &v])
    } else if explicit_false {
        der::seq(&[&o, &der::boolean(false), &v])
    } else {
        der::seq(&[&o, &v])
    }
}

fn general_name_uri(uri: &str) -> Vec<u8> {
    der::tlv(der::ctx_prim(6), uri.as_bytes())
}

fn access_description(method: &[u64], uri: &str) -> Vec<u8> {
    der::seq(&[&der::oid(method), &general_name_uri(uri)])
}

//------------ RFC 3779 ------------------------------------------------------

/// One family of the IP address extension or the AS extension.
#[derive(Clone, Debug)]
pub enum Res {
    Missing,
    Inherit,
    /// inclusive ranges in the number space of the family (32 bits for IPv4
    /// and AS numbers, 128 for IPv6), sorted, disjoint, not adjacent
    Blocks(Vec<(u128, u128)>),
}

impl Res {
    pub fn json(&self) -> Value {
        match self {
            Res::Missing => json!("missing"),
            Res::Inherit => json!("inherit"),
            Res::Blocks(b) => json!(b.iter().map(|(lo, hi)| format!("{:x}-{:x}", lo, hi)).collect::<Vec<_>>()),
        }
    }

    pub fn class(&self) -> &'static str {
        match self {
            Res::Missing => "missing",
            Res::Inherit => "inherit",
            Res::Blocks(_) => "blocks",
        }
    }
}

/// BIT STRING holding the first `len` bits of `value` (a `bits`-bit number).
fn addr_bits(value: u128, bits: u32, len: u32) -> Vec<u8> {
    let nbytes = ((len + 7) / 8) as usize;
    let unused = (nbytes as u32 * 8 - len) as u8;
    let all = (value << (128 - bits)).to_be_bytes();
    let mut body = vec![unused];
    body.extend_from_slice(&all[..nbytes]);
    if nbytes > 0 && unused > 0 {
        let last = body.len() - 1;
        body[last] &= 0xFFu8 << unused;
    }
    der::tlv(der::T_BITSTRING, &body)
}

fn is_prefix(lo: u128, hi: u128, bits: u32) -> Option<u32> {
    let diff = lo ^ hi;
    let host = 128 - diff.leading_zeros(); // number of differing low bits
    let mask = if host == 0 { 0 } else if host >= 128 { u128::MAX } else { (1u128 << host) - 1 };
    if host <= bits && lo & mask == 0 && hi & mask == mask {
        Some(bits - host)
    } else {
        None
    }
}

fn ip_address_or_range(lo: u128, hi: u128, bits: u32) -> Vec<u8> {
    if let Some(len) = is_prefix(lo, hi, bits) {
        return addr_bits(lo, bits, len);
    }
    // min: trailing zero bits removed; max: trailing one bits removed
    let min_len = if lo == 0 { 0 } else { bits - lo.trailing_zeros().min(bits) };
    let max_len = bits - (!hi).trailing_zeros().min(bits);
    der::seq(&[&addr_bits(lo, bits, min_len), &addr_bits(hi, bits, max_len)])
}

fn ip_family(afi: u16, res: &Res, bits: u32) -> Option<Vec<u8>> {
    let choice = match res {
        Res::Missing => return None,
        Res::Inherit => der::null(),
        Res::Blocks(b) => der::seq_of(&b.iter().map(|&(lo, hi)| ip_address_or_range(lo, hi, bits)).collect::<Vec<_>>()),
    };
    Some(der::seq(&[&der::octets(&afi.to_be_bytes()), &choice]))
}

fn ip_blocks_value(v4: &Res, v6: &Res) -> Option<Vec<u8>> {
    let fams: Vec<Vec<u8>> = [ip_family(1, v4, 32), ip_family(2, v6, 128)].into_iter().flatten().collect();
    if fams.is_empty() {
        None
    } else {
        Some(der::seq_of(&fams))
    }
}

fn as_ids_value(asn: &Res) -> Option<Vec<u8>> {
    let choice = match asn {
        Res::Missing => return None,
        Res::Inherit => der::null(),
        Res::Blocks(b) => der::seq_of(
            &b.iter()
                .map(|&(lo, hi)| if lo == hi { der::uint(lo) } else { der::seq(&[&der::uint(lo), &der::uint(hi)]) })
                .collect::<Vec<_>>(),
        ),
    };
    Some(der::seq(&[&der::tlv(der::ctx(0), &choice)]))
}

//------------ Certificates --------------------------------------------------

#[derive(Clone, Copy, Debug, PartialEq, Eq)]
pub enum Role {
    Ta,
    Ca,
    Ee,
}

#[derive(Clone, Debug)]
pub struct CertSpec {
    pub role: Role,
    /// big-endian magnitude
    pub serial: Vec<u8>,
    pub issuer: Vec<u8>,
    pub subject: Vec<u8>,
    pub not_before: Time,
    pub not_after: Time,
    /// Basic Constraints for a CA is `cA TRUE`; for an EE the extension is
    /// absent — unless this asks for the (decodable, not valid) empty form.
    pub ee_empty_basic_constraints: bool,
    pub aki_on_ta: bool,
    pub trim_policy: bool,
    pub router_eku: bool,
    pub crl_uri: String,
    pub ca_issuer: String,
    pub ca_repository: String,
    pub rpki_manifest: String,
    pub signed_object: String,
    pub rpki_notify: Option<String>,
    pub v4: Res,
    pub v6: Res,
    pub asn: Res,
}

impl CertSpec {
    pub fn json(&self) -> Value {
        json!({
            "role": format!("{:?}", self.role), "serial": crate::core::hex(&self.serial),
            "issuer_der": crate::core::hex(&self.issuer), "subject_der": crate::core::hex(&self.subject),
            "not_before": self.not_before.format("%Y-%m-%dT%H:%M:%SZ").to_string(),
            "not_after": self.not_after.format("%Y-%m-%dT%H:%M:%SZ").to_string(),
            "ee_empty_basic_constraints": self.ee_empty_basic_constraints, "aki_on_ta": self.aki_on_ta,
            "policy": if self.trim_policy { "ipAddr-asNumber-v2" } else { "ipAddr-asNumber" }, "router_eku": self.router_eku,
            "crl_uri": self.crl_uri, "ca_issuer": self.ca_issuer, "ca_repository": self.ca_repository, "rpki_manifest": self.rpki_manifest,
            "signed_object": self.signed_object, "rpki_notify": self.rpki_notify,
            "v4": self.v4.json(), "v6": self.v6.json(), "as": self.asn.json(),
        })
    }
}

fn sia_value(spec: &CertSpec, sp: &Spell) -> Vec<u8> {
    let mut ads: Vec<Vec<u8>> = Vec::new();
    match spec.role {
        Role::Ta | Role::Ca => {
            if sp.sia_varied {
                ads.push(access_description(OID_AD_CA_REPOSITORY, "https://mirror.example.net/repo/"));
            }
            ads.push(access_description(OID_AD_CA_REPOSITORY, &spec.ca_repository));
            ads.push(access_description(OID_AD_RPKI_MANIFEST, &spec.rpki_manifest));
            if let Some(n) = &spec.rpki_notify {
                ads.push(access_description(OID_AD_RPKI_NOTIFY, n));
            }
        }
        Role::Ee => {
            if sp.sia_varied {
                ads.push(access_description(OID_AD_SIGNED_OBJECT, "https://mirror.example.net/repo/object"));
            }
            ads.push(access_description(OID_AD_SIGNED_OBJECT, &spec.signed_object));
        }
    }
    if sp.sia_varied {
        ads.reverse();
    }
    der::seq_of(&ads)
}

/// The TBSCertificate. `subject_key` is the key certified, `issuer_key` the
/// key that will sign (only its identifier is needed here).
pub fn cert_tbs(spec: &CertSpec, sp: &Spell, subject_key: &PoolKey, issuer_key: &PoolKey) -> Vec<u8> {
    let ef = sp.explicit_false;
    let mut exts: Vec<Vec<u8>> = Vec::new();
    match spec.role {
        Role::Ta | Role::Ca => exts.push(extension(OID_BASIC_CONSTRAINTS, true, ef, &der::seq(&[&der::boolean(true)]))),
        Role::Ee => {
            if spec.ee_empty_basic_constraints {
                exts.push(extension(OID_BASIC_CONSTRAINTS, true, ef, &der::seq(&[])));
            }
        }
    }
    exts.push(extension(OID_SKI, false, ef, &der::octets(&ski_of(subject_key))));
    if spec.role != Role::Ta || spec.aki_on_ta {
        exts.push(extension(OID_AKI, false, ef, &der::seq(&[&der::tlv(der::ctx_prim(0), &ski_of(issuer_key))])));
    }
    let ku = if spec.role == Role::Ee { der::bitstring(7, &[0x80]) } else { der::bitstring(1, &[0x06]) };
    exts.push(extension(OID_KEY_USAGE, true, ef, &ku));
    if spec.router_eku {
        exts.push(extension(OID_EKU, false, ef, &der::seq(&[&der::oid(OID_KP_BGPSEC_ROUTER)])));
    }
    if spec.role != Role::Ta {
        let dp = der::seq(&[&der::seq(&[&der::tlv(der::ctx(0), &der::tlv(der::ctx(0), &general_name_uri(&spec.crl_uri)))])]);
        exts.push(extension(OID_CRLDP, false, ef, &dp));
        exts.push(extension(OID_AIA, false, ef, &der::seq(&[&access_description(OID_AD_CA_ISSUERS, &spec.ca_issuer)])));
    }
    exts.push(extension(OID_SIA, false, ef, &sia_value(spec, sp)));
    let policy = if spec.trim_policy { OID_CP_RESOURCES_V2 } else { OID_CP_RESOURCES };
    let pinfo = if sp.policy_qualifier {
        der::seq(&[&der::oid(policy), &der::seq(&[&der::seq(&[&der::oid(OID_CPS), &der::ia5(b"https://rpki.example.net/cps.html")])])])
    } else {
        der::seq(&[&der::oid(policy)])
    };
    exts.push(extension(OID_CERT_POLICIES, true, ef, &der::seq(&[&pinfo])));
    if let Some(v) = ip_blocks_value(&spec.v4, &spec.v6) {
        exts.push(extension(if spec.trim_policy { OID_IP_BLOCKS_V2 } else { OID_IP_BLOCKS }, true, ef, &v));
    }
    if let Some(v) = as_ids_value(&spec.asn) {
        exts.push(extension(if spec.trim_policy { OID_AS_IDS_V2 } else { OID_AS_IDS }, true, ef, &v));
    }
    if sp.unknown_ext {
        exts.push(extension(OID_UNKNOWN_EXT, false, ef, &der::seq(&[&der::uint(7), &der::ia5(b"nothing to see")])));
    }
    if sp.ext_reversed {
        exts.reverse();
    }
    der::seq(&[
        &der::tlv(der::ctx(0), &der::uint(2)),
        &der::uint_be(&spec.serial),
        &alg_id(der::OID_SHA256_WITH_RSA, sp.alg_null),
        &spec.issuer,
        &der::seq(&[&time_tlv(spec.not_before, sp.gen_time), &time_tlv(spec.not_after, sp.gen_time)]),
        &spec.subject,
        &spki(subject_key, sp.spki_null),
        &der::tlv(der::ctx(3), &der::seq_of(&exts)),
    ])
}

/// `SEQUENCE { tbs, signatureAlgorithm, BIT STRING signature }`, the
/// signature made over the TBS bytes as written.
pub fn x509_signed(tbs: &[u8], sp: &Spell, key: &PoolKey) -> Vec<u8> {
    let sig = key.sign_raw(tbs);
    der::seq(&[tbs, &alg_id(der::OID_SHA256_WITH_RSA, sp.alg_null), &der::bitstring(0, &sig)])
}

pub fn cert(spec: &CertSpec, sp: &Spell, subject_key: &PoolKey, issuer_key: &PoolKey) -> Vec<u8> {
    x509_signed(&cert_tbs(spec, sp, subject_key, issuer_key), sp, issuer_key)
}

//------------ CRL -----------------------------------------------------------

#[derive(Clone, Debug)]
pub struct CrlSpec {
    pub issuer: Vec<u8>,
    pub this_update: Time,
    pub next_update: Time,
    /// (serial magnitude, revocation date)
    pub entries: Vec<(Vec<u8>, Time)>,
    pub number: Vec<u8>,
}

pub fn crl(spec: &CrlSpec, sp: &Spell, issuer_key: &PoolKey) -> Vec<u8> {
    let ef = sp.explicit_false;
    let aki = extension(OID_AKI, false, ef, &der::seq(&[&der::tlv(der::ctx_prim(0), &ski_of(issuer_key))]));
    let num = extension(OID_CRL_NUMBER, false, ef, &der::uint_be(&spec.number));
    let exts = if sp.crl_ext_swapped { der::seq_of(&[num, aki]) } else { der::seq_of(&[aki, num]) };
    let mut parts: Vec<Vec<u8>> = vec![
        der::uint(1),
        alg_id(der::OID_SHA256_WITH_RSA, sp.alg_null),
        spec.issuer.clone(),
        time_tlv(spec.this_update, sp.gen_time),
        time_tlv(spec.next_update, sp.gen_time),
    ];
    if !spec.entries.is_empty() || sp.crl_empty_list_explicit {
        parts.push(der::seq_of(&spec.entries.iter().map(|(s, t)| der::seq(&[&der::uint_be(s), &time_tlv(*t, sp.gen_time)])).collect::<Vec<_>>()));
    }
    parts.push(der::tlv(der::ctx(0), &exts));
    let tbs = der::seq_of(&parts);
    x509_signed(&tbs, sp, issuer_key)
}

//------------ Signed objects (RFC 6488) ---------------------------------------

/// `how`: 0 = DER throughout; 1 = the outer ContentInfo SEQUENCE and its
/// `[0]` in BER indefinite-length form (relaxed decoding only). Everything
/// the library retains verbatim (certificate, eContent, signed attributes)
/// is DER in both.
pub fn signed_object(content_type: &[u64], econtent: &[u8], ee_cert: &[u8], ee_key: &PoolKey, signing_time: Time, sp: &Spell, how: u8) -> Vec<u8> {
    let attr = |oid: &[u64], value: &[u8]| der::seq(&[&der::oid(oid), &der::set_of_sorted(&[value.to_vec()])]);
    let attrs = vec![
        attr(der::OID_CONTENT_TYPE, &der::oid(content_type)),
        attr(der::OID_MESSAGE_DIGEST, &der::octets(&sha256(econtent))),
        attr(der::OID_SIGNING_TIME, &time_tlv(signing_time, sp.gen_time)),
    ];
    let set = der::set_of_sorted(&attrs); // what is signed: SET OF, DER order
    let signature = ee_key.sign_raw(&set);
    let signed_attrs = {
        let n = der::parse(&set).expect("own set");
        der::tlv(der::ctx(0), n.content(&set))
    };
    let digest_alg = alg_id(der::OID_SHA256, sp.digest_null);
    let sig_alg = alg_id(if sp.cms_sig_sha256_with_rsa { der::OID_SHA256_WITH_RSA } else { der::OID_RSA_ENCRYPTION }, sp.cms_sig_null);
    let signer_info = der::seq(&[
        &der::uint(3),
        &der::tlv(der::ctx_prim(0), &ski_of(ee_key)),
        &digest_alg,
        &signed_attrs,
        &sig_alg,
        &der::octets(&signature),
    ]);
    let signed_data = der::seq(&[
        &der::uint(3),
        &der::set_of_sorted(&[digest_alg.clone()]),
        &der::seq(&[&der::oid(content_type), &der::tlv(der::ctx(0), &der::octets(econtent))]),
        &der::tlv(der::ctx(0), ee_cert),
        &der::set_of_sorted(&[signer_info]),
    ]);
    if how == 1 {
        let inner = der::tlv_indefinite(der::ctx(0), &signed_data);
        der::tlv_indefinite(der::T_SEQUENCE, &der::concat(&[&der::oid(der::OID_SIGNED_DATA), &inner]))
    } else {
        der::seq(&[&der::oid(der::OID_SIGNED_DATA), &der::tlv(der::ctx(0), &signed_data)])
    }
}

fn econtent_version(sp: &Spell) -> Vec<u8> {
    if sp.econtent_version {
        der::tlv(der::ctx(0), &der::uint(0))
    } else {
        Vec::new()
    }
}

/// RFC 9286 manifest eContent. Times are GeneralizedTime.
pub fn manifest_econtent(number: &[u8], this_update: Time, next_update: Time, files: &[(Vec<u8>, Vec<u8>)], sp: &Spell) -> Vec<u8> {
    let list: Vec<Vec<u8>> = files.iter().map(|(f, h)| der::seq(&[&der::ia5(f), &der::bitstring(0, h)])).collect();
    der::seq(&[
        &econtent_version(sp),
        &der::uint_be(number),
        &gentime_tlv(this_update),
        &gentime_tlv(next_update),
        &der::oid(der::OID_SHA256),
        &der::seq_of(&list),
    ])
}

/// RFC 9582 ROA eContent. Prefixes: (address as a `bits`-bit number, length, max length).
pub fn roa_econtent(as_id: u32, v4: &[(u128, u8, Option<u8>)], v6: &[(u128, u8, Option<u8>)], sp: &Spell) -> Vec<u8> {
    let fam = |afi: u16, bits: u32, list: &[(u128, u8, Option<u8>)]| -> Option<Vec<u8>> {
        if list.is_empty() {
            return None;
        }
        let addrs: Vec<Vec<u8>> = list
            .iter()
            .map(|&(a, l, m)| match m {
                Some(m) => der::seq(&[&addr_bits(a, bits, l as u32), &der::uint(m as u128)]),
                None => der::seq(&[&addr_bits(a, bits, l as u32)]),
            })
            .collect();
        Some(der::seq(&[&der::octets(&afi.to_be_bytes()), &der::seq_of(&addrs)]))
    };
    let fams: Vec<Vec<u8>> = [fam(1, 32, v4), fam(2, 128, v6)].into_iter().flatten().collect();
    der::seq(&[&econtent_version(sp), &der::uint(as_id as u128), &der::seq_of(&fams)])
}

/// ASPA eContent (draft profile, version 1): `[0] 1`, customer, providers ascending.
pub fn aspa_econtent(customer: u32, providers_sorted: &[u32]) -> Vec<u8> {
    der::seq(&[
        &der::tlv(der::ctx(0), &der::uint(1)),
        &der::uint(customer as u128),
        &der::seq_of(&providers_sorted.iter().map(|p| der::uint(*p as u128)).collect::<Vec<_>>()),
    ])
}

//------------ PKCS#10 ---------------------------------------------------------

/// An RPKI CA certification request (RFC 6487 section 6).
pub fn csr(subject: &[u8], key: &PoolKey, ca_repository: &str, rpki_manifest: &str, rpki_notify: Option<&str>, sp: &Spell) -> Vec<u8> {
    let ef = sp.explicit_false;
    let mut ads = vec![access_description(OID_AD_CA_REPOSITORY, ca_repository), access_description(OID_AD_RPKI_MANIFEST, rpki_manifest)];
    if let Some(n) = rpki_notify {
        ads.push(access_description(OID_AD_RPKI_NOTIFY, n));
    }
    if sp.sia_varied {
        ads.reverse();
    }
    let mut exts = vec![
        extension(OID_BASIC_CONSTRAINTS, true, ef, &der::seq(&[&der::boolean(true)])),
        extension(OID_KEY_USAGE, true, ef, &der::bitstring(1, &[0x06])),
        extension(OID_SIA, false, ef, &der::seq_of(&ads)),
    ];
    if sp.ext_reversed {
        exts.reverse();
    }
    let attrs = der::tlv(der::ctx(0), &der::seq(&[&der::oid(OID_EXTENSION_REQUEST), &der::set_of_sorted(&[der::seq_of(&exts)])]));
    let info = der::seq(&[&der::uint(0), subject, &spki(key, sp.spki_null), &attrs]);
    x509_signed(&info, sp, key)
}
