//! C06 helper: histories with LARGE data sets, large diffs and single large
//! PDUs (included from `c06.rs` with `#[path]`).
//!
//! The random histories of `c06.rs` move a few dozen items per response, so
//! every path of the server or the client that depends on the *size* of a
//! response (an output buffer that is flushed every so many octets, a counter
//! of items, a PDU that is longer than some staging area, a write that is
//! longer than the transport takes at once) is never entered. The histories
//! generated here are judged by the very same oracle (`Driver::check_step`:
//! replay of the target's log on the previous data against the snapshot named
//! in End of Data); only the data sets differ:
//!
//! * a matrix of size class x protocol version x shape, walked by history
//!   index: full data sets aimed at about 12 KiB, 40 KiB, 160 KiB, 600 KiB,
//!   1.8 MiB (thorough: also 4.6 MiB) of payload PDUs *under the version the
//!   history negotiates* (what the version does not carry is present at the
//!   source as well, but does not count), so that responses pass 4, 8, 16, 64,
//!   256 KiB and 1 MiB - and 65 536 items - by a margin;
//! * updates that churn / grow / shrink the set by 20-100 %, so that serial
//!   responses are as large as the reset responses;
//! * shapes: only small PDUs (origins, 91-octet router keys, ASPAs with up to
//!   eight providers), small PDUs with a few very large ones in between, and
//!   only large PDUs (ASPAs with 300..16380 providers, router keys with
//!   1 000..1 100 000 octets of key info, around powers of two);
//! * ASPA records that change between a short and a very long provider list
//!   (with the withdraw-then-announce and the concatenated diff styles the
//!   order of a small and a large PDU for the same customer matters);
//! * pipes from a few octets up to 3 MiB per direction, i.e. smaller and
//!   larger than a PDU, a flush unit or the whole response.

use super::{pick_conn_kind, Cfg, ConnKind, Op};
use crate::c06_src::{Data, DiffStyle, Item, KeyK, OriginK, Window};
use crate::core::Rng;

pub const KIB: u64 = 1024;

/// Sizes a developer might pick for a buffer or a flush interval: the
/// evidence says how many responses went beyond each.
pub const REGIONS: [(u64, &str); 6] = [
    (4 * KIB, "4KiB"),
    (8 * KIB, "8KiB"),
    (16 * KIB, "16KiB"),
    (64 * KIB, "64KiB"),
    (256 * KIB, "256KiB"),
    (1024 * KIB, "1MiB"),
];

/// Octets of payload PDUs a full data set of each size class is aimed at.
const CLASS_TARGET: [u64; 6] = [12 * KIB, 40 * KIB, 160 * KIB, 600 * KIB, 1800 * KIB, 4600 * KIB];

pub fn octet_class(n: u64) -> &'static str {
    match n {
        0 => "0",
        n if n <= 4 * KIB => "<=4KiB",
        n if n <= 8 * KIB => "4-8KiB",
        n if n <= 16 * KIB => "8-16KiB",
        n if n <= 64 * KIB => "16-64KiB",
        n if n <= 256 * KIB => "64-256KiB",
        n if n <= 1024 * KIB => "256KiB-1MiB",
        _ => ">1MiB",
    }
}

pub fn count_class(n: u64) -> &'static str {
    match n {
        0 => "0",
        1..=255 => "1-255",
        256..=1023 => "256-1023",
        1024..=4095 => "1024-4095",
        4096..=16383 => "4096-16383",
        16384..=65535 => "16384-65535",
        _ => "65536+",
    }
}

pub fn pdu_class(n: u64) -> &'static str {
    match n {
        0..=255 => "<256",
        256..=4095 => "256-4095",
        4096..=16383 => "4-16KiB",
        16384..=65535 => "16-64KiB",
        65536..=262143 => "64-256KiB",
        _ => ">=256KiB",
    }
}

pub fn pipe_class(n: usize) -> &'static str {
    match n {
        0..=63 => "<64",
        64..=4095 => "64-4095",
        4096..=65535 => "4-64KiB",
        _ => ">=64KiB",
    }
}

#[derive(Clone, Copy, Debug, PartialEq, Eq)]
pub enum Shape {
    /// origins of both families, short router keys, ASPAs with few providers
    SmallPdus,
    /// IPv4 origins only on the wire (20 octets each: the most items per octet)
    SmallPdusV4Only,
    /// small PDUs with a few very large ones in between
    Mixed,
    /// (almost) only very large PDUs
    BigPdus,
}

#[derive(Clone, Debug)]
pub struct BigPlan {
    /// index of the history in the run's matrix
    pub index: u64,
    /// the protocol version every connection of the history negotiates
    pub version: u8,
    pub class: usize,
    /// octets of payload PDUs (under `version`) a full data set is aimed at
    pub target_octets: u64,
    pub shape: Shape,
}

#[derive(Clone, Debug)]
pub enum BigKind {
    /// a new data set of about `target_octets`
    Fill,
    /// `permille` of the items leave, as many octets of new ones arrive; the
    /// same share of the remaining ASPA records changes its providers
    Churn { permille: u16 },
    /// new items worth `permille` of the target (announcements only)
    Grow { permille: u16 },
    /// `permille` of the items leave (withdrawals only)
    Shrink { permille: u16 },
    /// a few single changes on the large set
    Touch { changes: u8 },
    /// `n` ASPA records get a provider list of about `providers` entries:
    /// records that exist (with a short list) where possible, new ones otherwise
    BigAspas { n: u8, providers: u16 },
    /// `n` new router keys with about `info` octets of key info
    BigKeys { n: u8, info: u32 },
    /// two updates: `n` ASPA records leave (or shrink to a short list), then
    /// come back with a list of about `providers` entries
    AspaFlap { n: u8, providers: u16 },
    /// everything leaves
    Clear,
}

/// Octets of the payload PDU for an item under a protocol version (RFC 8210
/// and 8210bis layouts: 20 / 32 octets for a prefix, 32 + key info for a
/// router key, 12 + 4 per provider for an ASPA); 0 when the version does not
/// carry the type. Used to size the generated sets and to say *where* in a
/// response a lost item was - never for a verdict.
pub fn wire_octets(item: &Item, ver: u8) -> u64 {
    match item {
        Item::Origin(k) => {
            if k.0 {
                32
            } else {
                20
            }
        }
        Item::Key(k) => {
            if ver >= 1 {
                32 + k.2.len() as u64
            } else {
                0
            }
        }
        Item::Aspa(_, p) => {
            if ver >= 2 {
                12 + 4 * p.len() as u64
            } else {
                0
            }
        }
    }
}

pub fn data_octets(d: &Data, ver: u8) -> u64 {
    let mut n = 0u64;
    for k in &d.origins {
        n += if k.0 { 32 } else { 20 };
    }
    if ver >= 1 {
        for k in &d.keys {
            n += 32 + k.2.len() as u64;
        }
    }
    if ver >= 2 {
        for p in d.aspas.values() {
            n += 12 + 4 * p.len() as u64;
        }
    }
    n
}

//------------ item generators -----------------------------------------------

fn gen_asn(rng: &mut Rng) -> u32 {
    match rng.below(24) {
        0 => 0,
        1 => u32::MAX,
        2 => 65_535,
        3 => 65_536,
        _ => rng.next_u32(),
    }
}

fn gen_origin(rng: &mut Rng, v4_only: bool) -> OriginK {
    let asn = gen_asn(rng);
    if v4_only || rng.below(4) != 0 {
        let len = if rng.below(8) == 0 { rng.range(1, 32) } else { rng.range(8, 24) } as u8;
        let addr = rng.next_u32() & (u32::MAX << (32 - len as u32));
        let maxlen = match rng.below(3) {
            0 => len,
            1 => 32,
            _ => rng.range(len as u64, 32) as u8,
        };
        (false, addr as u128, len, maxlen, asn)
    } else {
        let len = if rng.below(8) == 0 { rng.range(1, 128) } else { rng.range(16, 64) } as u8;
        let addr = rng.next_u128() & (u128::MAX << (128 - len as u32));
        let maxlen = match rng.below(3) {
            0 => len,
            1 => 128,
            _ => rng.range(len as u64, 128) as u8,
        };
        (true, addr, len, maxlen, asn)
    }
}

fn gen_key(rng: &mut Rng, info: usize) -> KeyK {
    let mut ski = [0u8; 20];
    ski.copy_from_slice(&rng.bytes(20));
    (ski, gen_asn(rng), rng.bytes(info))
}

fn gen_providers(rng: &mut Rng, n: usize) -> Vec<u32> {
    (0..n).map(|_| rng.next_u32()).collect()
}

/// Provider counts of a very long list: around powers of two and the maximum.
fn big_provider_count(rng: &mut Rng) -> usize {
    const EDGES: [usize; 16] = [300, 1000, 1021, 1023, 1024, 2045, 2048, 4093, 4095, 4096, 4097, 8189, 8192, 16379, 16380, 12000];
    if rng.bool() {
        *rng.pick(&EDGES)
    } else {
        rng.range(300, 16380) as usize
    }
}

/// Key info lengths of a very long router key: around PDU sizes (32 + info)
/// of 4, 16, 64, 128, 256 KiB; in the largest classes 1 MiB and more.
fn big_key_info(rng: &mut Rng, class: usize) -> usize {
    const EDGES: [usize; 14] = [1000, 4063, 4064, 4096, 8160, 16352, 16384, 20_000, 65_503, 65_504, 65_536, 70_000, 131_072, 300_000];
    if class >= 4 && rng.below(6) == 0 {
        return *rng.pick(&[1_048_544usize, 1_048_576, 1_100_000]);
    }
    // keep a single key below the size of the whole set in the small classes
    let cap = match class {
        0 => 20_000,
        1 => 70_000,
        _ => usize::MAX,
    };
    for _ in 0..8 {
        let n = if rng.below(3) != 0 { *rng.pick(&EDGES) } else { rng.range(1000, 80_000) as usize };
        if n <= cap {
            return n;
        }
    }
    4096
}

pub struct BigGen {
    pub version: u8,
    pub shape: Shape,
    pub class: usize,
}

impl BigGen {
    pub fn of(plan: &BigPlan) -> Self {
        BigGen { version: plan.version, shape: plan.shape, class: plan.class }
    }

    fn small_item(&self, rng: &mut Rng) -> Item {
        let v4_only = self.shape == Shape::SmallPdusV4Only;
        // weights by octets: what the version carries makes up the response
        let pick = rng.below(100);
        let kind = match self.version {
            0 => 0,
            1 => {
                if pick < 96 {
                    0
                } else {
                    1
                }
            }
            _ => {
                if pick < 88 {
                    0
                } else if pick < 91 {
                    1
                } else {
                    2
                }
            }
        };
        match kind {
            0 => Item::Origin(gen_origin(rng, v4_only)),
            1 => {
                let info = if rng.below(10) == 0 { rng.range(0, 300) as usize } else { 91 };
                Item::Key(gen_key(rng, info))
            }
            _ => {
                let n = if rng.below(12) == 0 { rng.range(9, 60) } else { rng.range(0, 8) } as usize;
                Item::Aspa(rng.next_u32(), gen_providers(rng, n))
            }
        }
    }

    fn big_item(&self, rng: &mut Rng) -> Item {
        let aspa = match self.version {
            0 => rng.bool(),
            1 => false,
            _ => rng.below(3) != 0,
        };
        if aspa {
            let n = big_provider_count(rng);
            Item::Aspa(rng.next_u32(), gen_providers(rng, n))
        } else {
            let n = big_key_info(rng, self.class);
            Item::Key(gen_key(rng, n))
        }
    }

    /// An item the negotiated version does not carry (the server has to leave
    /// it out of large responses as well).
    fn filtered_item(&self, rng: &mut Rng) -> Option<Item> {
        let n = rng.range(1, 6) as usize;
        match self.version {
            0 => Some(if rng.bool() { Item::Key(gen_key(rng, 91)) } else { Item::Aspa(rng.next_u32(), gen_providers(rng, n)) }),
            1 => Some(Item::Aspa(rng.next_u32(), gen_providers(rng, n))),
            _ => None,
        }
    }

    fn item(&self, rng: &mut Rng) -> Item {
        match self.shape {
            Shape::SmallPdus | Shape::SmallPdusV4Only | Shape::Mixed => self.small_item(rng),
            Shape::BigPdus => {
                if rng.below(4) == 0 {
                    Item::Origin(gen_origin(rng, false))
                } else {
                    self.big_item(rng)
                }
            }
        }
    }

    /// Adds new items until about `octets` of payload PDUs (under the
    /// version) have been added. Returns the octets added.
    pub fn add(&self, d: &mut Data, octets: u64, rng: &mut Rng) -> u64 {
        let mut added = 0u64;
        if self.shape == Shape::Mixed {
            // a few very large PDUs among the small ones, as far as they fit
            // into six tenths of what is to be added
            for _ in 0..rng.range(2, 5) {
                let item = self.big_item(rng);
                let w = wire_octets(&item, self.version);
                if added + w <= octets * 6 / 10 && d.apply(true, &item) {
                    added += w;
                }
            }
        }
        let mut n = 0u64;
        while added < octets {
            let item = self.item(rng);
            let w = wire_octets(&item, self.version);
            if d.apply(true, &item) {
                added += w;
            }
            n += 1;
            if n % 50 == 0 {
                // what the version does not carry is at the source all the
                // same: the server has to leave it out of large responses too
                if let Some(f) = self.filtered_item(rng) {
                    d.apply(true, &f);
                }
            }
        }
        added
    }

    pub fn fill(&self, octets: u64, rng: &mut Rng) -> Data {
        let mut d = Data::default();
        self.add(&mut d, octets, rng);
        if self.version < 2 {
            for _ in 0..3 {
                if let Some(f) = self.filtered_item(rng) {
                    d.apply(true, &f);
                }
            }
        }
        d
    }
}

/// Removes about `permille` of the items; returns the octets removed.
fn remove_share(d: &mut Data, permille: u16, ver: u8, rng: &mut Rng) -> u64 {
    let p = permille as u64;
    let mut removed = 0u64;
    let origins: Vec<OriginK> = d.origins.iter().filter(|_| rng.below(1000) < p).copied().collect();
    for k in origins {
        d.origins.remove(&k);
        removed += if k.0 { 32 } else { 20 };
    }
    let keys: Vec<KeyK> = d.keys.iter().filter(|_| rng.below(1000) < p).cloned().collect();
    for k in keys {
        d.keys.remove(&k);
        if ver >= 1 {
            removed += 32 + k.2.len() as u64;
        }
    }
    let aspas: Vec<u32> = d.aspas.keys().filter(|_| rng.below(1000) < p).copied().collect();
    for c in aspas {
        if let Some(pv) = d.aspas.remove(&c) {
            if ver >= 2 {
                removed += 12 + 4 * pv.len() as u64;
            }
        }
    }
    removed
}

/// A provider list of the same size class as `old` that differs from it.
fn changed_providers(old: &[u32], rng: &mut Rng) -> Vec<u32> {
    let mut p: Vec<u32> = old.to_vec();
    match rng.below(4) {
        0 if !p.is_empty() => {
            let i = rng.usize_below(p.len());
            p[i] = p[i].wrapping_add(1);
        }
        1 if !p.is_empty() => {
            p.pop();
        }
        2 if p.len() < 16380 => p.push(rng.next_u32()),
        _ => {
            let n = p.len().max(1);
            p = gen_providers(rng, n);
        }
    }
    if p == old {
        p.push(1);
        if p.len() > 16380 {
            p.truncate(16379);
        }
    }
    p
}

/// The data set(s) one large update leads to (two for a flap).
pub fn big_next(cur: &Data, kind: &BigKind, plan: &BigPlan, rng: &mut Rng) -> Vec<Data> {
    let gen = BigGen::of(plan);
    let ver = plan.version;
    let mut d = cur.clone();
    match kind {
        BigKind::Fill => vec![gen.fill(plan.target_octets, rng)],
        BigKind::Clear => vec![Data::default()],
        BigKind::Churn { permille } => {
            let removed = remove_share(&mut d, *permille, ver, rng);
            let changing: Vec<u32> = d.aspas.keys().filter(|_| rng.below(1000) < *permille as u64).copied().collect();
            for c in changing {
                let p = changed_providers(&d.aspas[&c], rng);
                d.aspas.insert(c, p);
            }
            gen.add(&mut d, removed.max(20), rng);
            vec![d]
        }
        BigKind::Grow { permille } => {
            gen.add(&mut d, plan.target_octets * *permille as u64 / 1000, rng);
            vec![d]
        }
        BigKind::Shrink { permille } => {
            remove_share(&mut d, *permille, ver, rng);
            vec![d]
        }
        BigKind::Touch { changes } => {
            for _ in 0..*changes {
                match rng.below(4) {
                    0 => {
                        if let Some(k) = d.origins.iter().nth(rng.usize_below(d.origins.len().max(1))).copied() {
                            d.origins.remove(&k);
                        }
                    }
                    1 => {
                        if let Some(c) = d.aspas.keys().nth(rng.usize_below(d.aspas.len().max(1))).copied() {
                            let p = changed_providers(&d.aspas[&c], rng);
                            d.aspas.insert(c, p);
                        }
                    }
                    _ => {
                        let item = gen.small_item(rng);
                        d.apply(true, &item);
                    }
                }
            }
            vec![d]
        }
        BigKind::BigAspas { n, providers } => {
            for _ in 0..*n {
                // an existing record with a short list where there is one
                let short: Vec<u32> = d.aspas.iter().filter(|(_, p)| p.len() < 64).map(|(c, _)| *c).take(40).collect();
                let c = if !short.is_empty() && rng.below(4) != 0 { *rng.pick(&short) } else { rng.next_u32() };
                let count = jitter(*providers as usize, rng).clamp(1, 16380);
                d.aspas.insert(c, gen_providers(rng, count));
            }
            vec![d]
        }
        BigKind::BigKeys { n, info } => {
            for _ in 0..*n {
                let len = jitter(*info as usize, rng);
                d.keys.insert(gen_key(rng, len));
            }
            vec![d]
        }
        BigKind::AspaFlap { n, providers } => {
            let mut cs: Vec<u32> = d.aspas.keys().copied().take(200).collect();
            rng.shuffle(&mut cs);
            cs.truncate(*n as usize);
            while cs.len() < *n as usize {
                cs.push(rng.next_u32());
            }
            let mut first = d.clone();
            for c in &cs {
                if rng.bool() {
                    first.aspas.remove(c);
                } else {
                    let n = rng.range(0, 3) as usize;
                    first.aspas.insert(*c, gen_providers(rng, n));
                }
            }
            let mut second = first.clone();
            for c in &cs {
                let count = jitter(*providers as usize, rng).clamp(1, 16380);
                second.aspas.insert(*c, gen_providers(rng, count));
            }
            if first == *cur {
                // nothing to take away: a single update
                return vec![second];
            }
            vec![first, second]
        }
    }
}

/// The value itself (an edge) or a neighbour.
fn jitter(n: usize, rng: &mut Rng) -> usize {
    match rng.below(4) {
        0 => n.saturating_sub(1),
        1 => n + 1,
        _ => n,
    }
}

//------------ history generator ---------------------------------------------

fn big_pipe(rng: &mut Rng, class: usize) -> usize {
    // tiny pipes only where the response is short enough to crawl through
    const TINY: [usize; 4] = [1, 7, 20, 33];
    const SMALL: [usize; 4] = [64, 257, 1000, 1500];
    const MID: [usize; 5] = [4096, 8192, 16_384, 20_000, 65_535];
    const WIDE: [usize; 5] = [65_536, 70_000, 262_144, 1 << 20, 3 << 20];
    let lowest = if class == 0 { 0 } else { 1 };
    loop {
        let g = rng.below(4) as usize;
        if g < lowest {
            continue;
        }
        if class >= 4 && g == 1 && rng.bool() {
            continue;
        }
        return match g {
            0 => *rng.pick(&TINY),
            1 => *rng.pick(&SMALL),
            2 => *rng.pick(&MID),
            _ => *rng.pick(&WIDE),
        };
    }
}

fn versions_for(version: u8, rng: &mut Rng) -> (u8, u8) {
    // (client's initial version, highest version of the emulated older cache)
    match rng.below(3) {
        0 => (version, 2),
        1 => (2, version),
        _ => (version, version),
    }
}

/// The history with index `index` of the matrix: size class and version are
/// walked by the index, the rest is drawn from `seed`.
pub fn gen_big_cfg(index: u64, seed: u64, classes: u64) -> Cfg {
    let mut rng = Rng::new(seed);
    let class = (index % classes) as usize;
    let version = ((index / classes) % 3) as u8;
    let shape = match ((index / (3 * classes)) % 3, version) {
        (0, _) => Shape::SmallPdus,
        (1, 0) => Shape::SmallPdusV4Only,
        (2, 0) => Shape::SmallPdus,
        (1, _) => Shape::Mixed,
        (_, _) => Shape::BigPdus,
    };
    let target = CLASS_TARGET[class] * rng.range(90, 125) / 100;
    let plan = BigPlan { index, version, class, target_octets: target, shape };
    let window = match rng.below(10) {
        0 => Window::Never,
        1 | 2 => Window::Last(rng.range(1, 3) as usize),
        _ => Window::Unbounded,
    };
    let style = match rng.below(3) {
        0 => DiffStyle::AspaWithdrawFirst,
        1 => DiffStyle::Concatenated,
        _ => DiffStyle::Minimal,
    };
    let rounds = match class {
        0 | 1 => rng.range(4, 7),
        2 => rng.range(3, 5),
        3 => rng.range(2, 4),
        4 => rng.range(2, 3),
        _ => 2,
    };
    let big_pdus = shape == Shape::Mixed || shape == Shape::BigPdus;
    let mut ops: Vec<Op> = vec![Op::Big(BigKind::Fill), Op::Step];
    for round in 0..rounds {
        let w = rng.below(100);
        let kind = if round == 0 && w < 60 {
            // the first update is a large diff in most histories
            BigKind::Churn { permille: rng.range(400, 1000) as u16 }
        } else if w < 30 {
            BigKind::Churn { permille: rng.range(200, 1000) as u16 }
        } else if w < 40 {
            BigKind::Grow { permille: rng.range(200, 1000) as u16 }
        } else if w < 50 {
            BigKind::Shrink { permille: rng.range(300, 1000) as u16 }
        } else if w < 58 {
            BigKind::Touch { changes: rng.range(1, 6) as u8 }
        } else if w < 62 {
            BigKind::Clear
        } else if w < 66 {
            BigKind::Fill
        } else if big_pdus && w < 78 {
            BigKind::BigAspas { n: rng.range(1, 4) as u8, providers: big_provider_count(&mut rng) as u16 }
        } else if big_pdus && w < 88 {
            BigKind::BigKeys { n: rng.range(1, 3) as u8, info: big_key_info(&mut rng, class) as u32 }
        } else if big_pdus {
            BigKind::AspaFlap { n: rng.range(1, 3) as u8, providers: big_provider_count(&mut rng) as u16 }
        } else {
            BigKind::Churn { permille: rng.range(300, 900) as u16 }
        };
        let emptied = matches!(kind, BigKind::Clear);
        ops.push(Op::Big(kind));
        match rng.below(20) {
            0 => ops.push(Op::NewSession { keep_data: true }),
            1 => ops.push(Op::SerialJump),
            2 => ops.push(Op::Notify { settle: rng.below(4) as u8 }),
            3 | 4 | 5 => {
                let (v_c, cap) = versions_for(version, &mut rng);
                ops.push(Op::Reconnect { kind: pick_conn_kind(&mut rng), v_c, cap });
            }
            _ => {}
        }
        if rng.below(7) == 0 {
            ops.push(Op::UpdateDuringResponse { yields: rng.range(0, 40) as u8, notify: false, changes: rng.range(1, 5) as u8 });
        } else {
            ops.push(Op::Step);
        }
        if emptied {
            ops.push(Op::Big(BigKind::Fill));
            ops.push(Op::Step);
        }
    }
    let (v_c, cap) = versions_for(version, &mut rng);
    let first_kind = match rng.below(10) {
        0 | 1 => ConnKind::KeepStateAndData,
        2 | 3 => ConnKind::StaleState,
        4 => ConnKind::ForeignSession,
        _ => ConnKind::NoState,
    };
    let first_serial = match rng.below(6) {
        0 => 0,
        1 => u32::MAX - rng.below(3) as u32,
        _ => rng.next_u32(),
    };
    Cfg {
        seed,
        v_c,
        cap,
        c_buf: big_pipe(&mut rng, class),
        s_buf: big_pipe(&mut rng, class),
        window,
        style,
        aspa_wd_with_providers: rng.bool(),
        first_kind,
        pre_updates: 0,
        first_serial,
        first_session: rng.next_u32() as u16,
        light: false,
        big: Some(plan),
        ops,
    }
}
