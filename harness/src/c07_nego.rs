//! C07 helper: version negotiation histories, at session start and later.
//!
//! `c07_conn` / `c07_sess` put one fault into an otherwise valid transcript.
//! What a cache (or a broken stream) can do with the protocol version has
//! more shapes than one fault: the first reply to the client's first query is
//! an Error Report "unsupported protocol version" (code 4) carrying a lower
//! version, and then the *next* reply is again such a report (the same
//! version, a lower one, a higher one, alternating, for ever), or a whole
//! response / Cache Reset in a version other than the one just negotiated;
//! the same after an exchange has been completed on the connection.
//!
//! Environment model: a scripted peer that answers query by query
//! (`ScriptPeer`): a finite list of reply units followed by end of stream or
//! silence, or a *generator* that answers every further query with the next
//! code-4 Error Report of a cyclic pattern. The generator gives up after
//! `GENERATOR_CAP` answers by turning the next read into an error, so that a
//! client that would go on asking for ever is a bounded, observable event
//! (the same trick as the reads after end-of-stream). The units are laid out
//! by the independent encoder (`c07_io::Pdu`).
//!
//! Oracle (statement: a stream whose header announces a wrong version ends in
//! an error after a bounded number of octets; never spins): a small model of
//! the negotiation *as seen on the wire*. The version is fixed (a) by a
//! completed exchange or (b) by a code-4 Error Report whose version is below the version of the
//! query it answers (the version octet of the client's own query is taken
//! from what the client wrote, parsed by the harness). From then on a Cache
//! Response / Cache Reset / code-4 Error Report with another version octet
//! announces a wrong version: the call has to return `Err` and must not have
//! taken more than that PDU and the next one. Independently of versions, one
//! call may work through at most `MAX_VERSION_ERRORS` code-4 reports (there
//! are only three protocol versions). Everything else is recorded.
//!
//! This file is a child module of `c07` (`#[path]`). `ScriptPeer` and the
//! hand driver are also used by `c07_silent`.

use crate::c07_gen::{b16, b32, random_script};
use crate::c07_io::{hex_capped, parse_header, Chunking, Pdu, EOF_READS_TOLERATED};
use crate::core::{catch, panic_location, Ctx, Rng, Stage, Tier};
use rpki::rtr::client::{Client, PayloadError, PayloadTarget, PayloadUpdate};
use rpki::rtr::payload::{Action, Payload, Timing};
use rpki::rtr::state::{Serial, State};
use serde_json::{json, Value};
use std::collections::{HashSet, VecDeque};
use std::future::Future;
use std::io;
use std::pin::Pin;
use std::sync::atomic::{AtomicU64, Ordering};
use std::sync::{Arc, Mutex};
use std::task::{Context, Poll, Wake, Waker};
use tokio::io::{AsyncRead, AsyncWrite, ReadBuf};

//------------ scripted peer ---------------------------------------------------

/// Answers of the generator before it refuses to go on.
pub(super) const GENERATOR_CAP: u32 = 64;

/// The client may write this much before the peer refuses.
const OUTPUT_LIMIT: usize = 64 * 1024;

#[derive(Clone, Debug)]
pub(super) enum Step {
    /// octets the peer puts on the wire when it gets here
    Send(Vec<u8>),
    /// wait until the client has written one more complete query
    AwaitQuery,
    /// end of stream
    Close,
    /// the connection stays open, nothing more is ever sent
    Silent,
    /// every further query is answered with the next unit (cyclic)
    Generator(Vec<Vec<u8>>),
}

#[derive(Default)]
pub(super) struct PeerStats {
    /// octets handed to the client
    pub consumed: usize,
    /// everything the client wrote
    pub written: Vec<u8>,
    parsed_upto: usize,
    /// (type, version, `consumed` when the PDU was complete) of every complete PDU the client wrote
    pub client_pdus: Vec<(u8, u8, usize)>,
    pub reads_after_eof: u32,
    pub tripped_eof: bool,
    pub generator_answers: u32,
    pub tripped_generator: bool,
    /// reads answered with Pending without a wake-up (nothing to send)
    pub silent_polls: u64,
    pub read_polls: u64,
    pub overflow: bool,
    pub dropped: bool,
}

impl PeerStats {
    /// Queries (Serial Query, Reset Query) the client has written completely.
    pub fn queries(&self) -> usize {
        self.client_pdus.iter().filter(|p| p.0 == 1 || p.0 == 2).count()
    }

    fn parse_written(&mut self) {
        loop {
            let rest = &self.written[self.parsed_upto..];
            let Some(h) = parse_header(rest) else { return };
            if h.length > (1 << 20) {
                return; // not something this model reads as a PDU
            }
            let len = (h.length as usize).max(8);
            if rest.len() < len {
                return;
            }
            self.client_pdus.push((h.pdu, h.version, self.consumed));
            self.parsed_upto += len;
        }
    }
}

/// The far end of the client's socket.
pub(super) struct ScriptPeer {
    steps: VecDeque<Step>,
    ready: Vec<u8>,
    ready_pos: usize,
    answered: usize,
    generator_next: usize,
    chunking: Chunking,
    script_idx: usize,
    pended: bool,
    sh: Arc<Mutex<PeerStats>>,
}

impl ScriptPeer {
    pub fn new(steps: Vec<Step>, chunking: Chunking, sh: Arc<Mutex<PeerStats>>) -> Self {
        ScriptPeer { steps: steps.into(), ready: Vec::new(), ready_pos: 0, answered: 0, generator_next: 0, chunking, script_idx: 0, pended: false, sh }
    }
}

impl Drop for ScriptPeer {
    fn drop(&mut self) {
        self.sh.lock().unwrap_or_else(|e| e.into_inner()).dropped = true;
    }
}

enum Next {
    Data,
    Eof,
    Nothing,
    GeneratorDone,
}

impl ScriptPeer {
    /// Moves through the script until there are octets to hand out or the
    /// script says what else to do.
    fn advance(&mut self, g: &mut PeerStats) -> Next {
        loop {
            if self.ready_pos < self.ready.len() {
                return Next::Data;
            }
            match self.steps.front_mut() {
                None => return Next::Nothing,
                Some(Step::Send(_)) => {
                    if let Some(Step::Send(b)) = self.steps.pop_front() {
                        self.ready = b;
                        self.ready_pos = 0;
                    }
                }
                Some(Step::AwaitQuery) => {
                    if self.answered < g.queries() {
                        self.answered += 1;
                        self.steps.pop_front();
                    } else {
                        return Next::Nothing;
                    }
                }
                Some(Step::Close) => return Next::Eof,
                Some(Step::Silent) => return Next::Nothing,
                Some(Step::Generator(units)) => {
                    if self.answered < g.queries() {
                        if g.generator_answers >= GENERATOR_CAP {
                            return Next::GeneratorDone;
                        }
                        self.answered += 1;
                        g.generator_answers += 1;
                        self.ready = units[self.generator_next % units.len()].clone();
                        self.ready_pos = 0;
                        self.generator_next += 1;
                    } else {
                        return Next::Nothing;
                    }
                }
            }
        }
    }
}

impl AsyncRead for ScriptPeer {
    fn poll_read(self: Pin<&mut Self>, cx: &mut Context<'_>, buf: &mut ReadBuf<'_>) -> Poll<io::Result<()>> {
        let this = self.get_mut();
        let sh = this.sh.clone();
        let mut g = sh.lock().unwrap_or_else(|e| e.into_inner());
        g.read_polls += 1;
        let room = buf.remaining();
        if room == 0 {
            return Poll::Ready(Ok(()));
        }
        match this.advance(&mut g) {
            Next::Nothing => {
                // open and silent: no wake-up will ever come from here
                g.silent_polls += 1;
                Poll::Pending
            }
            Next::GeneratorDone => {
                g.tripped_generator = true;
                Poll::Ready(Err(io::Error::new(io::ErrorKind::Other, "verif: the peer has answered 64 queries with version error reports and the client is still asking")))
            }
            Next::Eof => {
                g.reads_after_eof += 1;
                if g.reads_after_eof > EOF_READS_TOLERATED {
                    g.tripped_eof = true;
                    return Poll::Ready(Err(io::Error::new(io::ErrorKind::Other, "verif: stream was read again after two end-of-stream answers")));
                }
                Poll::Ready(Ok(()))
            }
            Next::Data => {
                let allowance = match &this.chunking {
                    Chunking::AllAtOnce => usize::MAX,
                    Chunking::ByteWise => {
                        if !this.pended {
                            this.pended = true;
                            cx.waker().wake_by_ref();
                            return Poll::Pending;
                        }
                        this.pended = false;
                        1
                    }
                    Chunking::Script(script) => {
                        let step = if script.is_empty() { usize::MAX } else { script[this.script_idx % script.len()] };
                        this.script_idx += 1;
                        if step == 0 {
                            cx.waker().wake_by_ref();
                            return Poll::Pending;
                        }
                        step
                    }
                };
                let n = room.min(allowance).min(this.ready.len() - this.ready_pos);
                buf.put_slice(&this.ready[this.ready_pos..this.ready_pos + n]);
                this.ready_pos += n;
                g.consumed += n;
                Poll::Ready(Ok(()))
            }
        }
    }
}

impl AsyncWrite for ScriptPeer {
    fn poll_write(self: Pin<&mut Self>, _cx: &mut Context<'_>, data: &[u8]) -> Poll<io::Result<usize>> {
        let mut g = self.sh.lock().unwrap_or_else(|e| e.into_inner());
        if g.written.len() + data.len() > OUTPUT_LIMIT {
            g.overflow = true;
            return Poll::Ready(Err(io::Error::new(io::ErrorKind::BrokenPipe, "verif: output limit of the mock socket")));
        }
        g.written.extend_from_slice(data);
        g.parse_written();
        Poll::Ready(Ok(data.len()))
    }

    fn poll_flush(self: Pin<&mut Self>, _cx: &mut Context<'_>) -> Poll<io::Result<()>> {
        Poll::Ready(Ok(()))
    }

    fn poll_shutdown(self: Pin<&mut Self>, _cx: &mut Context<'_>) -> Poll<io::Result<()>> {
        Poll::Ready(Ok(()))
    }
}

//------------ hand driver ------------------------------------------------------

struct WakeCount(AtomicU64);

impl Wake for WakeCount {
    fn wake(self: Arc<Self>) {
        self.0.fetch_add(1, Ordering::SeqCst);
    }
    fn wake_by_ref(self: &Arc<Self>) {
        self.0.fetch_add(1, Ordering::SeqCst);
    }
}

pub(super) enum Driven<T> {
    Done(T, u64),
    /// still pending and asking to be polled after the budget
    Budget(u64),
    /// returned Pending without having woken the waker: nothing this thread
    /// does will ever make it go on (no runtime drives timers here)
    Parked(u64),
}

pub(super) fn drive_counted<F: Future>(mut fut: Pin<&mut F>, budget: u64) -> Driven<F::Output> {
    let wc = Arc::new(WakeCount(AtomicU64::new(0)));
    let waker = Waker::from(wc.clone());
    let mut cx = Context::from_waker(&waker);
    let mut polls = 0u64;
    loop {
        polls += 1;
        let before = wc.0.load(Ordering::SeqCst);
        match fut.as_mut().poll(&mut cx) {
            Poll::Ready(v) => return Driven::Done(v, polls),
            Poll::Pending => {
                if wc.0.load(Ordering::SeqCst) == before {
                    return Driven::Parked(polls);
                }
                if polls >= budget {
                    return Driven::Budget(polls);
                }
            }
        }
    }
}

//------------ target -------------------------------------------------------------

pub(super) struct NUpd {
    items: usize,
}

impl PayloadUpdate for NUpd {
    fn push_update(&mut self, _action: Action, _payload: Payload) -> Result<(), PayloadError> {
        self.items += 1;
        Ok(())
    }
}

#[derive(Default)]
pub(super) struct NTgt {
    pub applied: Vec<usize>,
}

impl PayloadTarget for NTgt {
    type Update = NUpd;
    fn start(&mut self, _reset: bool) -> NUpd {
        NUpd { items: 0 }
    }
    fn apply(&mut self, update: NUpd, _timing: Timing) -> Result<(), PayloadError> {
        self.applied.push(update.items);
        Ok(())
    }
}

//------------ transcripts ---------------------------------------------------------

/// An announcement that is valid in protocol version `v`.
pub(super) fn gen_announce(r: &mut Rng, v: u8) -> Pdu {
    let kinds: &[u8] = match v {
        0 => &[4, 6],
        1 => &[4, 6, 9],
        _ => &[4, 6, 9, 11],
    };
    match *r.pick(kinds) {
        4 => {
            let plen = r.range(0, 32) as u8;
            let mlen = r.range(plen as u64, 32) as u8;
            let addr = if plen == 0 { 0 } else { r.next_u32() & (u32::MAX << (32 - plen as u32)) };
            Pdu::V4 { v, flags: 1, plen, mlen, addr, asn: b32(r), via_item: true, explicit_max: true }
        }
        6 => {
            let plen = r.range(0, 128) as u8;
            let mlen = r.range(plen as u64, 128) as u8;
            let addr = if plen == 0 { 0 } else { r.next_u128() & (u128::MAX << (128 - plen as u32)) };
            Pdu::V6 { v, flags: 1, plen, mlen, addr, asn: b32(r), via_item: true, explicit_max: true }
        }
        9 => {
            let mut ski = [0u8; 20];
            ski.copy_from_slice(&r.bytes(20));
            let len = *r.pick(&[0usize, 4, 91]);
            Pdu::RouterKey { v, flags: 1, ski, asn: b32(r), info: r.bytes(len), via_item: true }
        }
        _ => {
            let n = r.range(1, 3) as usize;
            Pdu::Aspa { v, flags: 1, customer: b32(r), providers: (0..n).map(|_| b32(r)).collect(), via_item: true }
        }
    }
}

/// Cache Response, 0..`max_payload` announcements, End of Data, all in version `v`.
pub(super) fn gen_full_response(r: &mut Rng, v: u8, session: u16, serial: u32, refresh: u32, max_payload: u64) -> Vec<Pdu> {
    let mut pdus = vec![Pdu::CacheResponse { v, session }];
    for _ in 0..r.range(0, max_payload) {
        pdus.push(gen_announce(r, v));
    }
    pdus.push(Pdu::EndOfData { v, session, serial, refresh, retry: r.range(1, 7200) as u32, expire: r.range(600, 172_800) as u32 });
    pdus
}

pub(super) fn encode_all(pdus: &[Pdu]) -> Vec<u8> {
    let mut out = Vec::new();
    for p in pdus {
        out.extend_from_slice(&p.encode());
    }
    out
}

/// "Unsupported protocol version": Error Report, code 4, header version `w`.
fn version_error(r: &mut Rng, w: u8, query: &Pdu) -> Vec<u8> {
    let text_len = *r.pick(&[0usize, 0, 5, 19, 23, 200, 1010, 1100]);
    let mut text = r.bytes(text_len);
    for b in text.iter_mut() {
        *b = b' ' + (*b % 95);
    }
    let embedded = if r.bool() { query.encode() } else { Vec::new() };
    Pdu::Error { v: w, code: 4, pdu: embedded, text }.encode()
}

#[derive(Clone, Copy, Debug, PartialEq, Eq)]
enum UnitKind {
    /// code-4 Error Report with this header version
    VerErr(u8),
    /// complete response, every PDU in this version
    Resp(u8),
    /// Cache Reset in this version
    Reset(u8),
}

#[derive(Clone, Debug)]
struct Unit {
    kind: UnitKind,
    bytes: Vec<u8>,
    /// octets of the first two PDUs of the unit
    first_two: usize,
}

#[derive(Clone, Debug, PartialEq, Eq)]
enum End {
    Close,
    Silent,
    /// the generator answers every further query with a code-4 report whose versions cycle through this list
    Endless(Vec<u8>),
}

#[derive(Clone, Copy, Debug, PartialEq, Eq)]
enum Ctor {
    New,
    With(u8),
}

#[derive(Clone, Copy, Debug, PartialEq, Eq)]
enum EntryMode {
    Step,
    UpdateApply,
    /// `Client::reset()` + `apply` (a public entry point of its own)
    ResetApply,
}

impl EntryMode {
    fn name(self) -> &'static str {
        match self {
            EntryMode::Step => "step",
            EntryMode::UpdateApply => "update+apply",
            EntryMode::ResetApply => "reset+apply",
        }
    }
}

struct Nego {
    ctor: Ctor,
    /// the version the client proposes first
    asked: u8,
    init_state: Option<(u16, u32)>,
    entry: EntryMode,
    /// an exchange completed in this version before the judged call
    prior: Option<u8>,
    /// octets of the earlier exchange (incl. the Serial Notify that ends the idle wait)
    prior_bytes: Vec<u8>,
    units: Vec<Unit>,
    end: End,
    /// generator units (for `End::Endless`)
    endless_units: Vec<Unit>,
    /// everything is on the wire at once / one unit per query
    eager: bool,
    template: &'static str,
}

fn make_unit(r: &mut Rng, kind: UnitKind, session: u16, serial: u32, query: &Pdu) -> Unit {
    match kind {
        UnitKind::VerErr(w) => {
            let bytes = version_error(r, w, query);
            let n = bytes.len();
            Unit { kind, bytes, first_two: n }
        }
        UnitKind::Resp(x) => {
            let refresh = r.range(600, 86_400) as u32;
            let pdus = gen_full_response(r, x, session, serial, refresh, 3);
            let first_two = pdus[0].encode().len() + pdus[1].encode().len();
            Unit { kind, bytes: encode_all(&pdus), first_two }
        }
        UnitKind::Reset(x) => Unit { kind, bytes: Pdu::CacheReset { v: x }.encode(), first_two: 8 },
    }
}

/// A version below `q` if there is one, otherwise `q`.
fn lower_than(r: &mut Rng, q: u8) -> u8 {
    if q == 0 {
        0
    } else {
        r.below(q as u64) as u8
    }
}

fn other_than(r: &mut Rng, w: u8) -> u8 {
    loop {
        let x = *r.pick(&[0u8, 1, 2, 0, 1, 2, 3]);
        if x != w {
            return x;
        }
    }
}

fn error_pattern(r: &mut Rng, w: u8) -> Vec<u8> {
    match r.below(7) {
        0 | 1 => vec![w],
        2 => vec![w, lower_than(r, w)],
        3 => vec![1, 0],
        4 => vec![0, 1],
        5 => vec![0, 1, 2, 3],
        _ => (0..r.range(2, 5)).map(|_| *r.pick(&[0u8, 1, 2, 3, 255])).collect(),
    }
}

fn gen_nego(r: &mut Rng, idx: u64) -> Nego {
    let session = b16(r);
    let s0 = b32(r);
    let ctor = match r.below(6) {
        0 | 1 | 2 => Ctor::New,
        3 => Ctor::With(2),
        4 => Ctor::With(1),
        _ => Ctor::With(*r.pick(&[0u8, 1, 3, 255])),
    };
    let asked = match ctor {
        Ctor::New => 2,
        Ctor::With(v) => v.min(2),
    };
    let init_state = if r.bool() { Some((session, s0)) } else { None };
    let entry = match r.below(5) {
        0 | 1 => EntryMode::Step,
        2 | 3 => EntryMode::UpdateApply,
        _ => EntryMode::ResetApply,
    };
    // an earlier, completed exchange on the connection ("later" histories)
    let mut prior = None;
    let mut prior_bytes = Vec::new();
    let mut serial = s0;
    if r.below(3) == 0 {
        let v0 = r.range(0, asked as u64) as u8;
        serial = serial.wrapping_add(1);
        let refresh = r.range(600, 86_400) as u32;
        prior_bytes = encode_all(&gen_full_response(r, v0, session, serial, refresh, 2));
        if entry != EntryMode::ResetApply {
            // ends the idle wait of the judged call
            prior_bytes.extend_from_slice(&Pdu::SerialNotify { v: v0, session, serial: serial.wrapping_add(1) }.encode());
        }
        prior = Some(v0);
    }
    let has_state = (init_state.is_some() || prior.is_some()) && entry != EntryMode::ResetApply;
    let q0 = prior.unwrap_or(asked);
    let query = if has_state { Pdu::SerialQuery { v: q0, session, serial } } else { Pdu::ResetQuery { v: q0 } };
    serial = serial.wrapping_add(1);
    // the version a well-behaved cache would ask for
    let w = if prior.is_some() { *r.pick(&[0u8, 1, 2]) } else if r.below(5) == 0 { *r.pick(&[0u8, 1, 2, 3, 255]) } else { lower_than(r, asked) };
    let mut kinds: Vec<UnitKind> = Vec::new();
    let mut end = End::Close;
    let template: &'static str;
    let mut endless = Vec::new();
    match idx % 14 {
        0 => {
            template = "single-downgrade";
            kinds = vec![UnitKind::VerErr(w), UnitKind::Resp(w)];
        }
        1 => {
            template = "downgrade-then-response-in-other-version";
            kinds = vec![UnitKind::VerErr(w), UnitKind::Resp(other_than(r, w))];
        }
        2 => {
            template = "two-version-errors-then-response";
            let lower = lower_than(r, w);
            let w2 = *r.pick(&[w, lower, w.saturating_add(1), 2, 0]);
            kinds = vec![UnitKind::VerErr(w), UnitKind::VerErr(w2), UnitKind::Resp(w2)];
        }
        3 | 4 => {
            template = "many-version-errors-then-end";
            let n = *r.pick(&[2usize, 3, 4, 5, 9, 17, 64, 200]);
            let pat = error_pattern(r, w);
            kinds.push(UnitKind::VerErr(w));
            for i in 1..n {
                kinds.push(UnitKind::VerErr(pat[i % pat.len()]));
            }
            end = if r.below(4) == 0 { End::Silent } else { End::Close };
        }
        5 | 6 => {
            template = "version-error-then-endless-version-errors";
            kinds = vec![UnitKind::VerErr(w)];
            endless = error_pattern(r, w);
            end = End::Endless(endless.clone());
        }
        7 => {
            template = "endless-version-errors";
            endless = error_pattern(r, w);
            end = End::Endless(endless.clone());
        }
        8 => {
            template = "downgrade-cache-reset-response";
            let mut vs = [w, w, w];
            match r.below(4) {
                0 => {}
                1 => vs[1] = other_than(r, w),
                2 => vs[2] = other_than(r, w),
                _ => {
                    vs[1] = other_than(r, w);
                    vs[2] = vs[1];
                }
            }
            kinds = vec![UnitKind::VerErr(vs[0]), UnitKind::Reset(vs[1]), UnitKind::Resp(vs[2])];
        }
        9 => {
            template = "cache-reset-then-version-error";
            let x = r.range(0, asked as u64) as u8;
            let (lower, other) = (lower_than(r, x), other_than(r, x));
            let w2 = *r.pick(&[x, lower, other]);
            kinds = vec![UnitKind::Reset(x), UnitKind::VerErr(w2), UnitKind::Resp(w2)];
            if r.bool() {
                endless = error_pattern(r, w2);
                kinds.pop();
                end = End::Endless(endless.clone());
            }
        }
        10 => {
            template = "plain-response";
            kinds = vec![UnitKind::Resp(if r.below(4) == 0 { *r.pick(&[0u8, 1, 2, 3]) } else { r.range(0, q0 as u64) as u8 })];
        }
        11 => {
            template = "version-error-then-nothing";
            kinds = vec![UnitKind::VerErr(w)];
            end = if r.bool() { End::Silent } else { End::Close };
        }
        12 => {
            template = "downgrade-cache-reset-version-errors";
            kinds = vec![UnitKind::VerErr(w), UnitKind::Reset(w)];
            endless = error_pattern(r, w);
            end = End::Endless(endless.clone());
        }
        _ => {
            template = "random-history";
            for _ in 0..r.range(1, 5) {
                let v = *r.pick(&[0u8, 1, 2, 0, 1, 2, 3, 255]);
                kinds.push(match r.below(5) {
                    0 | 1 | 2 => UnitKind::VerErr(v),
                    3 => UnitKind::Reset(v),
                    _ => UnitKind::Resp(v),
                });
            }
            if r.bool() {
                kinds.push(UnitKind::Resp(*r.pick(&[0u8, 1, 2])));
            }
            end = match r.below(3) {
                0 => End::Close,
                1 => End::Silent,
                _ => {
                    endless = error_pattern(r, w);
                    End::Endless(endless.clone())
                }
            };
        }
    }
    // nothing is read after a complete response
    if let Some(p) = kinds.iter().position(|k| matches!(k, UnitKind::Resp(_))) {
        kinds.truncate(p + 1);
        if end != End::Silent {
            end = End::Close;
        }
        endless.clear();
    }
    let units: Vec<Unit> = kinds.iter().map(|k| make_unit(r, *k, session, serial, &query)).collect();
    let endless_units: Vec<Unit> = endless.iter().map(|v| make_unit(r, UnitKind::VerErr(*v), session, serial, &query)).collect();
    let eager = r.below(3) == 0 && !matches!(end, End::Endless(_));
    Nego { ctor, asked, init_state, entry, prior, prior_bytes, units, end, endless_units, eager, template }
}

//------------ the model --------------------------------------------------------------

/// Code-4 Error Reports one call may work through. There are three protocol
/// versions, so after two downgrades nothing is left to propose; one more is
/// tolerated.
const MAX_VERSION_ERRORS: usize = 3;

struct Verdict {
    /// (why, absolute stream offset up to which the client may have read)
    must_err: Option<(&'static str, usize)>,
    /// the units the client was handed contain a complete response and nothing the model leaves open
    clean: bool,
    /// a complete response is among the units the client got to
    complete: bool,
    /// index of the unit that decides
    at_unit: usize,
}

/// Walks the reply units next to the queries the client actually wrote.
/// `queries`: (type, version) of the queries of the judged call, in order.
fn model(sc: &Nego, queries: &[(u8, u8)]) -> Verdict {
    let mut pinned = sc.prior;
    let mut errs = 0usize;
    let mut clean = true;
    let mut offset = sc.prior_bytes.len();
    let finite = sc.units.len();
    let mut i = 0usize;
    loop {
        let u = if i < finite {
            &sc.units[i]
        } else if !sc.endless_units.is_empty() {
            &sc.endless_units[(i - finite) % sc.endless_units.len()]
        } else {
            break;
        };
        // unit i answers query i; a unit the client never asked for is never read
        let Some((qtype, q)) = queries.get(i).copied() else { break };
        let len = u.bytes.len();
        match u.kind {
            UnitKind::VerErr(w) => {
                errs += 1;
                if errs > MAX_VERSION_ERRORS {
                    return Verdict { must_err: Some(("more-version-error-reports-than-protocol-versions", offset + len.max(32))), clean, complete: false, at_unit: i };
                }
                match pinned {
                    Some(p) if w != p => {
                        return Verdict { must_err: Some(("version-error-report-in-other-version-than-negotiated", offset + len.max(32))), clean, complete: false, at_unit: i };
                    }
                    Some(_) => clean = false,
                    None => {
                        if w < q {
                            pinned = Some(w);
                        } else {
                            clean = false;
                        }
                    }
                }
            }
            UnitKind::Resp(x) => {
                match pinned {
                    Some(p) if x != p => {
                        return Verdict { must_err: Some(("response-in-other-version-than-negotiated", offset + u.first_two)), clean, complete: false, at_unit: i };
                    }
                    Some(_) => {}
                    None => {
                        if x > q {
                            clean = false;
                        }
                    }
                }
                return Verdict { must_err: None, clean, complete: true, at_unit: i };
            }
            UnitKind::Reset(x) => {
                if qtype != 1 {
                    // Cache Reset in answer to a reset query: the statement leaves it open
                    return Verdict { must_err: None, clean: false, complete: false, at_unit: i };
                }
                match pinned {
                    Some(p) if x != p => {
                        return Verdict { must_err: Some(("cache-reset-in-other-version-than-negotiated", offset + 32)), clean, complete: false, at_unit: i };
                    }
                    Some(_) => {}
                    None => {
                        // A Cache Reset as the very first PDU of a session: whether it already
                        // fixes the version is left open (the client asks again anyway).
                        clean = false;
                        let _ = (x, q);
                    }
                }
            }
        }
        offset += len;
        i += 1;
    }
    Verdict { must_err: None, clean, complete: false, at_unit: i }
}

//------------ running -------------------------------------------------------------------

struct Outcome {
    earlier_failed: Option<String>,
    end: &'static str,
    result: Option<Result<(), String>>,
    polls: u64,
    panic: Option<String>,
    consumed: usize,
    reads_after_eof: u32,
    tripped_eof: bool,
    tripped_generator: bool,
    generator_answers: u32,
    overflow: bool,
    /// (type, version) of the queries written during the judged call
    queries: Vec<(u8, u8)>,
    sent: Vec<u8>,
    apply_calls: usize,
}

fn one_call(client: &mut Client<ScriptPeer, NTgt>, entry: EntryMode, budget: u64) -> Result<Driven<Result<(), io::Error>>, String> {
    match entry {
        EntryMode::Step => catch(|| {
            let fut = std::pin::pin!(client.step());
            drive_counted(fut, budget)
        }),
        EntryMode::UpdateApply => catch(|| {
            let fut = std::pin::pin!(async {
                let update = client.update().await?;
                client.apply(update).await
            });
            drive_counted(fut, budget)
        }),
        EntryMode::ResetApply => catch(|| {
            let fut = std::pin::pin!(async {
                let update = client.reset().await?;
                client.apply(update).await
            });
            drive_counted(fut, budget)
        }),
    }
}

fn steps_of(sc: &Nego) -> Vec<Step> {
    let mut steps = Vec::new();
    if sc.prior.is_some() {
        steps.push(Step::AwaitQuery);
        steps.push(Step::Send(sc.prior_bytes.clone()));
    }
    if sc.eager {
        let mut all = Vec::new();
        for u in &sc.units {
            all.extend_from_slice(&u.bytes);
        }
        if !all.is_empty() {
            steps.push(Step::Send(all));
        }
    } else {
        for u in &sc.units {
            steps.push(Step::AwaitQuery);
            steps.push(Step::Send(u.bytes.clone()));
        }
    }
    match &sc.end {
        End::Close => steps.push(Step::Close),
        End::Silent => steps.push(Step::Silent),
        End::Endless(_) => steps.push(Step::Generator(sc.endless_units.iter().map(|u| u.bytes.clone()).collect())),
    }
    steps
}

fn run_nego(sc: &Nego, chunking: &Chunking) -> Outcome {
    let sh = Arc::new(Mutex::new(PeerStats::default()));
    let peer = ScriptPeer::new(steps_of(sc), chunking.clone(), sh.clone());
    let state = sc.init_state.map(|(se, sn)| State::from_parts(se, Serial::from(sn)));
    let mut client = match sc.ctor {
        Ctor::New => Client::new(peer, NTgt::default(), state),
        Ctor::With(v) => Client::with_initial_version(v, peer, NTgt::default(), state),
    };
    let total: usize = sc.prior_bytes.len() + sc.units.iter().map(|u| u.bytes.len()).sum::<usize>() + GENERATOR_CAP as usize * sc.endless_units.iter().map(|u| u.bytes.len()).max().unwrap_or(0);
    let budget = 16 * (total as u64 + 8) + 64;
    let mut out = Outcome {
        earlier_failed: None,
        end: "done",
        result: None,
        polls: 0,
        panic: None,
        consumed: 0,
        reads_after_eof: 0,
        tripped_eof: false,
        tripped_generator: false,
        generator_answers: 0,
        overflow: false,
        queries: Vec::new(),
        sent: Vec::new(),
        apply_calls: 0,
    };
    if sc.prior.is_some() {
        // the earlier exchange is always asked for through step()
        let why = match one_call(&mut client, EntryMode::Step, budget) {
            Ok(Driven::Done(Ok(()), _)) => None,
            Ok(Driven::Done(Err(e), _)) => Some(format!("Err({:?}: {})", e.kind(), e)),
            Ok(Driven::Budget(p)) => Some(format!("pending after {} polls", p)),
            Ok(Driven::Parked(p)) => Some(format!("parked after {} polls", p)),
            Err(text) => Some(format!("panic: {}", text)),
        };
        if why.is_some() {
            out.earlier_failed = why;
            return out;
        }
    }
    let pdus_before = sh.lock().unwrap_or_else(|e| e.into_inner()).client_pdus.len();
    let applied_before = client.target().applied.len();
    match one_call(&mut client, sc.entry, budget) {
        Ok(Driven::Done(res, polls)) => {
            out.polls = polls;
            out.result = Some(res.map_err(|e| format!("{:?}: {}", e.kind(), e)));
        }
        Ok(Driven::Budget(polls)) => {
            out.polls = polls;
            out.end = "budget";
        }
        Ok(Driven::Parked(polls)) => {
            out.polls = polls;
            out.end = "parked";
        }
        Err(text) => {
            out.end = "panic";
            out.panic = Some(text);
        }
    }
    out.apply_calls = client.target().applied.len().saturating_sub(applied_before);
    let g = sh.lock().unwrap_or_else(|e| e.into_inner());
    out.consumed = g.consumed;
    out.reads_after_eof = g.reads_after_eof;
    out.tripped_eof = g.tripped_eof;
    out.tripped_generator = g.tripped_generator;
    out.generator_answers = g.generator_answers;
    out.overflow = g.overflow;
    out.queries = g.client_pdus.iter().skip(pdus_before).filter(|p| p.0 == 1 || p.0 == 2).map(|p| (p.0, p.1)).collect();
    out.sent = g.written.clone();
    out
}

//------------ judging ----------------------------------------------------------------------

struct NegoMon {
    evals: u64,
    seen: HashSet<String>,
    refused_as_required: u64,
    clean_ok: u64,
    clean_refused: u64,
    open_ok: u64,
    open_err: u64,
    parked: u64,
    earlier_failed: u64,
    max_queries: u64,
    max_errors_consumed: u64,
    /// which kinds of case the three evidence samples of this family already show
    sampled: HashSet<&'static str>,
}

/// One evidence sample per sub-kind, three in all (kind `family-negotiation`).
fn family_sample(ctx: &mut Ctx, mon: &mut NegoMon, sub: &'static str, v: impl FnOnce() -> Value) {
    if mon.sampled.len() < 3 && !mon.sampled.contains(sub) && ctx.wants_sample("family-negotiation") {
        mon.sampled.insert(sub);
        ctx.sample("family-negotiation", v);
    }
}

fn vname(v: u8) -> String {
    if v <= 3 {
        v.to_string()
    } else {
        "hi".into()
    }
}

fn shape(sc: &Nego) -> String {
    let mut parts: Vec<String> = Vec::new();
    let mut run: Option<(u8, usize)> = None;
    let flush = |run: &mut Option<(u8, usize)>, parts: &mut Vec<String>| {
        if let Some((w, n)) = run.take() {
            parts.push(match n {
                1 => format!("E{}", vname(w)),
                2..=4 => format!("E{}x{}", vname(w), n),
                _ => format!("E{}xmany", vname(w)),
            });
        }
    };
    for u in sc.units.iter().take(12) {
        match u.kind {
            UnitKind::VerErr(w) => match &mut run {
                Some((rw, n)) if *rw == w => *n += 1,
                _ => {
                    flush(&mut run, &mut parts);
                    run = Some((w, 1));
                }
            },
            UnitKind::Resp(x) => {
                flush(&mut run, &mut parts);
                parts.push(format!("R{}", vname(x)));
            }
            UnitKind::Reset(x) => {
                flush(&mut run, &mut parts);
                parts.push(format!("CR{}", vname(x)));
            }
        }
    }
    flush(&mut run, &mut parts);
    if sc.units.len() > 12 {
        parts.push("..".into());
    }
    if parts.len() > 6 {
        parts.truncate(6);
        parts.push("..".into());
    }
    let end = match &sc.end {
        End::Close => "close".to_string(),
        End::Silent => "silent".to_string(),
        End::Endless(p) => format!("endless[{}]", p.iter().take(4).map(|v| vname(*v)).collect::<Vec<_>>().join(",")),
    };
    format!("{} then {}", parts.join(","), end)
}

/// The history as a class: kinds of the first units with their version
/// relative to the first unit's (same / lower / higher), what follows.
fn coarse_shape(sc: &Nego) -> String {
    let ver = |k: UnitKind| match k {
        UnitKind::VerErr(v) | UnitKind::Resp(v) | UnitKind::Reset(v) => v,
    };
    let first = sc.units.first().map(|u| ver(u.kind)).or_else(|| sc.endless_units.first().map(|u| ver(u.kind))).unwrap_or(0);
    let mut parts: Vec<String> = Vec::new();
    for u in sc.units.iter().take(4) {
        let v = ver(u.kind);
        let rel = if v == first { "=" } else if v < first { "<" } else { ">" };
        parts.push(match u.kind {
            UnitKind::VerErr(_) => format!("E{}", rel),
            UnitKind::Resp(_) => format!("R{}", rel),
            UnitKind::Reset(_) => format!("CR{}", rel),
        });
    }
    if sc.units.len() > 4 {
        parts.push(if sc.units.len() > 8 { "..many".into() } else { "..".into() });
    }
    let end = match &sc.end {
        End::Close => "close".to_string(),
        End::Silent => "silent".to_string(),
        End::Endless(p) => {
            if p.len() == 1 {
                "endless-same".to_string()
            } else {
                "endless-changing".to_string()
            }
        }
    };
    format!("first-v{} {} then {}", vname(first), parts.join(","), end)
}

fn nego_json(sc: &Nego) -> Value {
    json!({
        "client": match sc.ctor { Ctor::New => "Client::new".to_string(), Ctor::With(v) => format!("Client::with_initial_version({})", v) },
        "client_proposes_version": sc.asked,
        "client_initial_state": sc.init_state.map(|(a, b)| format!("{}:{}", a, b)),
        "entry_point_judged": sc.entry.name(),
        "exchange_completed_before_in_version": sc.prior,
        "octets_of_the_earlier_exchange_hex": hex_capped(&sc.prior_bytes, 256),
        "history": shape(sc),
        "reply_units": sc.units.iter().take(8).map(|u| json!({"unit": format!("{:?}", u.kind), "octets": u.bytes.len(), "hex": hex_capped(&u.bytes, 96)})).collect::<Vec<_>>(),
        "reply_units_total": sc.units.len(),
        "generator_units": sc.endless_units.iter().map(|u| json!({"unit": format!("{:?}", u.kind), "hex": hex_capped(&u.bytes, 96)})).collect::<Vec<_>>(),
        "after_the_units": format!("{:?}", sc.end),
        "delivery_mode": if sc.eager { "everything on the wire at once" } else { "one reply unit per query received" },
        "template": sc.template,
    })
}

fn judge(ctx: &mut Ctx, mon: &mut NegoMon, sc: &Nego, chunking: &Chunking) {
    let o = run_nego(sc, chunking);
    mon.evals += 1;
    let phase = if sc.prior.is_some() { "negotiated" } else { "fresh" };
    let reader = match o.queries.first() {
        Some((1, _)) => "serial",
        Some((2, _)) => "reset",
        _ => "none",
    };
    let class = format!(
        "nego {} asks-v{} {} {} [{}] {}",
        sc.entry.name(),
        sc.asked,
        phase,
        sc.template,
        coarse_shape(sc),
        if sc.eager { "eager" } else { "lockstep" },
    );
    if mon.seen.insert(class.clone()) {
        ctx.sig(&class);
    }
    mon.max_queries = mon.max_queries.max(o.queries.len() as u64);
    let detail = |extra: Value| -> Value {
        json!({
            "scenario": nego_json(sc),
            "delivery": format!("{:?}", chunking),
            "queries_written_by_the_client_in_the_judged_call": o.queries.iter().map(|(t, v)| format!("{} v{}", if *t == 1 { "SerialQuery" } else { "ResetQuery" }, v)).collect::<Vec<_>>(),
            "octets_written_by_the_client_hex": hex_capped(&o.sent, 256),
            "octets_taken_from_the_stream": o.consumed,
            "generator_answers": o.generator_answers,
            "observed": extra,
        })
    };
    if let Some(why) = &o.earlier_failed {
        mon.earlier_failed += 1;
        if ctx.wants_sample("nego-earlier-exchange-refused") {
            let v = detail(json!({"earlier_exchange": why}));
            ctx.sample("nego-earlier-exchange-refused", || v);
        }
        return;
    }
    if let Some(text) = &o.panic {
        ctx.violation(
            &format!("C07:panic:client-negotiation:{}", panic_location(text)),
            &format!("Client::{} panicked during version negotiation: {}", sc.entry.name(), text),
            detail(json!({"panic": text})),
        );
        return;
    }
    if o.tripped_generator {
        ctx.violation(
            &format!("C07:negotiation:keeps-asking-after-version-error-reports:{}:{}", reader, phase),
            &format!(
                "the peer answered every query with an 'unsupported protocol version' Error Report; Client::{} sent {} queries and worked through {} reports and was still asking (it only stopped because the peer turned the next read into an error)",
                sc.entry.name(), o.queries.len(), o.generator_answers
            ),
            detail(json!({"result": format!("{:?}", o.result), "end": o.end})),
        );
        return;
    }
    if o.end == "budget" {
        ctx.violation(
            &format!("C07:negotiation:no-completion-within-poll-budget:{}:{}", reader, phase),
            &format!("Client::{} was still pending and asking to be polled after {} polls", sc.entry.name(), o.polls),
            detail(json!({"polls": o.polls})),
        );
        return;
    }
    if o.tripped_eof || o.reads_after_eof > EOF_READS_TOLERATED {
        ctx.violation(
            &format!("C07:negotiation:keeps-reading-after-eof:{}:{}", reader, phase),
            &format!("Client::{} read the stream {} times after it had ended", sc.entry.name(), o.reads_after_eof),
            detail(json!({"reads_after_eof": o.reads_after_eof, "result": format!("{:?}", o.result)})),
        );
        return;
    }
    if o.end == "parked" {
        // waits on a timer that nothing drives here (silent peer): recorded
        mon.parked += 1;
        ctx.obs(if sc.end == End::Silent { "nego_parked_on_timer:peer-silent" } else { "nego_parked_on_timer:other" }, 1);
        return;
    }
    let v = model(sc, &o.queries);
    let ok = matches!(o.result, Some(Ok(())));
    // how many code-4 reports did the client work through (each one is followed by a query)
    let errors_in_units = |upto: usize| -> u64 {
        (0..upto)
            .filter(|i| {
                let k = if *i < sc.units.len() { Some(sc.units[*i].kind) } else if !sc.endless_units.is_empty() { Some(sc.endless_units[(*i - sc.units.len()) % sc.endless_units.len()].kind) } else { None };
                matches!(k, Some(UnitKind::VerErr(_)))
            })
            .count() as u64
    };
    mon.max_errors_consumed = mon.max_errors_consumed.max(errors_in_units(o.queries.len().saturating_sub(1)));
    match v.must_err {
        Some((why, bound)) => {
            if ok {
                ctx.violation(
                    &format!("C07:negotiation:accepted:{}:{}:{}", why, reader, phase),
                    &format!(
                        "Client::{} returned Ok ({} update applied) although reply unit #{} of the history [{}] announces a wrong version ({})",
                        sc.entry.name(), o.apply_calls, v.at_unit + 1, shape(sc), why
                    ),
                    detail(json!({"result": "Ok", "deciding_unit": v.at_unit})),
                );
                return;
            }
            if o.consumed > bound {
                ctx.violation(
                    &format!("C07:negotiation:overread:{}:{}:{}", why, reader, phase),
                    &format!(
                        "Client::{} gave up only after taking {} octets and sending {} queries; reply unit #{} ({}) ends at octet {}",
                        sc.entry.name(), o.consumed, o.queries.len(), v.at_unit + 1, why, bound
                    ),
                    detail(json!({"result": format!("{:?}", o.result), "bound": bound, "deciding_unit": v.at_unit})),
                );
                return;
            }
            mon.refused_as_required += 1;
            ctx.obs(&format!("nego_refused_as_required:{}", why), 1);
            let sub: &'static str = if matches!(sc.end, End::Endless(_)) && v.at_unit >= sc.units.len() {
                "generator of endless version error reports: refused"
            } else if why == "response-in-other-version-than-negotiated" {
                "response in another version than negotiated: refused"
            } else {
                ""
            };
            if !sub.is_empty() {
                let s = json!({"what": sub, "client_proposes": sc.asked, "entry": sc.entry.name(), "phase": phase, "history": shape(sc), "why": why, "result": format!("{:?}", o.result),
                    "queries_sent_versions": o.queries.iter().map(|q| q.1).collect::<Vec<_>>(), "octets_taken": o.consumed, "polls": o.polls});
                family_sample(ctx, mon, sub, || s);
            }
        }
        None => {
            if v.complete {
                if v.clean {
                    if ok {
                        mon.clean_ok += 1;
                        ctx.obs(&format!("nego_well_behaved_completed:{}", sc.template), 1);
                        if sc.template == "single-downgrade" {
                            let s = json!({"what": "one downgrade, then the response in the requested version: completed", "client_proposes": sc.asked, "entry": sc.entry.name(), "history": shape(sc),
                                "queries_sent_versions": o.queries.iter().map(|q| q.1).collect::<Vec<_>>(), "octets_taken": o.consumed});
                            family_sample(ctx, mon, "single downgrade completed", || s);
                        }
                    } else {
                        mon.clean_refused += 1;
                        if ctx.wants_sample("nego-well-behaved-history-refused") {
                            let s = detail(json!({"result": format!("{:?}", o.result)}));
                            ctx.sample("nego-well-behaved-history-refused", || s);
                        }
                    }
                } else if ok {
                    mon.open_ok += 1;
                    ctx.obs(&format!("nego_open_history_accepted:{}", sc.template), 1);
                } else {
                    mon.open_err += 1;
                }
            } else if ok {
                // no complete response among what the client was given
                ctx.violation(
                    &format!("C07:negotiation:accepted:no-complete-response-on-the-stream:{}:{}", reader, phase),
                    &format!("Client::{} returned Ok although the history [{}] holds no complete response", sc.entry.name(), shape(sc)),
                    detail(json!({"result": "Ok"})),
                );
            } else {
                mon.open_err += 1;
                ctx.obs("nego_incomplete_history_refused", 1);
            }
        }
    }
}

//------------ entry -----------------------------------------------------------------------------

/// Called from `c07::run` for the native and ASan stages (and a few cases
/// under Miri in the thorough tier).
pub(super) fn run_nego_workload(ctx: &mut Ctx) {
    let miri = ctx.stage == Stage::Miri;
    if miri && (ctx.tier == Tier::Quick || ctx.shard % 3 != 1) {
        return;
    }
    let mut mon = NegoMon {
        evals: 0,
        seen: HashSet::new(),
        refused_as_required: 0,
        clean_ok: 0,
        clean_refused: 0,
        open_ok: 0,
        open_err: 0,
        parked: 0,
        earlier_failed: 0,
        max_queries: 0,
        max_errors_consumed: 0,
        sampled: HashSet::new(),
    };
    let mut r = ctx.rng("negotiation");
    let scenarios = ctx.stage_budget((48_000, 1_200_000), 24_000, 28, 0);
    // timers of the client need a runtime context; nothing ever drives it
    let rt = tokio::runtime::Builder::new_current_thread().enable_time().start_paused(true).build().expect("tokio runtime");
    let _guard = rt.enter();
    for i in 0..scenarios {
        let sc = gen_nego(&mut r, i + ctx.shard);
        if i % 512 == 0 {
            ctx.breadcrumb(&format!("nego scenario {} {}", i, shape(&sc)));
        }
        let chunking = match r.below(4) {
            0 | 1 => Chunking::AllAtOnce,
            2 => Chunking::ByteWise,
            _ => random_script(&mut r),
        };
        if miri && sc.units.len() > 6 {
            continue;
        }
        judge(ctx, &mut mon, &sc, &chunking);
    }
    ctx.evals(mon.evals);
    ctx.obs("nego_calls_judged", mon.evals);
    ctx.obs("nego_classes_in_this_shard", mon.seen.len() as u64);
    ctx.obs("nego_wrong_version_histories_refused_as_required", mon.refused_as_required);
    ctx.obs("nego_well_behaved_histories_completed", mon.clean_ok);
    ctx.obs("nego_well_behaved_histories_refused", mon.clean_refused);
    ctx.obs("nego_open_histories_accepted", mon.open_ok);
    ctx.obs("nego_open_histories_refused", mon.open_err);
    ctx.obs("nego_calls_parked_on_a_timer", mon.parked);
    ctx.obs("nego_earlier_exchange_did_not_complete", mon.earlier_failed);
    ctx.obs_max("nego_queries_sent_in_one_call", mon.max_queries);
    ctx.obs_max("nego_version_error_reports_worked_through_in_one_call", mon.max_errors_consumed);
    if mon.clean_refused > 0 {
        ctx.notes.push(format!("C07: {} well-behaved negotiation histories (one downgrade, then a response in the requested version) were refused by the client (see samples)", mon.clean_refused));
    }
    if ctx.tier == Tier::Quick && !miri && mon.refused_as_required == 0 {
        ctx.notes.push("C07: negotiation workload refused no wrong-version history in this shard".into());
    }
}
