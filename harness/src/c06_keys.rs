//! C06 helper: the payload types as *collection keys* at the client's target.
//!
//! The statement says the announcements and withdrawals handed to the target,
//! applied in order to the previous data, yield exactly the source's set. What
//! "applied" does at a real target is decided by the library's `Eq`, `Ord`
//! and `Hash` implementations of `Payload` (the types "implement all the
//! traits to use them as keys in collections to be able to perform difference
//! processing"). Two parts:
//!
//! * `RefTargets`: three reference targets fed with the very values the
//!   client handed over - a `Vec` that only uses `==`, a `BTreeSet` (`Ord`)
//!   and a `HashSet` (`Hash` + `Eq`, fixed hasher keys so that runs repeat).
//!   Their content is read back through the public accessors into the
//!   integer model (`c06_src::Data`) and compared there, so a collapse of two
//!   keys cannot hide in the comparison itself.
//! * `run_laws`: the coherence these collections rely on, over generated
//!   pairs and triples of close neighbours: `a == b` iff `cmp` is `Equal`,
//!   `a == b` implies equal hashes, `cmp` antisymmetric and transitive,
//!   `partial_cmp` agrees with `cmp`, and `==` agrees with the identity of
//!   the item as the wire carries it (prefix, resolved max length, ASN / key
//!   identifier, ASN, key / customer, providers).
//!
//! This file is included from `c06.rs` with `#[path]`.

use crate::c06_src::{from_lib, render_item, to_lib, Data, Item, KeyK, OriginK};
use crate::core::{Ctx, Rng};
use rpki::rtr::payload::{Action, Aspa, Payload, PayloadRef, RouteOrigin, RouterKey};
use serde_json::{json, Value};
use std::cmp::Ordering;
use std::collections::hash_map::DefaultHasher;
use std::collections::{BTreeSet, HashSet};
use std::hash::{BuildHasherDefault, Hash};

type FixedState = BuildHasherDefault<DefaultHasher>;

//------------ reference targets ---------------------------------------------

#[derive(Default)]
pub struct RefTargets {
    /// uses `==` only
    vec: Vec<Payload>,
    /// uses `Ord`
    bt: BTreeSet<Payload>,
    /// uses `Hash` + `Eq`
    hs: HashSet<Payload, FixedState>,
    /// origins currently held in the form without explicit max length
    pub implicit_maxlen_held: usize,
}

fn aspa_customer(p: &Payload) -> Option<u32> {
    match p {
        Payload::Aspa(a) => Some(a.customer.into_u32()),
        _ => None,
    }
}

impl RefTargets {
    /// The data a client holds before it connects, as library values built
    /// by the harness (`to_lib`: max length = prefix length is left implicit
    /// for even ASNs, as in the values the source hands to the server).
    pub fn from_data(d: &Data) -> Self {
        let mut t = RefTargets::default();
        for k in &d.origins {
            t.put(to_lib(&Item::Origin(*k)));
        }
        for k in &d.keys {
            t.put(to_lib(&Item::Key(k.clone())));
        }
        for (c, p) in &d.aspas {
            t.put(to_lib(&Item::Aspa(*c, p.clone())));
        }
        t.recount();
        t
    }

    fn put(&mut self, p: Payload) {
        self.vec.push(p.clone());
        self.bt.insert(p.clone());
        self.hs.insert(p);
    }

    fn recount(&mut self) {
        self.implicit_maxlen_held = self
            .vec
            .iter()
            .filter(|p| matches!(p, Payload::Origin(o) if o.prefix.max_len().is_none()))
            .count();
    }

    pub fn clear(&mut self) {
        self.vec.clear();
        self.bt.clear();
        self.hs.clear();
        self.implicit_maxlen_held = 0;
    }

    /// One update as a target keeping a set would perform it: announce
    /// inserts (an ASPA replaces the record of that customer), withdraw
    /// removes (an ASPA by its customer). Every look-up goes through the
    /// collection's own key comparison.
    pub fn apply(&mut self, action: Action, p: &Payload) {
        if let Some(c) = aspa_customer(p) {
            // ASPA records are keyed by the customer AS
            let old: Option<Payload> = self.vec.iter().find(|x| aspa_customer(x) == Some(c)).cloned();
            if let Some(old) = old {
                if let Some(i) = self.vec.iter().position(|x| *x == old) {
                    self.vec.remove(i);
                }
            }
            let old: Option<Payload> = self.bt.iter().find(|x| aspa_customer(x) == Some(c)).cloned();
            if let Some(old) = old {
                self.bt.remove(&old);
            }
            let old: Option<Payload> = self.hs.iter().find(|x| aspa_customer(x) == Some(c)).cloned();
            if let Some(old) = old {
                self.hs.remove(&old);
            }
            if matches!(action, Action::Announce) {
                self.vec.push(p.clone());
                self.bt.insert(p.clone());
                self.hs.insert(p.clone());
            }
            return;
        }
        match action {
            Action::Announce => {
                if !self.vec.iter().any(|x| x == p) {
                    self.vec.push(p.clone());
                }
                self.bt.insert(p.clone());
                self.hs.insert(p.clone());
            }
            Action::Withdraw => {
                if let Some(i) = self.vec.iter().position(|x| x == p) {
                    self.vec.remove(i);
                }
                self.bt.remove(p);
                self.hs.remove(p);
            }
        }
    }

    /// Content of the three targets in model form: (name, data, number of
    /// elements held).
    pub fn read_back(&mut self) -> Vec<(&'static str, Data, usize)> {
        self.recount();
        fn model<'a>(it: impl Iterator<Item = &'a Payload>) -> (Data, usize) {
            let mut d = Data::default();
            let mut n = 0;
            for p in it {
                d.apply(true, &from_lib(p));
                n += 1;
            }
            (d, n)
        }
        let (a, an) = model(self.vec.iter());
        let (b, bn) = model(self.bt.iter());
        let (c, cn) = model(self.hs.iter());
        vec![("eq-vec", a, an), ("btreeset", b, bn), ("hashset", c, cn)]
    }

    pub fn render(&self, which: &str) -> Value {
        let it: Vec<String> = match which {
            "eq-vec" => self.vec.iter().map(|p| format!("{:?}", p)).collect(),
            "btreeset" => self.bt.iter().map(|p| format!("{:?}", p)).collect(),
            _ => self.hs.iter().map(|p| format!("{:?}", p)).collect(),
        };
        json!(it.into_iter().take(200).map(|s| s.chars().take(240).collect::<String>()).collect::<Vec<_>>())
    }
}

/// Do two origins with the same prefix and ASN but different max length sit
/// in the data together?
pub fn has_maxlen_neighbours(d: &Data) -> bool {
    // the set is ordered by (family, bits, length, max length, asn): origins
    // of one prefix are adjacent
    let v: Vec<&OriginK> = d.origins.iter().collect();
    for (i, a) in v.iter().enumerate() {
        for b in v[i + 1..].iter() {
            if (a.0, a.1, a.2) != (b.0, b.1, b.2) {
                break;
            }
            if a.4 == b.4 && a.3 != b.3 {
                return true;
            }
        }
    }
    false
}

//------------ laws ------------------------------------------------------------

fn h<T: Hash>(x: &T) -> u64 {
    // SipHash and a word-at-a-time hasher (sensitive to the sequence of write calls)
    crate::core::hash2_of(x)
}

fn pick_asn(rng: &mut Rng) -> u32 {
    match rng.below(8) {
        0 => 0,
        1 => u32::MAX,
        2 => 65_535,
        3 => 65_536,
        4 => 23_456,
        5 => 1,
        _ => rng.next_u32(),
    }
}

fn gen_origin(rng: &mut Rng) -> OriginK {
    let v6 = rng.bool();
    let fam_max: u8 = if v6 { 128 } else { 32 };
    let len = match rng.below(5) {
        0 => 0,
        1 => fam_max,
        2 => fam_max - 1,
        _ => rng.range(0, fam_max as u64) as u8,
    };
    let bits = if len == 0 {
        0
    } else if v6 {
        rng.next_u128() & (u128::MAX << (128 - len as u32))
    } else {
        (rng.next_u32() & (u32::MAX << (32 - len as u32))) as u128
    };
    let ml = match rng.below(3) {
        0 => len,
        1 => fam_max,
        _ => rng.range(len as u64, fam_max as u64) as u8,
    };
    (v6, bits, len, ml, pick_asn(rng))
}

/// A close neighbour of `k`: one field moved by the least possible amount.
/// Returns the name of the relation.
fn origin_neighbour(rng: &mut Rng, k: &OriginK) -> (OriginK, &'static str) {
    let fam_max: u8 = if k.0 { 128 } else { 32 };
    let mut n = *k;
    match rng.below(7) {
        0 => (n, "same"),
        1 | 2 => {
            // other max length (towards the prefix length or away from it)
            if k.3 > k.2 && rng.bool() {
                n.3 = if rng.bool() { k.2 } else { k.3 - 1 };
            } else if k.3 < fam_max {
                n.3 = if rng.bool() { fam_max } else { k.3 + 1 };
            } else if k.3 > k.2 {
                n.3 = k.2;
            }
            (n, if n == *k { "same" } else { "maxlen" })
        }
        3 => {
            n.4 = if rng.bool() { k.4.wrapping_add(1) } else { k.4 ^ 0x8000_0000 };
            (n, "asn")
        }
        4 => {
            // other prefix length over the same bits (max length kept if possible)
            if k.2 > 0 {
                n.2 = k.2 - 1;
                let sh = (if k.0 { 128 } else { 32 }) - n.2 as u32;
                n.1 = if n.2 == 0 { 0 } else if k.0 { k.1 & (u128::MAX << sh) } else { ((k.1 as u32) & (u32::MAX << sh)) as u128 };
            } else {
                n.2 = 1;
                n.3 = n.3.max(1);
            }
            (n, "prefixlen")
        }
        5 => {
            // another address of the same length
            if k.2 > 0 {
                let bit = if k.0 { 128 - k.2 as u32 } else { 32 - k.2 as u32 };
                n.1 = k.1 ^ (1u128 << bit);
            }
            (n, if n == *k { "same" } else { "addr" })
        }
        _ => {
            // the other family with the same numbers where they fit
            if !k.0 {
                n.0 = true;
                n.1 = (k.1 as u128) << 96;
            } else if k.2 <= 32 && k.3 <= 32 {
                n.0 = false;
                n.1 = k.1 >> 96;
            }
            (n, if n == *k { "same" } else { "family" })
        }
    }
}

fn gen_key(rng: &mut Rng) -> KeyK {
    let mut ski = [0u8; 20];
    ski.copy_from_slice(&rng.bytes(20));
    let len = *rng.pick(&[0usize, 1, 2, 33, 91]);
    (ski, pick_asn(rng), rng.bytes(len))
}

fn key_neighbour(rng: &mut Rng, k: &KeyK) -> (KeyK, &'static str) {
    let mut n = k.clone();
    match rng.below(6) {
        0 => (n, "same"),
        1 => {
            let i = rng.usize_below(20);
            n.0[i] ^= 1 << rng.below(8);
            (n, "ski")
        }
        2 => {
            n.1 = n.1.wrapping_add(1);
            (n, "asn")
        }
        3 if !n.2.is_empty() => {
            let i = rng.usize_below(n.2.len());
            n.2[i] ^= 1 << rng.below(8);
            (n, "keyinfo")
        }
        4 if !n.2.is_empty() => {
            n.2.pop();
            (n, "keyinfo-shorter")
        }
        _ => {
            n.2.push(0);
            (n, "keyinfo-longer")
        }
    }
}

fn gen_aspa(rng: &mut Rng) -> (u32, Vec<u32>) {
    let n = rng.below(5) as usize;
    (pick_asn(rng), (0..n).map(|_| pick_asn(rng)).collect())
}

fn aspa_neighbour(rng: &mut Rng, k: &(u32, Vec<u32>)) -> ((u32, Vec<u32>), &'static str) {
    let mut n = k.clone();
    match rng.below(5) {
        0 => (n, "same"),
        1 => {
            n.0 = n.0.wrapping_add(1);
            (n, "customer")
        }
        2 if !n.1.is_empty() => {
            n.1.pop();
            (n, "same-customer-fewer-providers")
        }
        3 if !n.1.is_empty() => {
            let i = rng.usize_below(n.1.len());
            n.1[i] = n.1[i].wrapping_add(1);
            (n, "same-customer-other-provider")
        }
        _ => {
            n.1.push(pick_asn(rng));
            (n, "same-customer-more-providers")
        }
    }
}

/// Library value for an origin with the max-length form chosen by the caller
/// (`implicit` only applies when max length = prefix length).
fn origin_lib(k: &OriginK, implicit: bool) -> Payload {
    // `to_lib` leaves max length = prefix length implicit for even ASNs; the
    // form is chosen here instead, the ASN is put back afterwards
    let mut kk = *k;
    let want_implicit = implicit && k.2 == k.3;
    kk.4 = if want_implicit { k.4 & !1 } else { k.4 | 1 };
    match to_lib(&Item::Origin(kk)) {
        Payload::Origin(mut o) => {
            o.asn = rpki::resources::asn::Asn::from_u32(k.4);
            Payload::Origin(o)
        }
        other => other,
    }
}

struct Triple {
    items: [Item; 3],
    libs: [Payload; 3],
    class: String,
}

fn gen_triple(rng: &mut Rng) -> Triple {
    match rng.below(4) {
        0 | 1 => {
            let a = gen_origin(rng);
            let (b, r1) = origin_neighbour(rng, &a);
            let (c, r2) = if rng.bool() { origin_neighbour(rng, &b) } else { origin_neighbour(rng, &a) };
            let forms = [rng.bool(), rng.bool(), rng.bool()];
            let libs = [origin_lib(&a, forms[0]), origin_lib(&b, forms[1]), origin_lib(&c, forms[2])];
            let implicit = libs.iter().filter(|p| matches!(p, Payload::Origin(o) if o.prefix.max_len().is_none())).count();
            Triple {
                items: [Item::Origin(a), Item::Origin(b), Item::Origin(c)],
                libs,
                class: format!("origin {} {}+{} implicit-maxlen-forms={}", if a.0 { "v6" } else { "v4" }, r1, r2, implicit),
            }
        }
        2 => {
            let a = gen_key(rng);
            let (b, r1) = key_neighbour(rng, &a);
            let (c, r2) = key_neighbour(rng, &b);
            let items = [Item::Key(a), Item::Key(b), Item::Key(c)];
            let libs = [to_lib(&items[0]), to_lib(&items[1]), to_lib(&items[2])];
            Triple { items, libs, class: format!("routerkey {}+{}", r1, r2) }
        }
        _ => {
            if rng.below(4) == 0 {
                // mixed kinds
                let items = [Item::Origin(gen_origin(rng)), Item::Key(gen_key(rng)), {
                    let a = gen_aspa(rng);
                    Item::Aspa(a.0, a.1)
                }];
                let mut idx = [0usize, 1, 2];
                rng.shuffle(&mut idx);
                let items = [items[idx[0]].clone(), items[idx[1]].clone(), items[idx[2]].clone()];
                let libs = [to_lib(&items[0]), to_lib(&items[1]), to_lib(&items[2])];
                return Triple { items, libs, class: "mixed kinds".into() };
            }
            let a = gen_aspa(rng);
            let (b, r1) = aspa_neighbour(rng, &a);
            let (c, r2) = aspa_neighbour(rng, &b);
            let items = [Item::Aspa(a.0, a.1), Item::Aspa(b.0, b.1), Item::Aspa(c.0, c.1)];
            let libs = [to_lib(&items[0]), to_lib(&items[1]), to_lib(&items[2])];
            Triple { items, libs, class: format!("aspa {}+{}", r1, r2) }
        }
    }
}

/// Checks the laws on one type for three values. `same[i][j]` is the wire
/// identity of values i and j (None: not judged for this type).
fn laws_on<T: Ord + Hash + std::fmt::Debug>(ctx: &mut Ctx, ty: &str, v: [&T; 3], same: [[bool; 3]; 3], describe: &dyn Fn() -> Value) -> u64 {
    // one evaluation per (type, triple): all pairwise laws and transitivity
    let evals = 1u64;
    let fail = |ctx: &mut Ctx, law: &str, text: String, i: usize, j: usize, k: Option<usize>| {
        let mut d = describe();
        d["type"] = json!(ty);
        d["law"] = json!(law);
        d["a"] = json!(format!("{:?}", v[i]).chars().take(300).collect::<String>());
        d["b"] = json!(format!("{:?}", v[j]).chars().take(300).collect::<String>());
        if let Some(k) = k {
            d["c"] = json!(format!("{:?}", v[k]).chars().take(300).collect::<String>());
        }
        ctx.violation(&format!("C06:collection-key-law:{}:{}", ty, law), &text, d);
    };
    for i in 0..3 {
        for j in 0..3 {
            let eq = v[i] == v[j];
            let ord = v[i].cmp(v[j]);
            if eq != (ord == Ordering::Equal) {
                fail(ctx, "eq-iff-cmp-equal", format!("{}: a == b is {} but a.cmp(b) is {:?}: an ordered collection and an equality scan disagree about these keys", ty, eq, ord), i, j, None);
                return evals;
            }
            if v[i].partial_cmp(v[j]) != Some(ord) {
                fail(ctx, "partial-cmp-agrees-with-cmp", format!("{}: partial_cmp is {:?}, cmp is {:?}", ty, v[i].partial_cmp(v[j]), ord), i, j, None);
                return evals;
            }
            if eq && h(v[i]) != h(v[j]) {
                fail(ctx, "eq-implies-equal-hash", format!("{}: a == b but their hashes differ: a hashed collection cannot find one through the other", ty), i, j, None);
                return evals;
            }
            if ord != v[j].cmp(v[i]).reverse() {
                fail(ctx, "cmp-antisymmetric", format!("{}: a.cmp(b) is {:?} but b.cmp(a) is {:?}", ty, ord, v[j].cmp(v[i])), i, j, None);
                return evals;
            }
            if eq != same[i][j] {
                let law = if eq { "distinct-items-compare-equal" } else { "same-item-compares-unequal" };
                fail(ctx, law, format!("{}: a == b is {} although the two values {} the same payload item on the wire", ty, eq, if same[i][j] { "are" } else { "are not" }), i, j, None);
                return evals;
            }
        }
    }
    // transitivity over all orders of the three
    for (i, j, k) in [(0, 1, 2), (0, 2, 1), (1, 0, 2), (1, 2, 0), (2, 0, 1), (2, 1, 0)] {
        if v[i].cmp(v[j]) != Ordering::Greater && v[j].cmp(v[k]) != Ordering::Greater && v[i].cmp(v[k]) == Ordering::Greater {
            fail(ctx, "cmp-transitive", format!("{}: a <= b and b <= c but a > c", ty), i, j, Some(k));
            return evals;
        }
        if v[i].cmp(v[j]) == Ordering::Less && v[j].cmp(v[k]) == Ordering::Less && v[i].cmp(v[k]) != Ordering::Less {
            fail(ctx, "cmp-transitive", format!("{}: a < b and b < c but not a < c", ty), i, j, Some(k));
            return evals;
        }
    }
    evals
}

pub fn run_laws(ctx: &mut Ctx, n: u64) {
    let mut rng = ctx.rng("key-laws");
    let mut evals = 0u64;
    let mut equal_pairs = 0u64;
    let mut implicit_explicit_pairs = 0u64;
    for _ in 0..n {
        let t = gen_triple(&mut rng);
        let mut same = [[false; 3]; 3];
        for i in 0..3 {
            for j in 0..3 {
                same[i][j] = t.items[i] == t.items[j];
                if i < j && same[i][j] {
                    equal_pairs += 1;
                    if let (Payload::Origin(a), Payload::Origin(b)) = (&t.libs[i], &t.libs[j]) {
                        if a.prefix.max_len().is_some() != b.prefix.max_len().is_some() {
                            implicit_explicit_pairs += 1;
                        }
                    }
                }
            }
        }
        let describe = || json!({"items": t.items.iter().map(render_item).collect::<Vec<_>>(), "class": t.class});
        let before = ctx.violation_count();
        // the model must be able to tell what it generated apart (harness self check)
        for i in 0..3 {
            if from_lib(&t.libs[i]) != t.items[i] {
                ctx.notes.push(format!("C06 HARNESS BUG: accessors of {:?} do not give back {:?}", t.libs[i], t.items[i]));
                return;
            }
        }
        evals += laws_on(ctx, "Payload", [&t.libs[0], &t.libs[1], &t.libs[2]], same, &describe);
        let refs: [PayloadRef; 3] = [t.libs[0].as_ref(), t.libs[1].as_ref(), t.libs[2].as_ref()];
        evals += laws_on(ctx, "PayloadRef", [&refs[0], &refs[1], &refs[2]], same, &describe);
        match (&t.libs[0], &t.libs[1], &t.libs[2]) {
            (Payload::Origin(a), Payload::Origin(b), Payload::Origin(c)) => {
                evals += laws_on::<RouteOrigin>(ctx, "RouteOrigin", [a, b, c], same, &describe);
            }
            (Payload::RouterKey(a), Payload::RouterKey(b), Payload::RouterKey(c)) => {
                evals += laws_on::<RouterKey>(ctx, "RouterKey", [a, b, c], same, &describe);
            }
            (Payload::Aspa(a), Payload::Aspa(b), Payload::Aspa(c)) => {
                evals += laws_on::<Aspa>(ctx, "Aspa", [a, b, c], same, &describe);
            }
            _ => {}
        }
        ctx.sig(&format!("K {}", t.class));
        if ctx.violation_count() == before && ctx.wants_sample("collection-key-laws") {
            let v = json!({"items": t.items.iter().map(render_item).collect::<Vec<_>>(), "class": t.class,
                "eq": [t.libs[0] == t.libs[1], t.libs[1] == t.libs[2], t.libs[0] == t.libs[2]],
                "cmp": [format!("{:?}", t.libs[0].cmp(&t.libs[1])), format!("{:?}", t.libs[1].cmp(&t.libs[2])), format!("{:?}", t.libs[0].cmp(&t.libs[2]))]});
            ctx.sample("collection-key-laws", || v);
        }
    }
    ctx.evals(evals);
    ctx.obs("key_law_triples", n);
    ctx.obs("key_law_pairs_denoting_the_same_item", equal_pairs);
    ctx.obs("key_law_same_item_pairs_with_and_without_explicit_maxlen", implicit_explicit_pairs);
}
