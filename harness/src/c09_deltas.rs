//! C09 — delta-chain check and origin check against models written from the
//! property statement.
//!
//! Chain model: sort the serials, keep the newest `limit` (all when None);
//! success ⇔ every retained serial is its predecessor plus one (computed in
//! u128, so u64::MAX has no successor). An empty or one-element retained list
//! is trivially consecutive.
//! Origin model: authority = text between "https://" and the next '/' (or
//! the end); success ⇔ snapshot and every delta authority equal the base's
//! ignoring ASCII case.

use crate::c09_gen as g;
use crate::core::{catch, panic_location, Ctx, Rng, Stage};
use rpki::rrdp::{DeltaInfo, Hash, NotificationFile, UriAndHash};
use rpki::uri;
use serde_json::json;
use uuid::Uuid;

fn model_chain(serials: &[u64], limit: Option<usize>) -> (bool, Vec<u64>) {
    let mut s = serials.to_vec();
    s.sort_unstable();
    if let Some(l) = limit {
        if l < s.len() {
            let cut = s.len() - l;
            s.drain(..cut);
        }
    }
    let ok = s.windows(2).all(|w| w[1] as u128 == w[0] as u128 + 1);
    (ok, s)
}

fn run_of(start: u64, n: usize) -> Vec<u64> {
    (0..n as u64).map(|i| start + i).collect()
}

/// A serial multiset with its class name.
fn gen_serials(rng: &mut Rng, max_len: usize) -> (&'static str, Vec<u64>) {
    let n = rng.range(2, max_len.max(2) as u64) as usize;
    let start = match rng.below(6) {
        0 => 0,
        1 => u64::MAX - (n as u64 - 1), // run ends exactly at u64::MAX
        2 => u64::MAX - n as u64 - rng.below(3),
        3 => rng.below(1000),
        4 => (1u64 << 32) - rng.below(n as u64 + 1),
        _ => rng.next_u64() % (u64::MAX - 1000),
    };
    match rng.below(14) {
        0 => ("empty", vec![]),
        1 => ("single", vec![*rng.pick(&[0, 1, u64::MAX, start])]),
        2 => ("run-sorted", run_of(start, n)),
        3 => {
            let mut v = run_of(start, n);
            v.reverse();
            ("run-reversed", v)
        }
        4 => {
            let mut v = run_of(start, n);
            rng.shuffle(&mut v);
            ("run-shuffled", v)
        }
        5 => {
            // one gap; where it is decides which limits hide it
            let mut v = run_of(start.min(u64::MAX - n as u64), n + 1);
            let at = rng.range(1, n as u64 - 1) as usize;
            v.remove(at);
            rng.shuffle(&mut v);
            ("one-gap", v)
        }
        6 => {
            let mut v = run_of(start, n);
            let at = rng.usize_below(v.len());
            let d = v[at];
            v.push(d);
            rng.shuffle(&mut v);
            ("one-duplicate", v)
        }
        7 => {
            let mut v = run_of(u64::MAX - (n as u64 - 1), n);
            v.push(u64::MAX);
            if rng.bool() {
                rng.shuffle(&mut v);
            }
            ("duplicate-u64max", v)
        }
        8 => ("two-u64max", vec![u64::MAX, u64::MAX]),
        9 => {
            let x = *rng.pick(&[0, 7, u64::MAX - 1, u64::MAX]);
            ("all-equal", vec![x; n])
        }
        10 => {
            // a run that would need to wrap: MAX-1, MAX, 0, 1
            let mut v = vec![u64::MAX - 1, u64::MAX, 0, 1];
            if rng.bool() {
                rng.shuffle(&mut v);
            }
            ("wraps-around", v)
        }
        11 => {
            let mut v = run_of(start, n);
            let s2 = start.wrapping_add(n as u64 + 1 + rng.below(5));
            if s2 > start && s2 < u64::MAX - n as u64 {
                v.extend(run_of(s2, n));
            }
            rng.shuffle(&mut v);
            ("two-runs", v)
        }
        12 => {
            let mut v = run_of(start, n);
            v[0] = v[0].saturating_sub(1 + rng.below(3)); // gap right after the oldest
            if rng.bool() {
                rng.shuffle(&mut v);
            }
            ("gap-after-oldest", v)
        }
        _ => ("random", (0..n).map(|_| g::gen_serial(rng)).collect()),
    }
}

fn limits_for(rng: &mut Rng, len: usize) -> Vec<(&'static str, Option<usize>)> {
    let mut v: Vec<(&'static str, Option<usize>)> = vec![
        ("none", None),
        ("0", Some(0)),
        ("1", Some(1)),
        ("len", Some(len)),
        ("len+1", Some(len + 1)),
        ("usize-max", Some(usize::MAX)),
    ];
    if len >= 1 {
        v.push(("len-1", Some(len - 1)));
    }
    if len >= 2 {
        v.push(("2", Some(2)));
        v.push(("other", Some(rng.range(0, len as u64 + 2) as usize)));
    }
    v
}

fn notif_with(serials: &[u64]) -> NotificationFile {
    let snap = UriAndHash::new(uri::Https::from_string("https://h.example/s.xml".to_string()).unwrap(), Hash::from([0u8; 32]));
    let deltas = serials
        .iter()
        .enumerate()
        .map(|(i, s)| {
            let mut h = [0u8; 32];
            h[..8].copy_from_slice(&(i as u64).to_be_bytes());
            DeltaInfo::new(*s, uri::Https::from_string(format!("https://h.example/d/{}.xml", i)).unwrap(), Hash::from(h))
        })
        .collect();
    NotificationFile::new(Uuid::nil(), serials.iter().copied().max().unwrap_or(0), snap, deltas)
}

fn panic_kind(text: &str) -> &'static str {
    if text.contains("index out of bounds") || text.contains("out of range") {
        "panic-index-out-of-bounds"
    } else if text.contains("overflow") {
        "panic-arithmetic-overflow"
    } else {
        "panic-other"
    }
}

fn check_chain(ctx: &mut Ctx, class: &str, serials: &[u64], lname: &str, limit: Option<usize>, nf: NotificationFile) {
    let (want, retained) = model_chain(serials, limit);
    let mut nf = nf;
    let res = catch(|| {
        let r = nf.sort_and_verify_deltas(limit);
        (r, nf.deltas().iter().map(|d| d.serial()).collect::<Vec<u64>>())
    });
    ctx.eval();
    ctx.sig(&format!("chain {} limit={} expect={}", class, lname, want));
    let shown: Vec<String> = serials.iter().take(24).map(|s| s.to_string()).collect();
    let detail = json!({"serials": shown, "count": serials.len(), "limit": limit.map(|l| l.to_string()), "model_retained": retained.iter().take(24).map(|s| s.to_string()).collect::<Vec<_>>(), "model_result": want});
    match res {
        Err(text) => {
            ctx.obs("chain_panics_caught", 1);
            let sig = if panic_kind(&text) == "panic-other" {
                format!("C09:sort_and_verify_deltas:panic-other:{}", panic_location(&text))
            } else {
                format!("C09:sort_and_verify_deltas:{}", panic_kind(&text))
            };
            ctx.violation(&sig, &format!("sort_and_verify_deltas panicked ({}); the statement expects the answer {}", text, want), detail);
        }
        Ok((got, after)) => {
            if got {
                ctx.obs("chain_reported_consecutive", 1);
            } else {
                ctx.obs("chain_reported_gaps", 1);
            }
            if got != want {
                let sig = format!("C09:sort_and_verify_deltas:{}", if got { "success-on-gaps" } else { "failure-on-consecutive" });
                ctx.violation(&sig, &format!("sort_and_verify_deltas returned {} but the retained deltas are {}consecutive", got, if want { "" } else { "not " }), detail);
            } else if after != retained {
                // the statement does not fix the post-state; recorded only
                ctx.obs("chain_post_state_differs_from_model", 1);
            }
        }
    }
}

pub fn delta_chain(ctx: &mut Ctx) {
    let n = crate::c09_io::budget(ctx, (12_000, 400_000), 8_000, (4, 48));
    let mut rng = ctx.rng("chain");
    let max_len = if ctx.stage == Stage::Miri { 6 } else { 40 };
    for i in 0..n {
        let (class, serials) = gen_serials(&mut rng, max_len);
        for (lname, limit) in limits_for(&mut rng, serials.len()) {
            check_chain(ctx, class, &serials, lname, limit, notif_with(&serials));
        }
        // the same question after a history of calls on the same value: what came before must not
        // matter. After every step the model is re-read from `deltas()`, so nothing is assumed about
        // what a call leaves behind except what the accessor shows.
        if !serials.is_empty() {
            let mut nf = notif_with(&serials);
            let steps = 1 + rng.below(4);
            let mut names: Vec<&'static str> = Vec::new();
            for _ in 0..steps {
                let name = match rng.below(6) {
                    0 | 1 => {
                        nf.sort_deltas();
                        "sort"
                    }
                    2 | 3 => {
                        nf.reverse_sort_deltas();
                        "reverse-sort"
                    }
                    4 => {
                        let _ = catch(|| nf.sort_and_verify_deltas(None));
                        "verify-none"
                    }
                    _ => {
                        nf = nf.clone();
                        "clone"
                    }
                };
                names.push(name);
            }
            let now: Vec<u64> = nf.deltas().iter().map(|d| d.serial()).collect();
            let mut a = now.clone();
            let mut b = serials.clone();
            a.sort_unstable();
            b.sort_unstable();
            if a != b {
                ctx.obs("chain_history_changed_the_multiset", 1);
            }
            let hist = names.join(",");
            // only the kinds of step, not their order, name the evidence class
            let mut kinds = names.clone();
            kinds.sort_unstable();
            kinds.dedup();
            let class_h = format!("{} after [{}]", class, kinds.join(" "));
            for (lname, limit) in limits_for(&mut rng, now.len()).into_iter().take(4) {
                let before = ctx.violation_count();
                check_chain(ctx, &class_h, &now, lname, limit, nf.clone());
                if ctx.violation_count() > before {
                    ctx.obs("chain_violations_after_a_history", 1);
                    ctx.sample("delta-chain-history", || json!({"history": hist, "serials_before": serials.iter().take(24).map(|s| s.to_string()).collect::<Vec<_>>(), "serials_seen_through_deltas()": now.iter().take(24).map(|s| s.to_string()).collect::<Vec<_>>()}));
                }
            }
            ctx.obs("chain_checks_after_a_history", 1);
        }
        if i == 0 {
            ctx.sample("delta-chain", || {
                let (w, r) = model_chain(&serials, Some(2));
                let mut nf = notif_with(&serials);
                let got = catch(|| nf.sort_and_verify_deltas(Some(2)));
                json!({"serials": serials.iter().map(|s| s.to_string()).collect::<Vec<_>>(), "limit": 2, "model_retained": r.iter().map(|s| s.to_string()).collect::<Vec<_>>(), "model": w, "observed": format!("{:?}", got)})
            });
        }
        // a list that `parse_limited` refused as oversized retains nothing
        if i % 16 == 0 && !serials.is_empty() {
            let nf = notif_with(&serials);
            let mut xml = Vec::new();
            if nf.write_xml(&mut xml).is_ok() {
                if let Some(Ok(p)) = ctx.no_panic("NotificationFile::parse_limited", || json!({"deltas": serials.len()}), || NotificationFile::parse_limited(&xml[..], serials.len() - 1)) {
                    if p.delta_status().is_err() {
                        ctx.obs("chain_oversized_lists", 1);
                        check_chain(ctx, "oversized-list", &[], "none", None, p);
                    }
                }
            }
        }
    }
}

//------------ origins -------------------------------------------------------

fn authority_of(uri: &str) -> &str {
    // the scheme is 8 ASCII characters whatever their case
    let rest = &uri[8..];
    match rest.find('/') {
        Some(i) => &rest[..i],
        None => rest,
    }
}

fn eq_ignore_ascii_case_model(a: &str, b: &str) -> bool {
    let lower = |c: u8| if c.is_ascii_uppercase() { c + 32 } else { c };
    a.len() == b.len() && a.bytes().zip(b.bytes()).all(|(x, y)| lower(x) == lower(y))
}

fn vary_authority(rng: &mut Rng, a: &str) -> (&'static str, String) {
    match rng.below(12) {
        0..=3 => ("same", a.to_string()),
        4 | 5 => {
            let s: String = a.chars().map(|c| if rng.bool() { c.to_ascii_uppercase() } else { c.to_ascii_lowercase() }).collect();
            ("case-variant", s)
        }
        6 => ("suffix", format!("{}.evil", a)),
        7 => ("prefix", format!("x{}", a)),
        8 => ("port", format!("{}:443", a)),
        9 => {
            let mut b = a.as_bytes().to_vec();
            let i = rng.usize_below(b.len());
            b[i] = if b[i] == b'z' { b'y' } else { b'z' };
            ("one-char", String::from_utf8(b).unwrap())
        }
        10 => ("truncated", a[..a.len() - 1].to_string()),
        _ => ("unrelated", g::gen_authority(rng)),
    }
}

pub fn origins(ctx: &mut Ctx) {
    let n = crate::c09_io::budget(ctx, (24_000, 600_000), 12_000, (8, 80));
    let mut rng = ctx.rng("origins");
    let mut rejected = 0u64;
    for i in 0..n {
        let auth = g::gen_authority(&mut rng);
        let base = g::gen_https(&mut rng, Some(&auth), false);
        let (sclass, sauth) = vary_authority(&mut rng, &auth);
        let snap = g::gen_https(&mut rng, Some(&sauth), false);
        let nd = rng.below(6) as usize;
        let mut classes = vec![sclass];
        let mut deltas = Vec::new();
        // mostly-matching lists with at most one odd entry are the informative ones
        let odd = if rng.bool() { Some(rng.usize_below(nd.max(1))) } else { None };
        for k in 0..nd {
            let (c, a) = if odd == Some(k) || rng.chance(1, 8) { vary_authority(&mut rng, &auth) } else { ("same", auth.clone()) };
            classes.push(c);
            deltas.push(g::gen_https(&mut rng, Some(&a), false));
        }
        let want = std::iter::once(&snap).chain(deltas.iter()).all(|u| eq_ignore_ascii_case_model(authority_of(u), authority_of(&base)));
        let (b, s) = match (uri::Https::from_string(base.clone()), uri::Https::from_string(snap.clone())) {
            (Ok(b), Ok(s)) => (b, s),
            _ => {
                rejected += 1;
                continue;
            }
        };
        let mut dl = Vec::new();
        for (k, u) in deltas.iter().enumerate() {
            match uri::Https::from_string(u.clone()) {
                Ok(u) => dl.push(DeltaInfo::new(k as u64, u, Hash::from([1u8; 32]))),
                Err(_) => rejected += 1,
            }
        }
        if dl.len() != deltas.len() {
            continue;
        }
        let nf = NotificationFile::new(Uuid::nil(), 1, UriAndHash::new(s, Hash::from([0u8; 32])), dl);
        let detail = || json!({"base": base, "snapshot": snap, "deltas": deltas, "model": want});
        let got = ctx.no_panic("has_matching_origins", detail, || nf.has_matching_origins(&b));
        ctx.eval();
        let mut cs: Vec<&str> = classes.iter().copied().filter(|c| *c != "same").collect();
        cs.sort();
        cs.dedup();
        ctx.sig(&format!("origin deltas={} odd-authorities={:?} expect={}", nd.min(3), cs, want));
        if let Some(got) = got {
            ctx.obs(if got { "origins_reported_matching" } else { "origins_reported_mismatch" }, 1);
            if got != want {
                let sig = format!("C09:has_matching_origins:{}", if got { "true-on-foreign-authority" } else { "false-on-same-authority" });
                ctx.violation(&sig, &format!("has_matching_origins returned {}, model says {}", got, want), detail());
            }
        }
        if i < 3 {
            ctx.sample("origins", || json!({"base": base, "snapshot": snap, "deltas": deltas, "model": want, "observed": got}));
        }
    }
    if rejected > 0 {
        ctx.obs("generator_values_rejected_by_constructors", rejected);
    }
}
