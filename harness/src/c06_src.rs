//! C06 helper: the harness' own payload model and the `PayloadSource` with a
//! history of immutable snapshots.
//!
//! The model (`Data`) is written in plain integers / byte vectors, so that the
//! comparison "client data == source snapshot" does not go through the
//! library's `Eq`/`Ord` implementations.

use bytes::Bytes;
use rpki::crypto::keys::KeyIdentifier;
use rpki::resources::addr::{MaxLenPrefix, Prefix};
use rpki::resources::asn::Asn;
use rpki::rtr::payload::{Action, Aspa, Payload, PayloadRef, RouteOrigin, RouterKey, Timing};
use rpki::rtr::pdu::{ProviderAsns, RouterKeyInfo};
use rpki::rtr::server::{PayloadDiff, PayloadSet, PayloadSource};
use rpki::rtr::state::{Serial, State};
use std::collections::{BTreeMap, BTreeSet, HashMap};
use std::net::{IpAddr, Ipv4Addr, Ipv6Addr};
use std::sync::atomic::{AtomicUsize, Ordering};
use std::sync::{Arc, Mutex};

use crate::core::Rng;

//------------ model ---------------------------------------------------------

/// (is_v6, address bits (v4 in the low 32 bits), prefix length, resolved max length, asn)
pub type OriginK = (bool, u128, u8, u8, u32);
/// (subject key identifier, asn, subject public key info)
pub type KeyK = ([u8; 20], u32, Vec<u8>);

#[derive(Clone, Debug, Default, PartialEq, Eq)]
pub struct Data {
    pub origins: BTreeSet<OriginK>,
    pub keys: BTreeSet<KeyK>,
    /// customer -> providers in transmitted order
    pub aspas: BTreeMap<u32, Vec<u32>>,
}

/// One payload item in model form.
#[derive(Clone, Debug, PartialEq, Eq)]
pub enum Item {
    Origin(OriginK),
    Key(KeyK),
    Aspa(u32, Vec<u32>),
}

impl Data {
    /// Restriction to the payload types protocol version `v` carries
    /// (statement: v0 origins only, v1 + router keys, v2 + ASPA).
    pub fn restrict(&self, v: u8) -> Data {
        Data {
            origins: self.origins.clone(),
            keys: if v >= 1 { self.keys.clone() } else { BTreeSet::new() },
            aspas: if v >= 2 { self.aspas.clone() } else { BTreeMap::new() },
        }
    }

    pub fn len(&self) -> usize {
        self.origins.len() + self.keys.len() + self.aspas.len()
    }

    pub fn is_empty(&self) -> bool {
        self.len() == 0
    }

    /// announce inserts / replaces the ASPA of that customer; withdraw removes.
    /// Returns false when the operation was redundant (duplicate announce /
    /// withdraw of something absent).
    pub fn apply(&mut self, announce: bool, item: &Item) -> bool {
        match (announce, item) {
            (true, Item::Origin(k)) => self.origins.insert(*k),
            (false, Item::Origin(k)) => self.origins.remove(k),
            (true, Item::Key(k)) => self.keys.insert(k.clone()),
            (false, Item::Key(k)) => self.keys.remove(k),
            (true, Item::Aspa(c, p)) => self.aspas.insert(*c, p.clone()).as_ref() != Some(p),
            (false, Item::Aspa(c, _)) => self.aspas.remove(c).is_some(),
        }
    }

    /// Which kinds differ between two data sets, as a stable description
    /// (`missing` = in `want` but not in `self`).
    pub fn diff_classes(&self, want: &Data) -> Vec<&'static str> {
        let mut v = Vec::new();
        if want.origins.difference(&self.origins).next().is_some() {
            v.push("origin-missing");
        }
        if self.origins.difference(&want.origins).next().is_some() {
            v.push("origin-extra");
        }
        if want.keys.difference(&self.keys).next().is_some() {
            v.push("routerkey-missing");
        }
        if self.keys.difference(&want.keys).next().is_some() {
            v.push("routerkey-extra");
        }
        let mut am = false;
        let mut ae = false;
        let mut ad = false;
        for (c, p) in &want.aspas {
            match self.aspas.get(c) {
                None => am = true,
                Some(q) if q != p => ad = true,
                _ => {}
            }
        }
        for c in self.aspas.keys() {
            if !want.aspas.contains_key(c) {
                ae = true;
            }
        }
        if am {
            v.push("aspa-missing");
        }
        if ae {
            v.push("aspa-extra");
        }
        if ad {
            v.push("aspa-providers-differ");
        }
        v
    }

    /// Counts and the first `cap` items of each type (large data sets).
    pub fn render_bounded(&self, cap: usize) -> serde_json::Value {
        let cut = |s: String| if s.len() > 200 { format!("{}...", s.chars().take(200).collect::<String>()) } else { s };
        serde_json::json!({
            "number_of_origins": self.origins.len(),
            "number_of_router_keys": self.keys.len(),
            "number_of_aspas": self.aspas.len(),
            "first_origins": self.origins.iter().take(cap).map(render_origin).collect::<Vec<_>>(),
            "first_router_keys": self.keys.iter().take(cap).map(render_key).collect::<Vec<_>>(),
            "first_aspas": self.aspas.iter().take(cap).map(|(c, p)| cut(format!("AS{} => [{} providers] {:?}", c, p.len(), &p[..p.len().min(12)]))).collect::<Vec<_>>(),
        })
    }

    pub fn render(&self) -> serde_json::Value {
        serde_json::json!({
            "origins": self.origins.iter().map(render_origin).collect::<Vec<_>>(),
            "router_keys": self.keys.iter().map(render_key).collect::<Vec<_>>(),
            "aspas": self.aspas.iter().map(|(c, p)| format!("AS{} => {:?}", c, p)).collect::<Vec<_>>(),
        })
    }
}

pub fn render_origin(k: &OriginK) -> String {
    let (v6, bits, len, maxlen, asn) = *k;
    if v6 {
        format!("{}/{}-{} AS{}", Ipv6Addr::from(bits), len, maxlen, asn)
    } else {
        format!("{}/{}-{} AS{}", Ipv4Addr::from(bits as u32), len, maxlen, asn)
    }
}

pub fn render_key(k: &KeyK) -> String {
    format!("ski={} AS{} spki[{}]={}", crate::core::hex(&k.0[..4]), k.1, k.2.len(), crate::core::hex(&k.2[..k.2.len().min(6)]))
}

pub fn render_item(i: &Item) -> String {
    match i {
        Item::Origin(k) => render_origin(k),
        Item::Key(k) => render_key(k),
        Item::Aspa(c, p) => format!("AS{} => {:?}", c, p),
    }
}

//------------ model <-> library values --------------------------------------

/// Builds the library value for a model item. Origins whose max length equals
/// the prefix length are built without an explicit max length for even ASNs
/// (both forms denote the same payload).
pub fn to_lib(item: &Item) -> Payload {
    match item {
        Item::Origin((v6, bits, len, maxlen, asn)) => {
            let addr = if *v6 { IpAddr::V6(Ipv6Addr::from(*bits)) } else { IpAddr::V4(Ipv4Addr::from(*bits as u32)) };
            let prefix = Prefix::new(addr, *len).expect("harness: origin prefix");
            let ml = if maxlen == len && asn % 2 == 0 { None } else { Some(*maxlen) };
            Payload::Origin(RouteOrigin::new(MaxLenPrefix::new(prefix, ml).expect("harness: max len"), Asn::from_u32(*asn)))
        }
        Item::Key((ski, asn, info)) => Payload::RouterKey(RouterKey::new(
            KeyIdentifier::from(*ski),
            Asn::from_u32(*asn),
            RouterKeyInfo::new(Bytes::copy_from_slice(info)).expect("harness: key info"),
        )),
        Item::Aspa(c, p) => Payload::Aspa(Aspa::new(
            Asn::from_u32(*c),
            ProviderAsns::try_from_iter(p.iter().map(|a| Asn::from_u32(*a))).expect("harness: providers"),
        )),
    }
}

/// Reads a library payload value back into model form through its public
/// accessors only.
pub fn from_lib(p: &Payload) -> Item {
    match p {
        Payload::Origin(o) => {
            let (v6, bits) = match o.prefix.addr() {
                IpAddr::V4(a) => (false, u32::from(a) as u128),
                IpAddr::V6(a) => (true, u128::from(a)),
            };
            Item::Origin((v6, bits, o.prefix.prefix_len(), o.prefix.resolved_max_len(), o.asn.into_u32()))
        }
        Payload::RouterKey(k) => {
            let mut ski = [0u8; 20];
            ski.copy_from_slice(k.key_identifier.as_slice());
            Item::Key((ski, k.asn.into_u32(), k.key_info.as_slice().to_vec()))
        }
        Payload::Aspa(a) => Item::Aspa(a.customer.into_u32(), a.providers.iter().map(|x| x.into_u32()).collect()),
    }
}

//------------ snapshots -----------------------------------------------------

pub type TimingT = (u32, u32, u32);

#[derive(Debug)]
pub struct Snap {
    pub session: u16,
    pub serial: u32,
    pub timing: TimingT,
    pub data: Data,
    /// library values in the order `full()` presents them
    pub items: Arc<Vec<Payload>>,
}

fn all_items(d: &Data) -> Vec<Item> {
    let mut v: Vec<Item> = Vec::with_capacity(d.len());
    v.extend(d.origins.iter().map(|k| Item::Origin(*k)));
    v.extend(d.keys.iter().map(|k| Item::Key(k.clone())));
    v.extend(d.aspas.iter().map(|(c, p)| Item::Aspa(*c, p.clone())));
    v
}

impl Snap {
    pub fn new(session: u16, serial: u32, timing: TimingT, data: Data, rng: &mut Rng) -> Self {
        let mut items = all_items(&data);
        // presentation order: either grouped by type or arbitrary
        if rng.chance(2, 3) {
            rng.shuffle(&mut items);
        }
        let items = items.iter().map(to_lib).collect();
        Snap { session, serial, timing, data, items: Arc::new(items) }
    }
}

/// For which earlier serials of the current session `diff` is offered.
#[derive(Clone, Copy, Debug, PartialEq, Eq)]
pub enum Window {
    Never,
    Last(usize),
    Unbounded,
}

#[derive(Clone, Copy, Debug, PartialEq, Eq)]
pub enum DiffStyle {
    /// set difference old -> current, arbitrary order
    Minimal,
    /// a changed ASPA is sent as withdraw followed by announce
    AspaWithdrawFirst,
    /// concatenation of the per-update differences (items may be announced
    /// and withdrawn again, or re-announced)
    Concatenated,
}

/// Minimal difference `old -> new` as (announce?, item) list.
fn minimal_diff(old: &Data, new: &Data, aspa_wd_with_providers: bool, aspa_withdraw_first: bool, rng: &mut Rng) -> Vec<(bool, Item)> {
    let mut v: Vec<(bool, Item)> = Vec::new();
    for k in old.origins.difference(&new.origins) {
        v.push((false, Item::Origin(*k)));
    }
    for k in new.origins.difference(&old.origins) {
        v.push((true, Item::Origin(*k)));
    }
    for k in old.keys.difference(&new.keys) {
        v.push((false, Item::Key(k.clone())));
    }
    for k in new.keys.difference(&old.keys) {
        v.push((true, Item::Key(k.clone())));
    }
    let wd = |c: u32, p: &Vec<u32>| (false, Item::Aspa(c, if aspa_wd_with_providers { p.clone() } else { Vec::new() }));
    let mut replaced: Vec<(u32, Vec<u32>)> = Vec::new();
    for (c, p) in &old.aspas {
        match new.aspas.get(c) {
            None => v.push(wd(*c, p)),
            Some(q) if q != p => {
                v.push((true, Item::Aspa(*c, q.clone())));
                if aspa_withdraw_first {
                    replaced.push((*c, p.clone()));
                }
            }
            _ => {}
        }
    }
    for (c, p) in &new.aspas {
        if !old.aspas.contains_key(c) {
            v.push((true, Item::Aspa(*c, p.clone())));
        }
    }
    rng.shuffle(&mut v);
    for (c, p) in replaced {
        let pos = v.iter().position(|(a, i)| *a && matches!(i, Item::Aspa(cc, _) if *cc == c)).unwrap();
        let at = rng.usize_below(pos + 1);
        v.insert(at, wd(c, &p));
    }
    v
}

struct Inner {
    cur: Arc<Snap>,
    snaps: HashMap<(u16, u32), Arc<Snap>>,
    /// snapshots of the current session, oldest first, `cur` last
    chain: Vec<Arc<Snap>>,
    window: Window,
    style: DiffStyle,
    aspa_wd_with_providers: bool,
    rng: Rng,
    // per-step observation
    step_states: Vec<(u16, u32)>,
    step_diff_some: u32,
    step_diff_none: u32,
    step_full: u32,
    step_updates_during_response: u32,
    self_check_failures: Vec<String>,
    /// released when the server next asks for `full` or an available `diff`
    armed: Option<Arc<tokio::sync::Notify>>,
    /// the last difference handed to the server during the current step, in
    /// the order it was presented
    last_diff: Option<Arc<Vec<(Payload, Action)>>>,
}

/// The harness' payload source. Cloned into every server connection.
#[derive(Clone)]
pub struct Source {
    inner: Arc<Mutex<Inner>>,
    active: Arc<AtomicUsize>,
}

pub struct StepObs {
    pub states: Vec<(u16, u32)>,
    pub diff_some: u32,
    pub diff_none: u32,
    pub full: u32,
    pub updates_during_response: u32,
}

impl Source {
    pub fn new(first: Snap, window: Window, style: DiffStyle, aspa_wd_with_providers: bool, rng: Rng) -> Self {
        let first = Arc::new(first);
        let mut snaps = HashMap::new();
        snaps.insert((first.session, first.serial), first.clone());
        Source {
            inner: Arc::new(Mutex::new(Inner {
                cur: first.clone(),
                snaps,
                chain: vec![first],
                window,
                style,
                aspa_wd_with_providers,
                rng,
                step_states: Vec::new(),
                step_diff_some: 0,
                step_diff_none: 0,
                step_full: 0,
                step_updates_during_response: 0,
                self_check_failures: Vec::new(),
                armed: None,
                last_diff: None,
            })),
            active: Arc::new(AtomicUsize::new(0)),
        }
    }

    pub fn current(&self) -> Arc<Snap> {
        self.inner.lock().unwrap().cur.clone()
    }

    pub fn lookup(&self, session: u16, serial: u32) -> Option<Arc<Snap>> {
        self.inner.lock().unwrap().snaps.get(&(session, serial)).cloned()
    }

    pub fn knows(&self, session: u16, serial: u32) -> bool {
        self.inner.lock().unwrap().snaps.contains_key(&(session, serial))
    }

    pub fn session_used(&self, session: u16) -> bool {
        self.inner.lock().unwrap().snaps.keys().any(|k| k.0 == session)
    }

    /// Snapshots of the current session, oldest first.
    pub fn chain(&self) -> Vec<Arc<Snap>> {
        self.inner.lock().unwrap().chain.clone()
    }

    /// All snapshots ever reported (any session), unordered.
    pub fn all(&self) -> Vec<Arc<Snap>> {
        let g = self.inner.lock().unwrap();
        let mut v: Vec<Arc<Snap>> = g.snaps.values().cloned().collect();
        v.sort_by_key(|s| (s.session, s.serial));
        v
    }

    pub fn window(&self) -> Window {
        self.inner.lock().unwrap().window
    }

    /// Installs a new current snapshot. `new_session` starts a new chain.
    /// Returns true when a response (`full`/`diff` iterator) was in progress.
    pub fn commit(&self, snap: Snap, new_session: bool) -> bool {
        let during = self.active.load(Ordering::SeqCst) > 0;
        let mut g = self.inner.lock().unwrap();
        let snap = Arc::new(snap);
        g.snaps.insert((snap.session, snap.serial), snap.clone());
        if new_session {
            g.chain.clear();
        }
        g.chain.push(snap.clone());
        g.cur = snap.clone();
        g.step_states.push((snap.session, snap.serial));
        if during {
            g.step_updates_during_response += 1;
        }
        during
    }

    /// Returns a trigger that fires when the server starts its next response
    /// (asks the source for `full` or gets a `diff`).
    pub fn arm(&self) -> Arc<tokio::sync::Notify> {
        let n = Arc::new(tokio::sync::Notify::new());
        self.inner.lock().unwrap().armed = Some(n.clone());
        n
    }

    /// Fires a trigger that is still armed (no response was started).
    pub fn disarm(&self) {
        if let Some(n) = self.inner.lock().unwrap().armed.take() {
            n.notify_one();
        }
    }

    pub fn begin_step(&self) {
        let mut g = self.inner.lock().unwrap();
        let cur = (g.cur.session, g.cur.serial);
        g.step_states.clear();
        g.step_states.push(cur);
        g.step_diff_some = 0;
        g.step_diff_none = 0;
        g.step_full = 0;
        g.step_updates_during_response = 0;
        g.last_diff = None;
    }

    /// The last difference the server was handed since `begin_step`, in the
    /// order it was presented.
    pub fn last_diff(&self) -> Option<Arc<Vec<(Payload, Action)>>> {
        self.inner.lock().unwrap().last_diff.clone()
    }

    pub fn step_obs(&self) -> StepObs {
        let g = self.inner.lock().unwrap();
        StepObs {
            states: g.step_states.clone(),
            diff_some: g.step_diff_some,
            diff_none: g.step_diff_none,
            full: g.step_full,
            updates_during_response: g.step_updates_during_response,
        }
    }

    pub fn self_check_failures(&self) -> Vec<String> {
        self.inner.lock().unwrap().self_check_failures.clone()
    }
}

struct Guard(Arc<AtomicUsize>);

impl Guard {
    fn new(a: &Arc<AtomicUsize>) -> Self {
        a.fetch_add(1, Ordering::SeqCst);
        Guard(a.clone())
    }
}

impl Drop for Guard {
    fn drop(&mut self) {
        self.0.fetch_sub(1, Ordering::SeqCst);
    }
}

pub struct FullSet {
    items: Arc<Vec<Payload>>,
    pos: usize,
    _guard: Guard,
}

impl PayloadSet for FullSet {
    fn next(&mut self) -> Option<PayloadRef<'_>> {
        let r = self.items.get(self.pos).map(|p| p.as_ref());
        self.pos += 1;
        r
    }
}

pub struct DiffIter {
    items: Arc<Vec<(Payload, Action)>>,
    pos: usize,
    _guard: Guard,
}

impl PayloadDiff for DiffIter {
    fn next(&mut self) -> Option<(PayloadRef<'_>, Action)> {
        let r = self.items.get(self.pos).map(|(p, a)| (p.as_ref(), *a));
        self.pos += 1;
        r
    }
}

fn state_of(s: &Snap) -> State {
    State::from_parts(s.session, Serial::from(s.serial))
}

impl PayloadSource for Source {
    type Set = FullSet;
    type Diff = DiffIter;

    fn ready(&self) -> bool {
        true
    }

    fn notify(&self) -> State {
        state_of(&self.inner.lock().unwrap().cur)
    }

    fn full(&self) -> (State, FullSet) {
        let mut g = self.inner.lock().unwrap();
        g.step_full += 1;
        if let Some(n) = g.armed.take() {
            n.notify_one();
        }
        let cur = g.cur.clone();
        (state_of(&cur), FullSet { items: cur.items.clone(), pos: 0, _guard: Guard::new(&self.active) })
    }

    fn diff(&self, state: State) -> Option<(State, DiffIter)> {
        let mut g = self.inner.lock().unwrap();
        let session = state.session();
        let serial = u32::from(state.serial());
        let offered = (|| {
            if session != g.cur.session {
                return None;
            }
            let idx = g.chain.iter().position(|s| s.serial == serial)?;
            let dist = g.chain.len() - 1 - idx;
            match g.window {
                Window::Never => None,
                Window::Last(k) if dist > k => None,
                _ => Some(idx),
            }
        })();
        let idx = match offered {
            Some(i) => i,
            None => {
                g.step_diff_none += 1;
                return None;
            }
        };
        g.step_diff_some += 1;
        if let Some(n) = g.armed.take() {
            n.notify_one();
        }
        let cur = g.cur.clone();
        let style = g.style;
        let wdp = g.aspa_wd_with_providers;
        let chain: Vec<Arc<Snap>> = g.chain[idx..].to_vec();
        let mut list: Vec<(bool, Item)> = Vec::new();
        match style {
            DiffStyle::Minimal | DiffStyle::AspaWithdrawFirst => {
                list = minimal_diff(&chain[0].data, &cur.data, wdp, style == DiffStyle::AspaWithdrawFirst, &mut g.rng);
            }
            DiffStyle::Concatenated => {
                for w in chain.windows(2) {
                    list.extend(minimal_diff(&w[0].data, &w[1].data, wdp, false, &mut g.rng));
                }
            }
        }
        // harness self check: the diff offered must lead from old to current
        let mut d = chain[0].data.clone();
        for (a, i) in &list {
            d.apply(*a, i);
        }
        if d != cur.data {
            g.self_check_failures.push(format!("diff {}:{} -> {}:{} does not lead to the current snapshot", session, serial, cur.session, cur.serial));
        }
        let items: Arc<Vec<(Payload, Action)>> = Arc::new(
            list.iter()
                .map(|(a, i)| (to_lib(i), if *a { Action::Announce } else { Action::Withdraw }))
                .collect(),
        );
        g.last_diff = Some(items.clone());
        Some((state_of(&cur), DiffIter { items, pos: 0, _guard: Guard::new(&self.active) }))
    }

    fn timing(&self) -> Timing {
        let g = self.inner.lock().unwrap();
        Timing { refresh: g.cur.timing.0, retry: g.cur.timing.1, expire: g.cur.timing.2 }
    }
}
