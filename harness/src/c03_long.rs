//! C03, long chains: collections of 13..600 blocks.
//!
//! The statement quantifies over *all* finite block sequences; the base
//! workload (c03.rs / c03_ip.rs) stops at a dozen blocks. Code that picks
//! another algorithm from some length on (bisection instead of a scan, a
//! different merge for large inputs, chunked parsing or writing) is only
//! executed by collections beyond that length. This module generates
//! canonical chains whose lengths cross every power of two from 16 to 512,
//! hands them to the library in every arrangement through the constructors of
//! the base workload, and then asks *every* per-item, per-block and per-set
//! question at *every* block: its first and last element, the elements just
//! outside, an inner element, an element of the gap behind it. Set operations
//! run against operands derived from the chain (one element removed or added
//! at a chosen block, every k-th block, trimmed blocks, the block edges, the
//! gaps, a head, a tail, one spanning block, a perturbed copy). The oracle is
//! the interval-set model throughout.

use crate::c03::{as_builder_multi_call_seq, as_construct, as_pair, as_unary, blocks_json, check_bool, check_set, observe_as, AsCase};
use crate::c03_gen::{Flavour, Seq};
use crate::c03_ip::{builder_multi_call_seq, ip_construct, ip_pair, ip_unary, json_set, lib_block, observe_ip, IpCase};
use crate::core::{Ctx, Rng, Stage, Tier};
use crate::model::IntervalSet;
use rpki::ca::provisioning::RequestResourceLimit;
use rpki::repository::resources::{Addr, Ipv4Blocks, Ipv6Blocks, Prefix, ResourceSet};
use rpki::repository::roa::RoaIpAddress;
use rpki::resources::asn::Asn;
use serde_json::json;

/// Lengths at which an implementation might switch algorithms.
pub const THRESHOLDS: [usize; 6] = [16, 32, 64, 128, 256, 512];

pub fn len_class(n: usize) -> &'static str {
    match n {
        0..=12 => "0..12",
        13..=15 => "13..15",
        16..=31 => "16..31",
        32..=63 => "32..63",
        64..=127 => "64..127",
        128..=255 => "128..255",
        256..=511 => "256..511",
        _ => "512..",
    }
}

/// Number of blocks of the next chain: half below 141, a quarter within one
/// of a power of two, a quarter up to 600.
pub fn pick_len(rng: &mut Rng) -> usize {
    match rng.below(8) {
        0..=3 => 13 + rng.usize_below(128),
        4 | 5 => *rng.pick(&THRESHOLDS) - 1 + rng.usize_below(3),
        _ => 141 + rng.usize_below(460),
    }
}

/// A canonical chain (ascending, disjoint, not adjacent) in element space.
pub struct LongChain {
    pub blocks: Vec<(u128, u128)>,
    pub mode: &'static str,
}

/// Generates a canonical chain of (about) `n` blocks.
///
/// * dense: blocks of 1..32 elements (single elements, short ranges, aligned
///   prefixes) separated by gaps of 1..30 elements, starting at 0, ending
///   near the maximum, straddling the middle of the space, at a boundary
///   value or anywhere;
/// * singles: the same with (mostly) single-element blocks;
/// * spread: blocks between random and boundary-dense points all over the
///   space, some shrunk to one element, a few elements or an aligned prefix.
///
/// In a quarter of the chains each, the first block is stretched down to 0
/// and the last one up to the maximum.
pub fn long_chain(fl: Flavour, rng: &mut Rng, n: usize) -> LongChain {
    let max = fl.max();
    let mut out: Vec<(u128, u128)> = Vec::with_capacity(n);
    let mode = match rng.below(4) {
        0 => "dense",
        1 => "singles",
        _ => "spread",
    };
    if mode != "spread" {
        let singles = mode == "singles";
        let need = n as u128 * 96;
        let base = match rng.below(5) {
            0 => 0,
            1 => max - need,
            2 => fl.endpoint(rng).min(max - need),
            3 => (1u128 << (fl.bits() - 1)) - need / 2,
            _ => (rng.next_u128() & max).min(max - need),
        };
        let mut cur = base;
        for _ in 0..n {
            let (lo, hi) = if singles && !rng.chance(1, 8) {
                (cur, cur)
            } else {
                match rng.below(8) {
                    0 | 1 => (cur, cur),
                    2 => (cur, cur + 1),
                    3 => (cur, cur + 2 + rng.below(3) as u128),
                    4 | 5 => {
                        let size = 1u128 << (1 + rng.below(5));
                        let lo = (cur + size - 1) & !(size - 1);
                        (lo, lo + size - 1)
                    }
                    _ => (cur, cur + rng.below(32) as u128),
                }
            };
            out.push((lo, hi));
            let gap = match rng.below(6) {
                0 | 1 => 1,
                2 => 2,
                3 => 3,
                _ => 1 + rng.below(30) as u128,
            };
            cur = hi + 1 + gap;
        }
    } else {
        let mut pts: Vec<u128> = (0..2 * n + 16).map(|_| if rng.chance(1, 6) { fl.endpoint(rng) } else { rng.next_u128() & max }).collect();
        pts.sort();
        pts.dedup();
        let mut i = 0;
        while i + 1 < pts.len() && out.len() < n {
            let (mut lo, mut hi) = (pts[i], pts[i + 1]);
            i += 2;
            if let Some(&(_, ph)) = out.last() {
                // keep at least one element between two blocks
                if lo <= ph.saturating_add(1) {
                    if hi > ph.saturating_add(2) {
                        lo = ph + 2;
                    } else {
                        continue;
                    }
                }
            }
            match rng.below(6) {
                0 => hi = lo,
                1 => hi = lo + (hi - lo).min(rng.below(4) as u128),
                2 => {
                    // an aligned prefix inside [lo, hi]
                    let span = hi - lo;
                    let kmax = 127 - span.saturating_add(1).leading_zeros();
                    let size = 1u128 << rng.below(kmax as u64 + 1);
                    if let Some(l) = lo.checked_add(size - 1).map(|x| x & !(size - 1)) {
                        if l.checked_add(size - 1).map(|h| h <= hi).unwrap_or(false) {
                            lo = l;
                            hi = l + (size - 1);
                        }
                    }
                }
                _ => {}
            }
            out.push((lo, hi));
        }
    }
    if rng.chance(1, 4) {
        out[0].0 = 0;
    }
    if rng.chance(1, 4) {
        let l = out.len() - 1;
        out[l].1 = max;
    }
    LongChain { blocks: out, mode }
}

/// The chain as a constructor input: sorted, reversed, shuffled, with
/// blocks cut into adjacent / overlapping pieces or repeated (sorted and
/// shuffled), or sorted except for one block that arrives last.
pub fn arrange(rng: &mut Rng, canon: &[(u128, u128)]) -> (Vec<(u128, u128)>, &'static str) {
    let mut v = canon.to_vec();
    let pieces = |rng: &mut Rng, v: &mut Vec<(u128, u128)>| {
        let mut out = Vec::with_capacity(v.len() * 2);
        for &(lo, hi) in v.iter() {
            if !rng.chance(1, 4) {
                out.push((lo, hi));
                continue;
            }
            if hi > lo {
                let m = lo + if hi - lo == u128::MAX { rng.next_u128() } else { rng.next_u128() % (hi - lo) };
                match rng.below(5) {
                    0 => {
                        out.push((lo, m));
                        out.push((m + 1, hi));
                    }
                    1 => {
                        out.push((lo, m + 1));
                        out.push((m, hi));
                    }
                    2 => {
                        out.push((lo, hi));
                        out.push((m + 1, hi));
                    }
                    // two blocks with the same first element: the shorter one first, or last
                    3 => {
                        out.push((lo, m));
                        out.push((lo, hi));
                    }
                    _ => {
                        out.push((lo, hi));
                        out.push((lo, m));
                    }
                }
            } else {
                out.push((lo, hi));
                out.push((lo, hi));
            }
        }
        *v = out;
    };
    let name = match rng.below(8) {
        0 | 1 => "sorted",
        2 => {
            v.reverse();
            "reversed"
        }
        3 => {
            rng.shuffle(&mut v);
            "shuffled"
        }
        4 => {
            pieces(rng, &mut v);
            "sorted-pieces"
        }
        5 => {
            pieces(rng, &mut v);
            rng.shuffle(&mut v);
            "shuffled-pieces"
        }
        6 => {
            // the input stops being sorted at the very end only
            let i = if rng.bool() { 0 } else { rng.usize_below(v.len()) };
            let b = v.remove(i);
            v.push(b);
            "one-late"
        }
        _ => {
            // ... or right at the start
            let i = 1 + rng.usize_below(v.len() - 1);
            v.swap(0, i);
            "one-early"
        }
    };
    (v, name)
}

/// An index worth looking at: the first or last block, a block next to a
/// power of two, or any block.
fn pick_index(rng: &mut Rng, n: usize) -> usize {
    match rng.below(4) {
        0 => 0,
        1 => n - 1,
        2 => {
            let t = *rng.pick(&[8usize, 16, 32, 64, 128, 256, 512]);
            (*rng.pick(&[t - 1, t, t + 1, t / 2])).min(n - 1)
        }
        _ => rng.usize_below(n),
    }
}

/// Second operands derived from a canonical chain (element space).
pub fn variants(fl: Flavour, rng: &mut Rng, canon: &[(u128, u128)]) -> Vec<(&'static str, Vec<(u128, u128)>)> {
    let max = fl.max();
    let n = canon.len();
    let mut all: Vec<(&'static str, Vec<(u128, u128)>)> = Vec::new();
    all.push(("equal", canon.to_vec()));
    let k = 2 + rng.usize_below(6);
    let r = rng.usize_below(k);
    all.push(("every-kth", canon.iter().enumerate().filter(|(i, _)| i % k == r).map(|(_, b)| *b).collect()));
    all.push((
        "trimmed",
        canon
            .iter()
            .map(|&(lo, hi)| {
                if hi > lo {
                    match rng.below(3) {
                        0 => (lo + 1, hi),
                        1 => (lo, hi - 1),
                        _ => {
                            if hi - lo >= 2 {
                                (lo + 1, hi - 1)
                            } else {
                                (lo, lo)
                            }
                        }
                    }
                } else {
                    (lo, hi)
                }
            })
            .collect(),
    ));
    all.push(("edges", canon.iter().flat_map(|&(lo, hi)| [(lo, lo), (hi, hi)]).collect()));
    {
        let i = pick_index(rng, n);
        let (lo, hi) = canon[i];
        let mut v = canon.to_vec();
        if lo == hi {
            v.remove(i);
        } else if rng.bool() {
            v[i] = (lo + 1, hi);
        } else {
            v[i] = (lo, hi - 1);
        }
        all.push(("minus-one", v));
    }
    {
        let i = pick_index(rng, n);
        let (lo, hi) = canon[i];
        let mut v = canon.to_vec();
        if hi < max && (lo == 0 || rng.bool()) {
            v.push((hi + 1, hi + 1));
        } else if lo > 0 {
            v.push((lo - 1, lo - 1));
        }
        all.push(("plus-one", v));
    }
    all.push(("shifted", canon.iter().filter(|b| b.1 < max).map(|&(lo, hi)| (lo + 1, hi + 1)).collect()));
    all.push(("gaps", canon.windows(2).map(|w| (w[0].1 + 1, w[1].0 - 1)).collect()));
    {
        let i = pick_index(rng, n);
        all.push(("head", canon[..=i].to_vec()));
        all.push(("tail", canon[i..].to_vec()));
    }
    {
        let (i, j) = (pick_index(rng, n), pick_index(rng, n));
        let (a, b) = (canon[i.min(j)], canon[i.max(j)]);
        all.push(("span", vec![(a.0 + (a.1 - a.0) / 2, b.0 + (b.1 - b.0) / 2)]));
    }
    {
        // a second long chain interleaved with the first
        let mut v = Vec::with_capacity(n);
        for (i, &(lo, hi)) in canon.iter().enumerate() {
            let next_lo = canon.get(i + 1).map(|b| b.0);
            match rng.below(7) {
                0 => {}
                1 => v.push((lo, hi)),
                2 => {
                    if lo > 0 {
                        v.push((lo - 1, hi))
                    }
                }
                3 => {
                    if hi < max {
                        v.push((lo, hi + 1))
                    }
                }
                4 => {
                    if hi - lo >= 2 {
                        let m = lo + 1 + if hi - lo - 2 == 0 { 0 } else { rng.next_u128() % (hi - lo - 1) };
                        v.push((lo, m - 1));
                        v.push((m + 1, hi));
                    } else {
                        v.push((lo, lo));
                    }
                }
                5 => {
                    // from inside this block into the gap behind it
                    let end = match next_lo {
                        Some(nl) => hi + (nl - hi) / 2,
                        None => hi,
                    };
                    v.push((lo + (hi - lo) / 2, end));
                }
                _ => v.push((hi, hi)),
            }
        }
        all.push(("perturbed", v));
    }
    all
}

/// The chain cut in two at a chosen block: a lower and an upper part that are apart, that
/// touch (the upper part starts right behind the lower one) or that share one element.
pub fn seam(rng: &mut Rng, canon: &[(u128, u128)]) -> (&'static str, Vec<(u128, u128)>, Vec<(u128, u128)>) {
    let n = canon.len();
    let i = pick_index(rng, n).clamp(1, n - 1);
    let lower = canon[..i].to_vec();
    let mut upper = canon[i..].to_vec();
    let end = lower[lower.len() - 1].1;
    let name = match rng.below(3) {
        0 => "apart",
        1 => {
            upper[0].0 = end + 1;
            "touching"
        }
        _ => {
            upper[0].0 = end;
            "sharing-one-element"
        }
    };
    (name, lower, upper)
}

/// The elements probed at block `i` of a canonical chain.
fn probe_points(canon: &[(u128, u128)], i: usize, max: u128) -> Vec<(u128, &'static str)> {
    let (lo, hi) = canon[i];
    let mut v = if lo == hi { vec![(lo, "only-element")] } else { vec![(lo, "block-min"), (hi, "block-max")] };
    if lo > 0 {
        v.push((lo - 1, "below-min"));
    }
    if hi < max {
        v.push((hi + 1, "above-max"));
    }
    if hi - lo >= 2 {
        v.push((lo + (hi - lo) / 2, "inside"));
    }
    if let Some(&(nlo, _)) = canon.get(i + 1) {
        if nlo - hi >= 4 {
            v.push((hi + (nlo - hi) / 2, "gap"));
        }
    }
    v
}

/// Every `stride`-th block, and always the first and the last one.
fn probe_indices(n: usize, stride: usize) -> Vec<usize> {
    let mut v: Vec<usize> = (0..n).step_by(stride.max(1)).collect();
    if v.last() != Some(&(n - 1)) {
        v.push(n - 1);
    }
    v
}

/// AS: every per-item question at every block.
fn as_probe(ctx: &mut Ctx, c: &AsCase, canon: &[(u128, u128)], stride: usize) {
    let fl = Flavour::As;
    let rs = ResourceSet::new(c.set.clone(), Ipv4Blocks::empty(), Ipv6Blocks::empty());
    let cls = len_class(canon.len());
    let mut probes = 0u64;
    let mut seen: std::collections::BTreeSet<&'static str> = Default::default();
    for i in probe_indices(canon.len(), stride) {
        for (p, pos) in probe_points(canon, i, fl.max()) {
            let want = c.model.contains(p);
            let d = || json!({"flavour": "as", "chain": blocks_json(canon), "chain_blocks": canon.len(), "block_index": i, "asn": p.to_string(), "position": pos});
            if let Some(g) = ctx.no_panic("as:contains_asn", d, || c.set.contains_asn(Asn::from_u32(p as u32))) {
                check_bool(ctx, fl, &format!("contains_asn@{}", pos), g, want, d);
            }
            if let Some(g) = ctx.no_panic("resourceset:contains_asn", d, || rs.contains_asn(Asn::from_u32(p as u32))) {
                check_bool(ctx, fl, &format!("resourceset-contains_asn@{}", pos), g, want, d);
            }
            probes += 2;
            seen.insert(pos);
        }
    }
    ctx.obs("long_item_probes_as", probes);
    for pos in seen {
        ctx.sig(&format!("long as item-probe {} len={}", pos, cls));
        ctx.obs(&format!("long_chains_probed_at_{}", pos), 1);
    }
}

/// IP: every per-block question at every block.
fn ip_probe(ctx: &mut Ctx, rng: &mut Rng, c: &IpCase, canon: &[(u128, u128)], stride: usize) {
    let fl = c.fl;
    let name = fl.name();
    let max = fl.max();
    let bits = fl.bits();
    let rs = if fl == Flavour::V4 {
        ResourceSet::new(Default::default(), Ipv4Blocks::from(c.set.clone()), Ipv6Blocks::empty())
    } else {
        ResourceSet::new(Default::default(), Ipv4Blocks::empty(), Ipv6Blocks::from(c.set.clone()))
    };
    let cls = len_class(canon.len());
    let mut probes = 0u64;
    let mut seen: std::collections::BTreeSet<&'static str> = Default::default();
    for i in probe_indices(canon.len(), stride) {
        let (lo, hi) = canon[i];
        // (block, position class)
        let mut blocks: Vec<((u128, u128), &'static str)> = probe_points(canon, i, max).into_iter().map(|(p, pos)| ((p, p), pos)).collect();
        blocks.push(((lo, hi), "whole-block"));
        if lo > 0 {
            blocks.push(((lo - 1, hi), "block-and-one-below"));
        }
        if hi < max {
            blocks.push(((lo, hi + 1), "block-and-one-above"));
        }
        if hi - lo >= 2 {
            blocks.push(((lo + 1, hi - 1), "inner-part"));
        }
        if let Some(&(nlo, nhi)) = canon.get(i + 1) {
            blocks.push(((hi, nlo), "bridge-to-next"));
            blocks.push(((hi + 1, nlo - 1), "whole-gap"));
            blocks.push(((lo, nhi), "this-and-next"));
        }
        for ((x, y), pos) in blocks {
            seen.insert(pos);
            let (ex, ey) = fl.embed(x, y);
            let blk = lib_block(fl, x, y, rng.below(3));
            let d = || json!({"flavour": name, "chain": blocks_json(canon), "chain_blocks": canon.len(), "block_index": i, "block": [x.to_string(), y.to_string()], "position": pos});
            if let Some(g) = ctx.no_panic(&format!("{}:contains_block", name), d, || c.set.contains_block(blk)) {
                check_bool(ctx, fl, &format!("contains_block@{}", pos), g, c.model.contains_range(ex, ey), d);
            }
            if let Some(g) = ctx.no_panic(&format!("{}:intersects_block", name), d, || c.set.intersects_block(blk)) {
                check_bool(ctx, fl, &format!("intersects_block@{}", pos), g, c.model.intersects_range(ex, ey), d);
            }
            probes += 2;
        }
        // ROA prefixes: the host route on every probe point, the largest aligned prefix at the
        // block's first address that stays inside the block, and the one twice as large
        let mut prefixes: Vec<(u128, u32, &'static str)> = probe_points(canon, i, max).into_iter().map(|(p, pos)| (p, bits, pos)).collect();
        let align = if lo == 0 { bits } else { lo.trailing_zeros().min(bits) };
        let width = hi - lo;
        let fit = if width == u128::MAX { 128 } else { 127 - (width + 1).leading_zeros() };
        let host = align.min(fit);
        prefixes.push((lo, bits - host, "largest-prefix-inside"));
        if host < bits && host < align {
            prefixes.push((lo, bits - host - 1, "prefix-twice-as-large"));
        }
        for (p, plen, pos) in prefixes {
            seen.insert(pos);
            let host = bits - plen;
            let span = if host == 0 { 0 } else if host >= 128 { u128::MAX } else { (1u128 << host) - 1 };
            let Some(last) = p.checked_add(span).filter(|e| *e <= max) else { continue };
            let (px, _) = fl.embed(p, p);
            let (_, py) = fl.embed(last, last);
            let roa = RoaIpAddress::new(Prefix::new(Addr::from_bits(px), plen as u8), None);
            let d = || json!({"flavour": name, "chain": blocks_json(canon), "chain_blocks": canon.len(), "block_index": i, "prefix": [p.to_string(), plen], "position": pos});
            let want = c.model.contains_range(px, py);
            if let Some(g) = ctx.no_panic(&format!("{}:contains_roa", name), d, || c.set.contains_roa(&roa)) {
                check_bool(ctx, fl, &format!("contains_roa@{}", pos), g, want, d);
            }
            if let Some(g) = ctx.no_panic("resourceset:contains_roa_address", d, || rs.contains_roa_address(&roa)) {
                check_bool(ctx, fl, &format!("resourceset-contains_roa_address@{}", pos), g, want, d);
            }
            probes += 2;
        }
    }
    ctx.obs(&format!("long_block_probes_{}", name), probes);
    for pos in seen {
        ctx.sig(&format!("long {} block-probe {} len={}", name, pos, cls));
        ctx.obs(&format!("long_chains_probed_at_{}", pos), 1);
    }
}

struct Plan {
    /// how many derived second operands per chain
    variants: usize,
    /// probe every `stride`-th block
    stride: usize,
    unary: bool,
    composite: bool,
}

fn shape(n: usize, mode: &str, arr: &str) -> String {
    format!("long len={} {} {}", len_class(n), mode, arr)
}

fn note_len(ctx: &mut Ctx, fl: Flavour, n: usize) {
    ctx.obs(&format!("long_chains_{}", fl.name()), 1);
    ctx.obs(&format!("long_chains_len_{}", len_class(n)), 1);
    ctx.obs_max("long_chain_blocks", n as u64);
}

/// The second operands of one chain, each built through a constructor of the base workload.
fn pick_variants(fl: Flavour, rng: &mut Rng, canon: &[(u128, u128)], take: usize) -> Vec<(&'static str, Vec<(u128, u128)>)> {
    if take == 0 {
        return Vec::new();
    }
    let mut all = variants(fl, rng, canon);
    // one element more or less is always among them
    let mut keep: Vec<(&'static str, Vec<(u128, u128)>)> = Vec::new();
    let must = if rng.bool() { "minus-one" } else { "plus-one" };
    if let Some(i) = all.iter().position(|v| v.0 == must) {
        keep.push(all.remove(i));
    }
    rng.shuffle(&mut all);
    keep.extend(all.into_iter().take(take.saturating_sub(1)));
    keep
}

fn as_round(ctx: &mut Ctx, rng: &mut Rng, n: usize, plan: &Plan) -> Option<(AsCase, Vec<AsCase>)> {
    let fl = Flavour::As;
    let chain = long_chain(fl, rng, n);
    let canon = chain.blocks;
    if fl.model(&canon).iv.len() != canon.len() {
        ctx.notes.push("harness: long-chain generator produced a non-canonical chain; skipped".into());
        return None;
    }
    let (input, arr) = arrange(rng, &canon);
    let seq = Seq { blocks: input, shape: shape(canon.len(), chain.mode, arr) };
    let a = as_construct(ctx, rng, &seq)?;
    note_len(ctx, fl, canon.len());
    if ctx.wants_sample("long-as-chain") {
        ctx.sample("long-as-chain", || json!({"blocks": canon.len(), "shape": seq.shape, "first": blocks_json(&canon[..3]), "last": blocks_json(&canon[canon.len() - 3..])}));
    }
    as_probe(ctx, &a, &canon, plan.stride);
    if plan.unary {
        as_unary(ctx, &a);
        if rng.chance(1, 4) {
            let (input, arr) = arrange(rng, &canon);
            as_builder_multi_call_seq(ctx, rng, &Seq { blocks: input, shape: shape(canon.len(), chain.mode, arr) });
        }
    }
    let mut bs = Vec::new();
    for (vname, vb) in pick_variants(fl, rng, &canon, plan.variants) {
        let bseq = Seq { blocks: vb, shape: format!("long len={} operand {}", len_class(canon.len()), vname) };
        let Some(b) = as_construct(ctx, rng, &bseq) else { continue };
        ctx.sig(&format!("long as pair operand={} len={}", vname, len_class(canon.len())));
        ctx.obs(&format!("long_pairs_operand_{}", vname), 2);
        as_pair(ctx, &a, &b);
        as_pair(ctx, &b, &a);
        bs.push(b);
    }
    if plan.variants > 0 {
        let (sname, lower, upper) = seam(rng, &canon);
        let cls = len_class(canon.len());
        let l = as_construct(ctx, rng, &Seq { blocks: lower, shape: format!("long len={} lower part, {}", cls, sname) });
        let u = as_construct(ctx, rng, &Seq { blocks: upper, shape: format!("long len={} upper part, {}", cls, sname) });
        if let (Some(l), Some(u)) = (l, u) {
            ctx.sig(&format!("long as pair lower/upper part {} len={}", sname, cls));
            ctx.obs(&format!("long_pairs_parts_{}", sname), 2);
            as_pair(ctx, &l, &u);
            as_pair(ctx, &u, &l);
        }
    }
    Some((a, bs))
}

fn ip_round(ctx: &mut Ctx, rng: &mut Rng, fl: Flavour, n: usize, plan: &Plan) -> Option<(IpCase, Vec<IpCase>)> {
    let chain = long_chain(fl, rng, n);
    let canon = chain.blocks;
    if fl.model(&canon).iv.len() != canon.len() {
        ctx.notes.push("harness: long-chain generator produced a non-canonical chain; skipped".into());
        return None;
    }
    let (input, arr) = arrange(rng, &canon);
    let seq = Seq { blocks: input, shape: shape(canon.len(), chain.mode, arr) };
    let a = ip_construct(ctx, rng, fl, &seq)?;
    note_len(ctx, fl, canon.len());
    let key = format!("long-{}-chain", fl.name());
    if ctx.wants_sample(&key) {
        ctx.sample(&key, || json!({"blocks": canon.len(), "shape": seq.shape, "first": blocks_json(&canon[..3]), "last": blocks_json(&canon[canon.len() - 3..])}));
    }
    ip_probe(ctx, rng, &a, &canon, plan.stride);
    if plan.unary {
        ip_unary(ctx, &a);
        if rng.chance(1, 4) {
            let (input, arr) = arrange(rng, &canon);
            builder_multi_call_seq(ctx, rng, fl, &Seq { blocks: input, shape: shape(canon.len(), chain.mode, arr) });
        }
    }
    let mut bs = Vec::new();
    for (vname, vb) in pick_variants(fl, rng, &canon, plan.variants) {
        let bseq = Seq { blocks: vb, shape: format!("long len={} operand {}", len_class(canon.len()), vname) };
        let Some(b) = ip_construct(ctx, rng, fl, &bseq) else { continue };
        ctx.sig(&format!("long {} pair operand={} len={}", fl.name(), vname, len_class(canon.len())));
        ctx.obs(&format!("long_pairs_operand_{}", vname), 2);
        ip_pair(ctx, rng, &a, &b);
        ip_pair(ctx, rng, &b, &a);
        bs.push(b);
    }
    if plan.variants > 0 {
        let (sname, lower, upper) = seam(rng, &canon);
        let cls = len_class(canon.len());
        let l = ip_construct(ctx, rng, fl, &Seq { blocks: lower, shape: format!("long len={} lower part, {}", cls, sname) });
        let u = ip_construct(ctx, rng, fl, &Seq { blocks: upper, shape: format!("long len={} upper part, {}", cls, sname) });
        if let (Some(l), Some(u)) = (l, u) {
            ctx.sig(&format!("long {} pair lower/upper part {} len={}", fl.name(), sname, cls));
            ctx.obs(&format!("long_pairs_parts_{}", sname), 2);
            ip_pair(ctx, rng, &l, &u);
            ip_pair(ctx, rng, &u, &l);
        }
    }
    Some((a, bs))
}

/// ResourceSet algebra and the resource limit over three long parts.
fn composite(ctx: &mut Ctx, a: (&AsCase, &IpCase, &IpCase), b: (&AsCase, &IpCase, &IpCase)) {
    let mk = |x: (&AsCase, &IpCase, &IpCase)| ResourceSet::new(x.0.set.clone(), Ipv4Blocks::from(x.1.set.clone()), Ipv6Blocks::from(x.2.set.clone()));
    let (r1, r2) = (mk(a), mk(b));
    let (a1, f1, s1) = (&a.0.model, &a.1.model, &a.2.model);
    let (a2, f2, s2) = (&b.0.model, &b.1.model, &b.2.model);
    let d = || json!({"r1": r1.to_string(), "r2": r2.to_string()});
    let comp = |ctx: &mut Ctx, op: &str, r: &ResourceSet, ma: &IntervalSet, m4: &IntervalSet, m6: &IntervalSet| {
        check_set(ctx, Flavour::As, &format!("resourceset-{}", op), &observe_as(r.asn()), ma, || json!({"op": op, "r1": r1.to_string(), "r2": r2.to_string()}));
        check_set(ctx, Flavour::V4, &format!("resourceset-{}", op), &observe_ip(r.ipv4()), m4, || json!({"op": op, "r1": r1.to_string(), "r2": r2.to_string()}));
        check_set(ctx, Flavour::V6, &format!("resourceset-{}", op), &observe_ip(r.ipv6()), m6, || json!({"op": op, "r1": r1.to_string(), "r2": r2.to_string()}));
    };
    ctx.sig(&format!("long resourceset ops len={}/{}/{}", len_class(a1.iv.len()), len_class(f1.iv.len()), len_class(s1.iv.len())));
    ctx.obs("long_resourceset_composites", 1);
    if let Some(u) = ctx.no_panic("resourceset:union", d, || r1.union(&r2)) {
        comp(ctx, "union", &u, &a1.union(a2), &f1.union(f2), &s1.union(s2));
    }
    if let Some(u) = ctx.no_panic("resourceset:intersection", d, || r1.intersection(&r2)) {
        comp(ctx, "intersection", &u, &a1.intersection(a2), &f1.intersection(f2), &s1.intersection(s2));
    }
    for (x, y, want, dir) in [
        (&r1, &r2, a2.is_subset_of(a1) && f2.is_subset_of(f1) && s2.is_subset_of(s1), "r1-contains-r2"),
        (&r2, &r1, a1.is_subset_of(a2) && f1.is_subset_of(f2) && s1.is_subset_of(s2), "r2-contains-r1"),
    ] {
        if let Some(g) = ctx.no_panic("resourceset:contains", d, || x.contains(y)) {
            check_bool(ctx, Flavour::As, "resourceset-contains", g, want, || json!({"direction": dir, "r1": r1.to_string(), "r2": r2.to_string()}));
        }
    }
    if let Some(g) = ctx.no_panic("resourceset:eq", d, || r1 == r2) {
        check_bool(ctx, Flavour::As, "resourceset-eq", g, a1 == a2 && f1 == f2 && s1 == s2, d);
    }
    if let Some(diff) = ctx.no_panic("resourceset:difference", d, || r1.difference(&r2)) {
        ctx.eval();
        let same = a1 == a2 && f1 == f2 && s1 == s2;
        if diff.is_empty() != same {
            ctx.violation("C03:set:resourceset-difference:is_empty-wrong", "ResourceDiff::is_empty disagrees with set equality", d());
        }
        if let Ok(v) = serde_json::to_value(&diff) {
            match (v.get("added").and_then(json_set), v.get("removed").and_then(json_set)) {
                (Some(ad), Some(rm)) => {
                    let want_ad = (a1.difference(a2), f1.difference(f2), s1.difference(s2));
                    let want_rm = (a2.difference(a1), f2.difference(f1), s2.difference(s1));
                    if ad != want_ad || rm != want_rm {
                        ctx.violation("C03:set:resourceset-difference:wrong-set", "ResourceSet::difference differs from the mathematical differences", json!({"r1": r1.to_string(), "r2": r2.to_string(), "diff": v}));
                    }
                }
                _ => ctx.obs("resourcediff_unreadable", 1),
            }
        }
    }
    // the limit: r2's parts where they fit into r1
    let mut limit = RequestResourceLimit::new();
    let mut want = Some((a1.clone(), f1.clone(), s1.clone()));
    limit.with_asn(r2.asn().clone());
    if a2.is_subset_of(a1) {
        if let Some(w) = want.as_mut() {
            w.0 = a2.clone()
        }
    } else {
        want = None
    }
    limit.with_ipv4(r2.ipv4().clone());
    if f2.is_subset_of(f1) {
        if let Some(w) = want.as_mut() {
            w.1 = f2.clone()
        }
    } else {
        want = None
    }
    limit.with_ipv6(r2.ipv6().clone());
    if s2.is_subset_of(s1) {
        if let Some(w) = want.as_mut() {
            w.2 = s2.clone()
        }
    } else {
        want = None
    }
    let ld = || json!({"set": r1.to_string(), "limit": limit.to_string()});
    if let Some(r) = ctx.no_panic("limit:apply_to", ld, || limit.apply_to(&r1)) {
        ctx.eval();
        match (r, want) {
            (Ok(res), Some((wa, w4, w6))) => comp(ctx, "limit-apply_to", &res, &wa, &w4, &w6),
            (Err(_), None) => {}
            (Ok(_), None) => ctx.violation("C03:set:limit-apply_to:accepts-exceeding", "a resource limit exceeding the set was applied", ld()),
            (Err(_), Some(_)) => ctx.violation("C03:set:limit-apply_to:rejects-fitting", "a resource limit inside the set was rejected", ld()),
        }
    }
    ctx.drain_chain_hook(|| json!({"long-composite": d()}));
}

/// The serde forms of long collections through every transport (see c03_serde).
fn long_serde(ctx: &mut Ctx, rng: &mut Rng, a: &AsCase, v4: &IpCase, v6: &IpCase) {
    use crate::c03_serde::{drive, Depth};
    let rs = ResourceSet::new(a.set.clone(), Ipv4Blocks::from(v4.set.clone()), Ipv6Blocks::from(v6.set.clone()));
    match rng.below(4) {
        0 => drive(ctx, rng, &a.set, Depth::Transports),
        1 => drive(ctx, rng, &Ipv4Blocks::from(v4.set.clone()), Depth::Transports),
        2 => drive(ctx, rng, &Ipv6Blocks::from(v6.set.clone()), Depth::Transports),
        _ => drive(ctx, rng, &rs, Depth::Transports),
    }
    ctx.obs("long_serde_subjects", 1);
}

pub fn run_long(ctx: &mut Ctx) {
    let mut rng = ctx.rng("long");
    if ctx.stage == Stage::Miri {
        // one chain just past 32 blocks per shard, flavours in turn; probes on every fourth block
        // and both ends, no second operand (the instrument is about 10^4 times slower)
        let plan = Plan { variants: 0, stride: 4, unary: false, composite: false };
        let n = 32 + rng.usize_below(3);
        match ctx.shard % 3 {
            0 => {
                as_round(ctx, &mut rng, n, &plan);
            }
            1 => {
                ip_round(ctx, &mut rng, Flavour::V4, n, &plan);
            }
            _ => {
                ip_round(ctx, &mut rng, Flavour::V6, n, &plan);
            }
        }
        return;
    }
    let rounds = ctx.stage_budget((640, 24_000), 96, 1, 0);
    let plan = Plan { variants: if ctx.tier == Tier::Thorough { 6 } else { 4 }, stride: 1, unary: true, composite: true };
    for _ in 0..rounds {
        let n = pick_len(&mut rng);
        let a = as_round(ctx, &mut rng, n, &plan);
        let n4 = if rng.bool() { n } else { pick_len(&mut rng) };
        let f = ip_round(ctx, &mut rng, Flavour::V4, n4, &plan);
        let n6 = if rng.bool() { n } else { pick_len(&mut rng) };
        let s = ip_round(ctx, &mut rng, Flavour::V6, n6, &plan);
        if let (Some((a, ab)), Some((f, fb)), Some((s, sb))) = (a, f, s) {
            if plan.composite {
                if let (Some(a2), Some(f2), Some(s2)) = (ab.first(), fb.first(), sb.first()) {
                    composite(ctx, (&a, &f, &s), (a2, f2, s2));
                    composite(ctx, (a2, f2, s2), (&a, &f, &s));
                }
            }
            long_serde(ctx, &mut rng, &a, &f, &s);
        }
    }
}
