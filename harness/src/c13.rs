//! C13 — stub (monitor not built yet).
use crate::core::Ctx;

pub fn run(ctx: &mut Ctx) {
    ctx.notes.push("C13: monitor not built yet".into());
}
