//! C13 — prefixes, max-length prefixes and AS-number sets obey their value
//! laws.
//!
//! Oracle: a prefix is modelled here as (family, network bits, length) with
//! its address range computed by integer arithmetic in the family's own
//! width; `covers` is range inclusion on that model; the order is judged by
//! the order *laws* (antisymmetry, transitivity, Equal <=> ==, equal => equal
//! hash, more specific before covering), not by a re-implementation; AS sets
//! are judged against `BTreeSet<u32>`.

use crate::core::{Ctx, Rng, Stage, Tier};
use rpki::resources::addr::{MaxLenPrefix, Prefix};
use rpki::resources::asn::{Asn, SmallAsnSet};
use rpki::rtr::payload::RouteOrigin;
use serde_json::{json, Value};
use std::cmp::Ordering;
use std::collections::{BTreeSet, HashSet};
use std::hash::Hash;
use std::net::{IpAddr, Ipv4Addr, Ipv6Addr};
use std::str::FromStr;

//------------ model ----------------------------------------------------------

/// Model prefix. `bits` is the address as an integer of the family's width
/// (32 or 128 bits), host bits zero.
#[derive(Clone, Copy, Debug, PartialEq, Eq, Hash, PartialOrd, Ord)]
struct MP {
    v6: bool,
    bits: u128,
    len: u8,
}

fn fam_max(v6: bool) -> u8 {
    if v6 { 128 } else { 32 }
}

fn full(v6: bool) -> u128 {
    if v6 { u128::MAX } else { 0xFFFF_FFFF }
}

/// The bits a prefix of `len` leaves to hosts.
fn host_mask(v6: bool, len: u8) -> u128 {
    let w = fam_max(v6);
    if len >= w {
        0
    } else {
        // len < w <= 128, so the shift is in range; for v4 the value is a 32-bit quantity
        full(v6) >> len
    }
}

impl MP {
    fn new_masked(v6: bool, addr: u128, len: u8) -> MP {
        MP { v6, bits: addr & !host_mask(v6, len) & full(v6), len }
    }
    fn min(&self) -> u128 {
        self.bits
    }
    fn max(&self) -> u128 {
        self.bits | host_mask(self.v6, self.len)
    }
    fn covers(&self, o: &MP) -> bool {
        self.v6 == o.v6 && self.min() <= o.min() && o.max() <= self.max()
    }
    fn addr(&self) -> IpAddr {
        to_addr(self.v6, self.bits)
    }
    fn text(&self) -> String {
        format!("{}/{}", self.addr(), self.len)
    }
}

fn to_addr(v6: bool, bits: u128) -> IpAddr {
    if v6 {
        IpAddr::V6(Ipv6Addr::from(bits))
    } else {
        IpAddr::V4(Ipv4Addr::from(bits as u32))
    }
}

fn from_addr(a: IpAddr) -> (bool, u128) {
    match a {
        IpAddr::V4(a) => (false, u32::from(a) as u128),
        IpAddr::V6(a) => (true, u128::from(a)),
    }
}

fn hash_of<T: Hash>(t: &T) -> u64 {
    // SipHash and a word-at-a-time hasher (sensitive to the sequence of write calls)
    crate::core::hash2_of(t)
}

/// Does the library value denote the model value?
fn denotes(p: Prefix, m: &MP) -> bool {
    p.is_v4() == !m.v6 && p.is_v6() == m.v6 && p.len() == m.len && from_addr(p.addr()) == (m.v6, m.bits)
}

fn len_class(v6: bool, len: u8) -> &'static str {
    let w = fam_max(v6);
    if len == 0 {
        "0"
    } else if len == 1 {
        "1"
    } else if len == w {
        "max"
    } else if len + 1 == w {
        "max-1"
    } else if len % 8 == 0 {
        "octet"
    } else if len % 8 == 7 || len % 8 == 1 {
        "octet±1"
    } else {
        "mid"
    }
}

fn nesting(a: &MP, b: &MP) -> &'static str {
    if a.v6 != b.v6 {
        "other-family"
    } else if a == b {
        "equal"
    } else if a.covers(b) {
        "a-covers-b"
    } else if b.covers(a) {
        "b-covers-a"
    } else {
        "disjoint"
    }
}

fn pair_sig(law: &str, a: &MP, b: &MP) -> String {
    format!(
        "{law} {}{} len:{} nest:{} la={} lb={}",
        if a.v6 { 6 } else { 4 },
        if b.v6 { 6 } else { 4 },
        match a.len.cmp(&b.len) {
            Ordering::Less => "<",
            Ordering::Equal => "=",
            Ordering::Greater => ">",
        },
        nesting(a, b),
        len_class(a.v6, a.len),
        len_class(b.v6, b.len),
    )
}

//------------ address pools --------------------------------------------------

fn v4_pool(rng: &mut Rng, extra: usize) -> Vec<u32> {
    let mut v = vec![
        0x0000_0000, 0xFFFF_FFFF, 0x8000_0000, 0x7FFF_FFFF, 0x0000_0001, 0xFFFF_FFFE, 0x0A00_0000, 0x0AFF_FFFF,
        0xC0A8_0101, 0x0102_0304, 0xAAAA_AAAA, 0x5555_5555, 0x0100_0000, 0x00FF_FFFF, 0x8000_0001, 0xC000_0200,
    ];
    for _ in 0..extra {
        v.push(rng.next_u32());
    }
    v
}

fn v6_pool(rng: &mut Rng, extra: usize) -> Vec<u128> {
    let mut v = vec![
        0,
        u128::MAX,
        1 << 127,
        (1 << 127) - 1,
        1,
        u128::MAX - 1,
        0x2001_0db8_0000_0000_0000_0000_0000_0000,
        0x2001_0db8_ffff_ffff_ffff_ffff_ffff_ffff,
        0x0000_0000_0000_0000_0000_ffff_0000_0000, // ::ffff:0:0 (v4-mapped)
        0x0000_0000_0000_0000_0000_ffff_c000_0201,
        0xAAAA_AAAA_AAAA_AAAA_AAAA_AAAA_AAAA_AAAA,
        0x5555_5555_5555_5555_5555_5555_5555_5555,
        1 << 64,
        (1 << 64) - 1,
        1 << 63,
        0xffff_ffff_ffff_ffff_0000_0000_0000_0000,
        0x0000_0000_ffff_ffff_ffff_ffff_0000_0000,
        0xfe80_0000_0000_0000_0000_0000_0000_0001,
    ];
    for _ in 0..extra {
        v.push(rng.next_u128());
    }
    v
}

//------------ findings -------------------------------------------------------

#[derive(Default)]
struct Findings(Vec<(String, String, Value)>);

impl Findings {
    fn push(&mut self, sig: &str, desc: String, detail: Value) {
        if self.0.len() < 256 {
            self.0.push((sig.to_string(), desc, detail));
        }
    }
    fn flush(self, ctx: &mut Ctx) {
        for (s, d, v) in self.0 {
            ctx.violation(&s, &d, v);
        }
    }
}

//------------ 1. constructors ------------------------------------------------

struct CtorStats {
    evals: u64,
    strict_ok: u64,
    strict_err: u64,
    relaxed_ok: u64,
    relaxed_err: u64,
    valid_rejected: u64,
    text_roundtrips: u64,
}

/// All constructors for one (family, address, length).
fn check_ctor(v6: bool, addr: u128, len: u8, with_text: bool, st: &mut CtorStats, f: &mut Findings) {
    let ip = to_addr(v6, addr);
    let in_range = len <= fam_max(v6);
    let host_zero = addr & host_mask(v6, len) == 0;
    let d = || json!({"addr": ip.to_string(), "len": len});
    let fam = if v6 { "v6" } else { "v4" };
    // strict: new() and the per-family function
    let strict = [
        Prefix::new(ip, len),
        match ip {
            IpAddr::V4(a) => Prefix::new_v4(a, len),
            IpAddr::V6(a) => Prefix::new_v6(a, len),
        },
    ];
    for r in strict.iter() {
        st.evals += 1;
        match r {
            Ok(p) => {
                st.strict_ok += 1;
                if !in_range {
                    f.push(&format!("C13:prefix-new-{fam}:length-beyond-family"), format!("Prefix::new accepted length {len}"), d());
                } else if !host_zero {
                    f.push(&format!("C13:prefix-new-{fam}:nonzero-host-bits-accepted"), "strict constructor accepted an address with host bits set".into(), d());
                } else if !denotes(*p, &MP { v6, bits: addr, len }) {
                    f.push(
                        &format!("C13:prefix-new-{fam}:value-differs"),
                        format!("constructed value reports {}/{} v4={}", p.addr(), p.len(), p.is_v4()),
                        d(),
                    );
                }
            }
            Err(_) => {
                st.strict_err += 1;
                if in_range && host_zero {
                    // the statement does not oblige acceptance; recorded only (the text
                    // round trip below does demand that displayed values parse back)
                    st.valid_rejected += 1;
                }
            }
        }
    }
    if strict[0].is_ok() && strict[1].is_ok() && strict[0] != strict[1] {
        f.push(&format!("C13:prefix-new-{fam}:new-vs-family-constructor"), "Prefix::new and new_v4/new_v6 construct different values".into(), d());
    }
    // relaxed
    let relaxed = [
        Prefix::new_relaxed(ip, len),
        match ip {
            IpAddr::V4(a) => Prefix::new_v4_relaxed(a, len),
            IpAddr::V6(a) => Prefix::new_v6_relaxed(a, len),
        },
    ];
    let want = MP::new_masked(v6, addr, len.min(fam_max(v6)));
    for r in relaxed.iter() {
        st.evals += 1;
        match r {
            Ok(p) => {
                st.relaxed_ok += 1;
                if !in_range {
                    f.push(&format!("C13:prefix-relaxed-{fam}:length-beyond-family"), format!("relaxed constructor accepted length {len}"), d());
                } else if !denotes(*p, &want) {
                    f.push(
                        &format!("C13:prefix-relaxed-{fam}:host-bits-not-cleared"),
                        format!("relaxed constructor produced {}/{} instead of {}", p.addr(), p.len(), want.text()),
                        d(),
                    );
                }
            }
            Err(_) => {
                st.relaxed_err += 1;
                if in_range {
                    st.valid_rejected += 1;
                }
            }
        }
    }
    if relaxed[0].is_ok() && relaxed[1].is_ok() && relaxed[0] != relaxed[1] {
        f.push(&format!("C13:prefix-relaxed-{fam}:new-vs-family-constructor"), "Prefix::new_relaxed and new_v4_relaxed/new_v6_relaxed construct different values".into(), d());
    }
    // strict and relaxed agree on addresses without host bits
    if let (Ok(s), Ok(r)) = (&strict[0], &relaxed[0]) {
        if s != r || hash_of(s) != hash_of(r) || s.cmp(r) != Ordering::Equal {
            f.push(&format!("C13:prefix-new-{fam}:strict-vs-relaxed"), "strict and relaxed construction of a host-free address differ".into(), d());
        }
    }
    // text round trips
    if with_text {
        if let Ok(p) = &relaxed[0] {
            st.evals += 1;
            st.text_roundtrips += 1;
            let text = p.to_string();
            match Prefix::from_str(&text) {
                Ok(q) if q == *p && hash_of(&q) == hash_of(p) && denotes(q, &want) => {}
                other => f.push(
                    &format!("C13:prefix-text-roundtrip-{fam}"),
                    format!("Display gives {text:?}, which parses back to {other:?}"),
                    d(),
                ),
            }
            // relaxed text parser on the original (possibly host-bit carrying) address
            st.evals += 1;
            let raw = format!("{ip}/{len}");
            match Prefix::from_str_relaxed(&raw) {
                Ok(q) if q == *p => {}
                Ok(q) => f.push(
                    &format!("C13:prefix-text-relaxed-{fam}"),
                    format!("from_str_relaxed({raw:?}) = {q}, relaxed construction gives {p}"),
                    d(),
                ),
                Err(_) => st.valid_rejected += 1,
            }
            // the strict text parser must not accept host bits either
            if !host_zero {
                st.evals += 1;
                if let Ok(q) = Prefix::from_str(&raw) {
                    f.push(&format!("C13:prefix-text-{fam}:nonzero-host-bits-accepted"), format!("from_str({raw:?}) = {q}"), d());
                }
            }
        } else if !in_range {
            st.evals += 1;
            let raw = format!("{ip}/{len}");
            if let Ok(q) = Prefix::from_str(&raw) {
                f.push(&format!("C13:prefix-text-{fam}:length-beyond-family"), format!("from_str({raw:?}) = {q}"), d());
            }
            if let Ok(q) = Prefix::from_str_relaxed(&raw) {
                f.push(&format!("C13:prefix-text-{fam}:length-beyond-family"), format!("from_str_relaxed({raw:?}) = {q}"), d());
            }
        }
    }
}

//------------ 2. domain for pair / triple laws --------------------------------

struct DomEntry {
    m: MP,
    p: Prefix,
    hash: u64,
}

const BOUNDARY_LENS_V6: [u8; 24] = [0, 1, 2, 7, 8, 9, 15, 16, 17, 31, 32, 33, 47, 48, 63, 64, 65, 95, 96, 97, 119, 126, 127, 128];

/// Boundary-dense domain: chains /0../max through several addresses plus the
/// sibling (last network bit flipped) of every chain element.
fn build_domain(size: u8, rejected: &mut u64) -> Vec<DomEntry> {
    // size: 0 = Miri (~40), 1 = quick, 2 = thorough
    let v4_addrs: &[u32] = match size {
        0 => &[0xAAAA_AAAA],
        1 => &[0x0000_0000, 0xFFFF_FFFF, 0xAAAA_AAAA],
        _ => &[0x0000_0000, 0xFFFF_FFFF, 0xAAAA_AAAA, 0x5555_5555, 0x0A0B_0C0D, 0x8000_0001],
    };
    let v6_full: &[u128] = match size {
        0 => &[],
        1 => &[0xAAAA_AAAA_AAAA_AAAA_AAAA_AAAA_AAAA_AAAA],
        _ => &[0xAAAA_AAAA_AAAA_AAAA_AAAA_AAAA_AAAA_AAAA, u128::MAX],
    };
    let v6_boundary: &[u128] = match size {
        0 => &[0x5555_5555_5555_5555_5555_5555_5555_5555],
        1 => &[0, u128::MAX, 0x5555_5555_5555_5555_5555_5555_5555_5555],
        _ => &[
            0,
            0x5555_5555_5555_5555_5555_5555_5555_5555,
            0x2001_0db8_8000_0001_ffff_0000_1234_5678,
            0x0000_0000_0000_0000_0000_ffff_c000_0201,
            0x8000_0000_0000_0000_8000_0000_0000_0001,
        ],
    };
    let v4_lens: Vec<u8> = match size {
        0 => vec![0, 1, 7, 8, 9, 16, 24, 31, 32],
        _ => (0..=32).collect(),
    };
    let v6_blens: Vec<u8> = match size {
        0 => vec![0, 1, 8, 63, 64, 65, 127, 128],
        _ => BOUNDARY_LENS_V6.to_vec(),
    };
    let mut set: BTreeSet<MP> = BTreeSet::new();
    let mut add = |v6: bool, addr: u128, len: u8, sibling: bool| {
        let m = MP::new_masked(v6, addr, len);
        set.insert(m);
        if sibling && len > 0 {
            let bit = 1u128 << (fam_max(v6) - len);
            set.insert(MP { v6, bits: m.bits ^ bit, len });
        }
    };
    for &a in v4_addrs {
        for &l in &v4_lens {
            add(false, a as u128, l, true);
        }
    }
    for &a in v6_full {
        for l in 0..=128u8 {
            add(true, a, l, size == 2 && BOUNDARY_LENS_V6.contains(&l));
        }
    }
    for &a in v6_boundary {
        for &l in &v6_blens {
            add(true, a, l, true);
        }
    }
    let mut out = Vec::new();
    for m in set {
        match Prefix::new(m.addr(), m.len) {
            Ok(p) => out.push(DomEntry { m, p, hash: hash_of(&p) }),
            Err(_) => *rejected += 1,
        }
    }
    out
}

fn ord_i8(o: Ordering) -> i8 {
    match o {
        Ordering::Less => -1,
        Ordering::Equal => 0,
        Ordering::Greater => 1,
    }
}

/// Checks the total-order laws on a matrix `cmp[i*n+j]` for rows i with
/// `mine(i)`. `name(i)` renders an element. Returns the number of triples.
fn transitivity(
    n: usize,
    cmp: &[i8],
    mine: impl Fn(usize) -> bool,
    sig: &str,
    name: impl Fn(usize) -> String,
    f: &mut Findings,
) -> u64 {
    let mut triples = 0u64;
    for i in 0..n {
        if !mine(i) {
            continue;
        }
        for j in 0..n {
            let ab = cmp[i * n + j];
            for k in 0..n {
                let bc = cmp[j * n + k];
                let ac = cmp[i * n + k];
                // a<=b and b<=c  =>  a<=c, strictly if one of them is strict
                let bad = if ab <= 0 && bc <= 0 {
                    if ab < 0 || bc < 0 { ac >= 0 } else { ac != 0 }
                } else {
                    false
                };
                if bad {
                    f.push(sig, format!("cmp(a,b)={ab}, cmp(b,c)={bc} but cmp(a,c)={ac}"), json!({"a": name(i), "b": name(j), "c": name(k)}));
                }
            }
            triples += n as u64;
        }
    }
    triples
}

//------------ the monitor ----------------------------------------------------

pub fn run(ctx: &mut Ctx) {
    // values made by serde and by Arbitrary obey the same laws as constructed ones
    crate::c13_any::run(ctx);
    let size: u8 = match (ctx.stage, ctx.tier) {
        (Stage::Miri, _) => 0,
        (Stage::Native, Tier::Thorough) => 2,
        _ => 1,
    };
    let mut evals: u64 = 0;

    //---- 1. constructors for every length 0..=255 ---------------------------
    {
        let mut rng = ctx.rng("ctor");
        let extra = match ctx.stage {
            Stage::Miri => 0,
            Stage::Native if ctx.tier == Tier::Thorough => 400,
            Stage::Native => 60,
            _ => 20,
        };
        let p4 = v4_pool(&mut rng, extra);
        let p6 = v6_pool(&mut rng, extra);
        let mut st = CtorStats { evals: 0, strict_ok: 0, strict_err: 0, relaxed_ok: 0, relaxed_err: 0, valid_rejected: 0, text_roundtrips: 0 };
        let mut idx: u64 = 0;
        let miri = ctx.is_miri();
        for (v6, addrs) in [(false, p4.iter().map(|a| *a as u128).collect::<Vec<_>>()), (true, p6.clone())] {
            for (ai, &a) in addrs.iter().enumerate() {
                // Miri: one address per family (the alternating bit pattern), four more in the thorough tier
                if miri && ai != 10 && !(ctx.tier == Tier::Thorough && ai % 5 == 0) {
                    continue;
                }
                idx += 1;
                if !ctx.mine(idx) {
                    continue;
                }
                let res = ctx.no_panic("prefix-constructors", || json!({"addr": to_addr(v6, a).to_string()}), || {
                    let mut f = Findings::default();
                    let mut local = CtorStats { evals: 0, strict_ok: 0, strict_err: 0, relaxed_ok: 0, relaxed_err: 0, valid_rejected: 0, text_roundtrips: 0 };
                    for len in 0..=255u8 {
                        // under Miri text formatting is the expensive part: only boundary lengths get it
                        let with_text = !miri || len <= 2 || (30..=34).contains(&len) || (126..=130).contains(&len) || len == 255 || len == 64;
                        // the address as given, and the address with its host bits removed (strict accepts)
                        check_ctor(v6, a, len, with_text, &mut local, &mut f);
                        if len <= fam_max(v6) {
                            check_ctor(v6, a & !host_mask(v6, len), len, with_text, &mut local, &mut f);
                            // exactly one host bit set, the highest and the lowest one
                            if len < fam_max(v6) {
                                let base = a & !host_mask(v6, len);
                                check_ctor(v6, base | 1, len, false, &mut local, &mut f);
                                check_ctor(v6, base | (1u128 << (fam_max(v6) - len - 1)), len, false, &mut local, &mut f);
                            }
                        }
                    }
                    (f, local)
                });
                if let Some((f, l)) = res {
                    st.evals += l.evals;
                    st.strict_ok += l.strict_ok;
                    st.strict_err += l.strict_err;
                    st.relaxed_ok += l.relaxed_ok;
                    st.relaxed_err += l.relaxed_err;
                    st.valid_rejected += l.valid_rejected;
                    st.text_roundtrips += l.text_roundtrips;
                    f.flush(ctx);
                }
                for cls in ["0", "1", "mid", "octet", "max-1", "max", "beyond"] {
                    ctx.sig(&format!("ctor {} len-class={cls} host-bits=zero|low|high|as-given strict+relaxed+text", if v6 { "v6" } else { "v4" }));
                }
            }
        }
        evals += st.evals;
        ctx.obs("prefix_strict_accepted", st.strict_ok);
        ctx.obs("prefix_strict_rejected", st.strict_err);
        ctx.obs("prefix_relaxed_accepted", st.relaxed_ok);
        ctx.obs("prefix_relaxed_rejected", st.relaxed_err);
        ctx.obs("prefix_text_roundtrips", st.text_roundtrips);
        ctx.obs("valid_input_rejected", st.valid_rejected);
        if st.valid_rejected > 0 {
            ctx.notes.push("a constructor rejected an input with length in range (and zero host bits for strict); the statement does not oblige acceptance, recorded only".into());
        }
        if ctx.shard == 0 {
            ctx.sample("constructor", || {
                let a = Ipv4Addr::new(10, 1, 2, 3);
                json!({
                    "addr": "10.1.2.3", "len": 16,
                    "strict": format!("{:?}", Prefix::new_v4(a, 16).map(|p| p.to_string())),
                    "relaxed": format!("{:?}", Prefix::new_v4_relaxed(a, 16).map(|p| p.to_string())),
                    "len_33": format!("{:?}", Prefix::new_v4_relaxed(a, 33).map(|p| p.to_string())),
                })
            });
        }
    }

    //---- 2. covers / order on the boundary-dense domain ----------------------
    let mut rejected = 0u64;
    let dom = build_domain(size, &mut rejected);
    let n = dom.len();
    ctx.obs_max("prefix_domain", n as u64);
    if rejected > 0 {
        ctx.obs("domain_members_rejected", rejected);
        ctx.notes.push("some host-free domain prefixes were rejected by Prefix::new and are missing from the pair/triple domain".into());
    }
    {
        // full comparison matrix (every shard needs it for the triples; n^2 is small)
        let mut cmp = vec![0i8; n * n];
        let (shard, nshards) = (ctx.shard as usize, ctx.nshards.max(1) as usize);
        let miri = ctx.is_miri();
        let res = ctx.no_panic("prefix-pairs", || json!({"domain": n}), || {
            let mut f = Findings::default();
            let mut sigs: HashSet<String> = HashSet::new();
            let mut cover_pairs = 0u64;
            let mut pairs = 0u64;
            for i in 0..n {
                for j in 0..n {
                    let (a, b) = (&dom[i], &dom[j]);
                    let c = a.p.cmp(&b.p);
                    cmp[i * n + j] = ord_i8(c);
                    // every shard needs the whole matrix for its triples, but judges only its own rows
                    if i % nshards != shard {
                        continue;
                    }
                    pairs += 1;
                    let d = || json!({"a": a.m.text(), "b": b.m.text()});
                    // covers <=> range inclusion
                    let cov = a.p.covers(b.p);
                    let want = a.m.covers(&b.m);
                    if cov != want {
                        f.push(
                            if want { "C13:covers-misses-included-range" } else { "C13:covers-claims-excluded-range" },
                            format!("a.covers(b) = {cov}, range inclusion says {want}"),
                            d(),
                        );
                    }
                    if want {
                        cover_pairs += 1;
                    }
                    // order consistent with equality and hashing
                    let eq = a.p == b.p;
                    if eq != (a.m == b.m) {
                        f.push("C13:prefix-eq-vs-model", format!("(a == b) = {eq}"), d());
                    }
                    if (c == Ordering::Equal) != eq {
                        f.push("C13:prefix-cmp-equal-vs-eq", format!("cmp = {c:?} but (a == b) = {eq}"), d());
                    }
                    if eq && a.hash != b.hash {
                        f.push("C13:prefix-eq-hash", "equal prefixes hash differently".into(), d());
                    }
                    if a.p.partial_cmp(&b.p) != Some(c) || (a.p < b.p) != (c == Ordering::Less) || (a.p > b.p) != (c == Ordering::Greater) {
                        f.push("C13:prefix-partial_cmp-vs-cmp", "partial_cmp / operators disagree with cmp".into(), d());
                    }
                    // more specific before any prefix covering it
                    if want && a.m != b.m && c != Ordering::Greater {
                        f.push("C13:prefix-order-covering-not-after-more-specific", format!("a covers b but cmp(a,b) = {c:?}"), d());
                    }
                    if (i % 7 == 0 && !miri) || want {
                        sigs.insert(pair_sig("covers+cmp", &a.m, &b.m));
                    }
                }
            }
            // antisymmetry
            for i in 0..n {
                for j in 0..n {
                    if cmp[i * n + j] != -cmp[j * n + i] {
                        f.push("C13:prefix-order-not-antisymmetric", format!("cmp(a,b) = {}, cmp(b,a) = {}", cmp[i * n + j], cmp[j * n + i]),
                            json!({"a": dom[i].m.text(), "b": dom[j].m.text()}));
                    }
                }
            }
            (f, sigs, cover_pairs, pairs)
        });
        if let Some((f, sigs, cover_pairs, pairs)) = res {
            evals += 2 * pairs;
            ctx.obs("prefix_pairs", pairs);
            ctx.obs("prefix_covering_pairs", cover_pairs);
            for s in sigs {
                ctx.sig(&s);
            }
            f.flush(ctx);
        }
        // all triples, rows split across shards
        let mut f = Findings::default();
        let triples = transitivity(n, &cmp, |i| i % nshards == shard, "C13:prefix-order-not-transitive", |i| dom[i].m.text(), &mut f);
        evals += triples;
        ctx.obs("prefix_triples", triples);
        f.flush(ctx);
        ctx.sig("transitivity all triples of the prefix domain");
        // the sorted domain puts every prefix after all the prefixes it covers
        if ctx.shard == 0 {
            let mut sorted: Vec<usize> = (0..n).collect();
            sorted.sort_by(|&i, &j| dom[i].p.cmp(&dom[j].p));
            let mut f = Findings::default();
            for (pos, &i) in sorted.iter().enumerate() {
                for &j in &sorted[pos + 1..] {
                    if dom[i].m.covers(&dom[j].m) && dom[i].m != dom[j].m {
                        f.push("C13:prefix-order-covering-not-after-more-specific", "sorting places a covering prefix before a more specific one".into(),
                            json!({"covering": dom[i].m.text(), "more_specific": dom[j].m.text()}));
                    }
                }
            }
            evals += n as u64;
            f.flush(ctx);
            let v4_first = sorted.iter().position(|&i| dom[i].m.v6).map(|p| sorted[p..].iter().all(|&i| dom[i].m.v6)).unwrap_or(true);
            ctx.obs("sorted_domain_v4_before_v6", v4_first as u64);
            ctx.sample("sorted domain (first, middle, last)", || json!([
                dom[sorted[0]].p.to_string(), dom[sorted[n / 2]].p.to_string(), dom[sorted[n - 1]].p.to_string()
            ]));
            ctx.sample("covers", || {
                let a = Prefix::from_str("10.0.0.0/8").unwrap();
                let b = Prefix::from_str("10.128.0.0/9").unwrap();
                json!({"a": "10.0.0.0/8", "b": "10.128.0.0/9", "a_covers_b": a.covers(b), "b_covers_a": b.covers(a), "cmp_a_b": format!("{:?}", a.cmp(&b))})
            });
        }
    }

    //---- 3. random families of related prefixes ------------------------------
    {
        let mut rng = ctx.rng("families");
        let nfam = ctx.stage_budget((240_000, 8_000_000), 20_000, 4, 0);
        let mut fam_evals = 0u64;
        let res = ctx.no_panic("prefix-families", || json!({"families": nfam}), || {
            let mut f = Findings::default();
            let mut sigs: HashSet<String> = HashSet::new();
            for fi in 0..nfam {
                let v6 = rng.bool();
                let w = fam_max(v6);
                let addr = if v6 { rng.next_u128() } else { rng.next_u32() as u128 };
                let len = match rng.below(4) {
                    0 => *rng.pick(&[0u8, 1, 2, 7, 8, 9, 31, 32, 33, 63, 64, 65, 127, 128]).min(&w),
                    1 => w - rng.below(3) as u8,
                    _ => rng.below(w as u64 + 1) as u8,
                };
                let mut ms = vec![MP::new_masked(v6, addr, len)];
                if len > 0 {
                    ms.push(MP::new_masked(v6, addr, len - 1));
                    ms.push(MP::new_masked(v6, addr, rng.below(len as u64) as u8));
                    ms.push(MP { v6, bits: ms[0].bits ^ (1u128 << (w - len)), len }); // sibling
                }
                if len < w {
                    ms.push(MP::new_masked(v6, addr, len + 1));
                    ms.push(MP::new_masked(v6, addr | (1u128 << (w - len - 1)), len + 1));
                    ms.push(MP::new_masked(v6, addr, w));
                }
                ms.push(MP::new_masked(v6, if v6 { rng.next_u128() } else { rng.next_u32() as u128 }, rng.below(w as u64 + 1) as u8));
                // same bits in the other family's width, to cross families
                let ov6 = !v6;
                ms.push(MP::new_masked(ov6, if ov6 { addr << 96 | addr } else { addr >> 96 }, len.min(fam_max(ov6))));
                let ps: Vec<(MP, Prefix)> = ms.iter().filter_map(|m| Prefix::new(m.addr(), m.len).ok().map(|p| (*m, p))).collect();
                let k = ps.len();
                let mut cmp = vec![0i8; k * k];
                for i in 0..k {
                    for j in 0..k {
                        let (a, b) = (&ps[i], &ps[j]);
                        let c = a.1.cmp(&b.1);
                        cmp[i * k + j] = ord_i8(c);
                        let d = || json!({"a": a.0.text(), "b": b.0.text()});
                        let want = a.0.covers(&b.0);
                        let cov = a.1.covers(b.1);
                        if cov != want {
                            f.push(
                                if want { "C13:covers-misses-included-range" } else { "C13:covers-claims-excluded-range" },
                                format!("a.covers(b) = {cov}, range inclusion says {want}"),
                                d(),
                            );
                        }
                        let eq = a.1 == b.1;
                        if eq != (a.0 == b.0) {
                            f.push("C13:prefix-eq-vs-model", format!("(a == b) = {eq}"), d());
                        }
                        if (c == Ordering::Equal) != eq {
                            f.push("C13:prefix-cmp-equal-vs-eq", format!("cmp = {c:?} but (a == b) = {eq}"), d());
                        }
                        if eq && hash_of(&a.1) != hash_of(&b.1) {
                            f.push("C13:prefix-eq-hash", "equal prefixes hash differently".into(), d());
                        }
                        if want && a.0 != b.0 && c != Ordering::Greater {
                            f.push("C13:prefix-order-covering-not-after-more-specific", format!("a covers b but cmp(a,b) = {c:?}"), d());
                        }
                        if fi < 4_000 {
                            sigs.insert(pair_sig("random covers+cmp", &a.0, &b.0));
                        }
                    }
                }
                for i in 0..k {
                    for j in 0..k {
                        if cmp[i * k + j] != -cmp[j * k + i] {
                            f.push("C13:prefix-order-not-antisymmetric", "cmp(a,b) is not the reverse of cmp(b,a)".into(),
                                json!({"a": ps[i].0.text(), "b": ps[j].0.text()}));
                        }
                    }
                }
                let t = transitivity(k, &cmp, |_| true, "C13:prefix-order-not-transitive", |i| ps[i].0.text(), &mut f);
                fam_evals += (k * k) as u64 + t;
            }
            (f, sigs)
        });
        if let Some((f, sigs)) = res {
            for s in sigs {
                ctx.sig(&s);
            }
            f.flush(ctx);
        }
        evals += fam_evals;
        ctx.obs("random_prefix_families", nfam);
    }

    //---- 4. max-length prefixes ----------------------------------------------
    // every prefix of a sub-domain x every max-len 0..=255 and None
    let sub: Vec<&DomEntry> = {
        let step = match size {
            0 => 9,
            1 => 5,
            _ => 3,
        };
        dom.iter().enumerate().filter(|(i, e)| i % step == 0 || e.m.len == 0 || e.m.len == fam_max(e.m.v6)).map(|(_, e)| e).collect()
    };
    {
        let mut ok = 0u64;
        let mut err = 0u64;
        let mut sat_clamped = 0u64;
        let mut sat_not_nearest = 0u64;
        let mut in_range_rejected = 0u64;
        let mut n_ml = 0u64;
        let miri = ctx.is_miri();
        for (pi, e) in sub.iter().enumerate() {
            if !ctx.mine(pi as u64) {
                continue;
            }
            let res = ctx.no_panic("maxlen-constructors", || json!({"prefix": e.m.text()}), || {
                let mut f = Findings::default();
                let mut st = (0u64, 0u64, 0u64, 0u64, 0u64, 0u64);
                let w = fam_max(e.m.v6);
                let fam = if e.m.v6 { "v6" } else { "v4" };
                let mls: Vec<Option<u8>> = std::iter::once(None)
                    .chain((0..=255u8).map(Some))
                    .filter(|ml| match ml {
                        // Miri: boundaries only
                        Some(m) if miri => {
                            let (m, l) = (*m as i32, e.m.len as i32);
                            m <= 1 || (m - l).abs() <= 1 || (m - 32).abs() <= 1 || (m - 128).abs() <= 1 || m >= 254
                        }
                        _ => true,
                    })
                    .collect();
                for ml in mls {
                    st.5 += 1;
                    let d = || json!({"prefix": e.m.text(), "max_len": ml});
                    let valid = ml.map(|m| e.m.len <= m && m <= w).unwrap_or(true);
                    match MaxLenPrefix::new(e.p, ml) {
                        Ok(mp) => {
                            st.0 += 1;
                            if !valid {
                                let m = ml.unwrap();
                                f.push(
                                    &format!("C13:maxlen-new-{fam}:{}", if m > w { "beyond-family" } else { "below-prefix-length" }),
                                    format!("MaxLenPrefix::new accepted max length {m} for a /{} prefix", e.m.len),
                                    d(),
                                );
                            } else if mp.prefix() != e.p || mp.max_len() != ml || mp.resolved_max_len() != ml.unwrap_or(e.m.len) || mp.prefix_len() != e.m.len || mp.addr() != e.m.addr() {
                                f.push(&format!("C13:maxlen-new-{fam}:value-differs"), format!("constructed value reports {mp:?}"), d());
                            } else {
                                let with_text = !miri || ml.map(|m| m as u16 <= e.m.len as u16 + 1 || m as u16 + 1 >= w as u16).unwrap_or(true);
                                if with_text {
                                    let text = mp.to_string();
                                    match MaxLenPrefix::from_str(&text) {
                                        Ok(q) if q == mp && hash_of(&q) == hash_of(&mp) => {}
                                        other => f.push(&format!("C13:maxlen-text-roundtrip-{fam}"), format!("Display gives {text:?}, which parses back to {other:?}"), d()),
                                    }
                                }
                            }
                        }
                        Err(_) => {
                            st.1 += 1;
                            if valid {
                                st.4 += 1;
                            } else if let Some(m) = ml {
                                // the text form must not slip past the constructor either
                                if !miri || m as u16 == w as u16 + 1 || m as u16 + 1 == e.m.len as u16 {
                                    let text = format!("{}-{}", e.m.text(), m);
                                    if let Ok(q) = MaxLenPrefix::from_str(&text) {
                                        f.push(&format!("C13:maxlen-text-{fam}:out-of-range-accepted"), format!("from_str({text:?}) = {q}"), d());
                                    }
                                }
                            }
                        }
                    }
                    // saturating constructor: result within bounds, in-range input unchanged
                    let s = MaxLenPrefix::saturating_new(e.p, ml);
                    let got = s.max_len();
                    if s.prefix() != e.p {
                        f.push(&format!("C13:maxlen-saturating-{fam}:prefix-changed"), format!("saturating_new changed the prefix: {s:?}"), d());
                    }
                    match (ml, got) {
                        (None, None) => {}
                        (Some(m), Some(g)) => {
                            if !(e.m.len <= g && g <= w) {
                                f.push(
                                    &format!("C13:maxlen-saturating-{fam}:{}", if g > w { "beyond-family" } else { "below-prefix-length" }),
                                    format!("saturating_new({m}) produced max length {g} for a /{} prefix", e.m.len),
                                    d(),
                                );
                            } else if valid && g != m {
                                f.push(&format!("C13:maxlen-saturating-{fam}:in-range-value-changed"), format!("saturating_new({m}) produced {g}"), d());
                            } else if !valid {
                                st.2 += 1;
                                let nearest = m.clamp(e.m.len, w);
                                if g != nearest {
                                    st.3 += 1;
                                }
                            }
                        }
                        (None, Some(g)) => {
                            // inventing a max-len is acceptable only if it is the effective one
                            if g != e.m.len {
                                f.push(&format!("C13:maxlen-saturating-{fam}:in-range-value-changed"), format!("saturating_new(None) produced {g}"), d());
                            }
                        }
                        (Some(m), None) => {
                            if valid && m != e.m.len {
                                f.push(&format!("C13:maxlen-saturating-{fam}:in-range-value-changed"), format!("saturating_new({m}) dropped the max length"), d());
                            }
                        }
                    }
                    if s.resolved_max_len() < e.m.len || s.resolved_max_len() > w {
                        f.push(&format!("C13:maxlen-saturating-{fam}:effective-out-of-bounds"), format!("effective max length {}", s.resolved_max_len()), d());
                    }
                }
                (f, st)
            });
            if let Some((f, st)) = res {
                ok += st.0;
                err += st.1;
                sat_clamped += st.2;
                sat_not_nearest += st.3;
                in_range_rejected += st.4;
                n_ml += st.5;
                f.flush(ctx);
            }
            ctx.sig(&format!("maxlen {} prefix-len-class={} x every max-len 0..=255/None new+saturating+text", if e.m.v6 { "v6" } else { "v4" }, len_class(e.m.v6, e.m.len)));
        }
        evals += 2 * n_ml;
        ctx.obs("maxlen_new_accepted", ok);
        ctx.obs("maxlen_new_rejected", err);
        ctx.obs("maxlen_saturating_clamped", sat_clamped);
        ctx.obs("maxlen_saturating_clamped_not_to_nearest_bound", sat_not_nearest);
        ctx.obs("valid_input_rejected", in_range_rejected);
        if ctx.shard == 0 {
            ctx.sample("max-len prefix", || {
                let p = Prefix::from_str("192.0.2.0/24").unwrap();
                json!({
                    "prefix": "192.0.2.0/24",
                    "new(Some(23))": format!("{:?}", MaxLenPrefix::new(p, Some(23)).map(|m| m.to_string())),
                    "new(Some(32))": format!("{:?}", MaxLenPrefix::new(p, Some(32)).map(|m| m.to_string())),
                    "new(Some(33))": format!("{:?}", MaxLenPrefix::new(p, Some(33)).map(|m| m.to_string())),
                    "saturating_new(Some(200))": MaxLenPrefix::saturating_new(p, Some(200)).to_string(),
                    "saturating_new(Some(3))": MaxLenPrefix::saturating_new(p, Some(3)).to_string(),
                })
            });
        }
    }

    //---- 5. MaxLenPrefix order and RouteOrigin Eq/Ord/Hash --------------------
    {
        // elements: (model prefix, max_len option, asn)
        let asns: [u32; 3] = [0, 1, u32::MAX];
        let step = match size {
            0 => 4,
            1 => 3,
            _ => 5,
        };
        let mut items: Vec<(MP, Option<u8>, u32, MaxLenPrefix, RouteOrigin)> = Vec::new();
        for (si, e) in sub.iter().enumerate() {
            if si % step != 0 {
                continue;
            }
            let w = fam_max(e.m.v6);
            let mut mls: Vec<Option<u8>> = vec![None, Some(e.m.len), Some(w)];
            if e.m.len < w {
                mls.push(Some(e.m.len + 1));
            }
            mls.dedup();
            for ml in mls {
                if let Ok(mp) = MaxLenPrefix::new(e.p, ml) {
                    for &a in &asns {
                        items.push((e.m, ml, a, mp, RouteOrigin::new(mp, Asn::from_u32(a))));
                    }
                }
            }
        }
        let k = items.len();
        ctx.obs_max("route_origin_domain", k as u64);
        let (shard, nshards) = (ctx.shard as usize, ctx.nshards.max(1) as usize);
        let mut cmp_ro = vec![0i8; k * k];
        let mut cmp_ml = vec![0i8; k * k];
        let res = ctx.no_panic("route-origin-pairs", || json!({"domain": k}), || {
            let mut f = Findings::default();
            let hashes: Vec<(u64, u64)> = items.iter().map(|it| (hash_of(&it.3), hash_of(&it.4))).collect();
            let mut eq_pairs = 0u64;
            let mut lex_agree = 0u64;
            let mut lex_disagree = 0u64;
            let mut ml_not_prefix_first = 0u64;
            let mut pairs = 0u64;
            for i in 0..k {
                for j in 0..k {
                    let (a, b) = (&items[i], &items[j]);
                    let d = || json!({
                        "a": {"prefix": a.0.text(), "max_len": a.1, "asn": a.2},
                        "b": {"prefix": b.0.text(), "max_len": b.1, "asn": b.2},
                    });
                    // RouteOrigin: compares by prefix, effective max length, ASN
                    let c = a.4.cmp(&b.4);
                    cmp_ro[i * k + j] = ord_i8(c);
                    let cm = a.3.cmp(&b.3);
                    cmp_ml[i * k + j] = ord_i8(cm);
                    if i % nshards != shard {
                        continue;
                    }
                    pairs += 1;
                    let eff = |x: &(MP, Option<u8>, u32, MaxLenPrefix, RouteOrigin)| x.1.unwrap_or(x.0.len);
                    let want_eq = a.0 == b.0 && eff(a) == eff(b) && a.2 == b.2;
                    let eq = a.4 == b.4;
                    if eq != want_eq {
                        f.push("C13:route-origin-eq-vs-model", format!("(a == b) = {eq}; prefix, effective max length and ASN are {}", if want_eq { "equal" } else { "not all equal" }), d());
                    }
                    if (c == Ordering::Equal) != eq {
                        f.push("C13:route-origin-cmp-equal-vs-eq", format!("cmp = {c:?} but (a == b) = {eq}"), d());
                    }
                    if eq && hashes[i].1 != hashes[j].1 {
                        f.push("C13:route-origin-eq-hash", "equal route origins hash differently".into(), d());
                    }
                    if a.4.partial_cmp(&b.4) != Some(c) {
                        f.push("C13:route-origin-partial_cmp-vs-cmp", "partial_cmp disagrees with cmp".into(), d());
                    }
                    if want_eq {
                        eq_pairs += 1;
                    }
                    // the prefix is the primary key
                    if a.0 != b.0 {
                        let pc = a.3.prefix().cmp(&b.3.prefix());
                        if c != pc {
                            f.push("C13:route-origin-order-prefix-not-primary", format!("prefixes compare {pc:?} but the route origins {c:?}"), d());
                        }
                    } else {
                        // recorded only: ascending (effective max length, ASN)
                        let lex = eff(a).cmp(&eff(b)).then(a.2.cmp(&b.2));
                        if lex == c { lex_agree += 1 } else { lex_disagree += 1 }
                    }
                    // MaxLenPrefix order laws
                    let eqm = a.3 == b.3;
                    if eqm != (a.0 == b.0 && a.1 == b.1) {
                        f.push("C13:maxlen-eq-vs-model", format!("(a == b) = {eqm}"), d());
                    }
                    if (cm == Ordering::Equal) != eqm {
                        f.push("C13:maxlen-cmp-equal-vs-eq", format!("cmp = {cm:?} but (a == b) = {eqm}"), d());
                    }
                    if eqm && hashes[i].0 != hashes[j].0 {
                        f.push("C13:maxlen-eq-hash", "equal max-length prefixes hash differently".into(), d());
                    }
                    if a.0 != b.0 && cm != a.3.prefix().cmp(&b.3.prefix()) {
                        // documented, but not part of the statement: recorded only
                        ml_not_prefix_first += 1;
                    }
                }
            }
            for i in 0..k {
                for j in 0..k {
                    if cmp_ro[i * k + j] != -cmp_ro[j * k + i] {
                        f.push("C13:route-origin-order-not-antisymmetric", "cmp(a,b) is not the reverse of cmp(b,a)".into(),
                            json!({"a": format!("{:?}", items[i].4), "b": format!("{:?}", items[j].4)}));
                    }
                    if cmp_ml[i * k + j] != -cmp_ml[j * k + i] {
                        f.push("C13:maxlen-order-not-antisymmetric", "cmp(a,b) is not the reverse of cmp(b,a)".into(),
                            json!({"a": items[i].3.to_string(), "b": items[j].3.to_string()}));
                    }
                }
            }
            (f, eq_pairs, lex_agree, lex_disagree, pairs, ml_not_prefix_first)
        });
        if let Some((f, eq_pairs, la, ld, pairs, mlnp)) = res {
            ctx.obs("maxlen_prefix_pairs_not_ordered_by_prefix_first", mlnp);
            evals += 2 * pairs;
            ctx.obs("route_origin_pairs", pairs);
            ctx.obs("route_origin_equal_pairs", eq_pairs);
            ctx.obs("route_origin_same_prefix_pairs_ordered_by_ascending_maxlen_then_asn", la);
            ctx.obs("route_origin_same_prefix_pairs_ordered_otherwise", ld);
            f.flush(ctx);
        }
        let mut f = Findings::default();
        let name_ro = |i: usize| format!("{} max_len={:?} AS{}", items[i].0.text(), items[i].1, items[i].2);
        let t1 = transitivity(k, &cmp_ro, |i| i % nshards == shard, "C13:route-origin-order-not-transitive", name_ro, &mut f);
        let t2 = transitivity(k, &cmp_ml, |i| i % nshards == shard, "C13:maxlen-order-not-transitive", name_ro, &mut f);
        evals += t1 + t2;
        ctx.obs("route_origin_triples", t1);
        f.flush(ctx);
        for cls in ["none-vs-explicit-equal-maxlen", "different-maxlen", "different-asn", "different-prefix", "other-family"] {
            ctx.sig(&format!("route-origin eq/ord/hash {cls}"));
            ctx.sig(&format!("maxlen-prefix ord {cls}"));
        }
        if ctx.shard == 0 {
            ctx.sample("route origin", || {
                let p = Prefix::from_str("2001:db8::/32").unwrap();
                let a = RouteOrigin::new(MaxLenPrefix::new(p, None).unwrap(), Asn::from_u32(64496));
                let b = RouteOrigin::new(MaxLenPrefix::new(p, Some(32)).unwrap(), Asn::from_u32(64496));
                json!({"a": "2001:db8::/32 AS64496", "b": "2001:db8::/32-32 AS64496", "eq": a == b, "cmp": format!("{:?}", a.cmp(&b)), "hash_eq": hash_of(&a) == hash_of(&b)})
            });
        }
    }

    //---- 6. AS numbers: text, small sets ---------------------------------------
    {
        // text round trip
        let mut rng = ctx.rng("asn");
        let mut vals: Vec<u32> = vec![0, 1, 9, 10, 65535, 65536, 4_199_999_999, u32::MAX - 1, u32::MAX];
        let extra = ctx.stage_budget((20_000, 1_000_000), 5_000, 8, 0);
        for _ in 0..extra {
            vals.push(rng.next_u32() >> rng.below(32));
        }
        let res = ctx.no_panic("asn-text", || json!({"values": vals.len()}), || {
            let mut f = Findings::default();
            for &v in &vals {
                let a = Asn::from_u32(v);
                let text = a.to_string();
                match Asn::from_str(&text) {
                    Ok(b) if b == a && b.into_u32() == v => {}
                    other => f.push("C13:asn-text-roundtrip", format!("Display gives {text:?}, which parses back to {other:?}"), json!({"asn": v})),
                }
            }
            f
        });
        if let Some(f) = res {
            evals += vals.len() as u64;
            f.flush(ctx);
        }
        ctx.sig("asn text round trip boundary+random");
    }
    {
        let alphabet: &[u32] = if ctx.is_miri() { &[0, 1, u32::MAX] } else { &[0, 1, 2, u32::MAX] };
        let max_len = match (ctx.stage, ctx.tier) {
            (Stage::Miri, _) => 2,
            (Stage::Native, Tier::Thorough) => 5,
            _ => 4,
        };
        // all sequences (with repeats) up to max_len
        let mut seqs: Vec<Vec<u32>> = vec![vec![]];
        let mut start = 0;
        for _ in 0..max_len {
            let end = seqs.len();
            for i in start..end {
                for &a in alphabet {
                    let mut s = seqs[i].clone();
                    s.push(a);
                    seqs.push(s);
                }
            }
            start = end;
        }
        let mut rng = ctx.rng("asnsets");
        let nrand = match (ctx.stage, ctx.tier) {
            (Stage::Miri, _) => 3,
            (Stage::Native, Tier::Thorough) => 600,
            _ => 150,
        };
        for _ in 0..nrand {
            let len = rng.below(40) as usize;
            let pool: Vec<u32> = (0..rng.range(1, 12)).map(|i| match i % 4 {
                0 => rng.below(16) as u32,
                1 => u32::MAX - rng.below(4) as u32,
                2 => rng.next_u32(),
                _ => 64496 + rng.below(8) as u32,
            }).collect();
            seqs.push((0..len).map(|_| *rng.pick(&pool)).collect());
        }
        ctx.obs_max("asn_sequences", seqs.len() as u64);
        let mut built: Vec<(BTreeSet<u32>, Option<SmallAsnSet>)> = Vec::new();
        let mut not_sets = 0u64;
        let mut with_dups = 0u64;
        let res = ctx.no_panic("asnset-from-iter", || json!({"sequences": seqs.len()}), || {
            let mut f = Findings::default();
            let mut out = Vec::new();
            let mut bad = 0u64;
            let mut dups = 0u64;
            for s in &seqs {
                let model: BTreeSet<u32> = s.iter().copied().collect();
                let has_dup = model.len() != s.len();
                if has_dup {
                    dups += 1;
                }
                let set = SmallAsnSet::from_iter(s.iter().map(|v| Asn::from_u32(*v)));
                let items: Vec<u32> = set.iter().map(|a| a.into_u32()).collect();
                let want: Vec<u32> = model.iter().copied().collect();
                let strictly_ascending = items.windows(2).all(|w| w[0] < w[1]);
                let mut ok = true;
                if !strictly_ascending {
                    ok = false;
                    let sorted = items.windows(2).all(|w| w[0] <= w[1]);
                    f.push(
                        if sorted { "C13:asnset-from-iter-keeps-duplicates" } else { "C13:asnset-from-iter-not-sorted" },
                        format!("set built from {s:?} iterates as {items:?}"),
                        json!({"items": s, "iterates_as": items}),
                    );
                } else if items != want {
                    ok = false;
                    f.push("C13:asnset-from-iter-wrong-elements", format!("set built from {s:?} iterates as {items:?}"), json!({"items": s, "iterates_as": items}));
                } else if set.len() != want.len() || set.is_empty() != want.is_empty() {
                    ok = false;
                    f.push("C13:asnset-len", format!("len() = {} for {} elements", set.len(), want.len()), json!({"items": s}));
                }
                if !ok {
                    bad += 1;
                }
                // operations are only judged on operands that are sets
                out.push((model, if ok { Some(set) } else { None }));
            }
            (f, out, bad, dups)
        });
        if let Some((f, out, bad, dups)) = res {
            built = out;
            not_sets = bad;
            with_dups = dups;
            f.flush(ctx);
        }
        // every shard builds all sets (it needs them as operands); counted once
        if ctx.shard == 0 {
            evals += seqs.len() as u64;
            ctx.obs("asn_sequences_with_duplicates", with_dups);
            ctx.obs("asn_sets_not_sorted_duplicate_free", not_sets);
        }
        if not_sets > 0 {
            ctx.notes.push(format!("{not_sets} constructed AS sets were not sorted and duplicate-free; set operations were not judged on them"));
        }
        // all pairs x four operations
        let mut op_evals = 0u64;
        let mut contains_disagree = 0u64;
        let mut unordered_outputs = 0u64;
        let nb = built.len();
        let miri = ctx.is_miri();
        for i in 0..nb {
            if !ctx.mine(i as u64) {
                continue;
            }
            let res = ctx.no_panic("asnset-operations", || json!({"left": seqs[i]}), || {
                let mut f = Findings::default();
                let mut n = 0u64;
                let mut cd = 0u64;
                let mut unordered = 0u64;
                let (lm, ls) = &built[i];
                let ls = match ls {
                    Some(s) => s,
                    None => return (f, 0, 0, 0),
                };
                for v in [0u32, 1, 2, 3, u32::MAX] {
                    if ls.contains(Asn::from_u32(v)) != lm.contains(&v) {
                        cd += 1;
                    }
                }
                // Miri: every second right operand (an operation costs ~50 ms there)
                for j in (0..nb).step_by(if miri { 2 } else { 1 }) {
                    let (rm, rs) = &built[j];
                    let rs = match rs {
                        Some(s) => s,
                        None => continue,
                    };
                    let ops: [(&str, Vec<u32>, Vec<u32>); 4] = [
                        ("union", ls.union(rs).map(|a| a.into_u32()).collect(), lm.union(rm).copied().collect()),
                        ("intersection", ls.intersection(rs).map(|a| a.into_u32()).collect(), lm.intersection(rm).copied().collect()),
                        ("difference", ls.difference(rs).map(|a| a.into_u32()).collect(), lm.difference(rm).copied().collect()),
                        ("symmetric_difference", ls.symmetric_difference(rs).map(|a| a.into_u32()).collect(), lm.symmetric_difference(rm).copied().collect()),
                    ];
                    for (name, got, want) in ops.iter() {
                        n += 1;
                        let mut sorted = got.clone();
                        sorted.sort();
                        let has_dups = sorted.windows(2).any(|w| w[0] == w[1]);
                        sorted.dedup();
                        if &sorted != want {
                            f.push(&format!("C13:asnset-{name}-wrong-elements"), format!("{name} yields {got:?}, mathematically {want:?}"),
                                json!({"left": lm, "right": rm}));
                        } else if has_dups {
                            f.push(&format!("C13:asnset-{name}-duplicates"), format!("{name} yields {got:?}"), json!({"left": lm, "right": rm}));
                        } else if got != want {
                            unordered += 1;
                        }
                    }
                }
                (f, n, cd, unordered)
            });
            if let Some((f, n, cd, un)) = res {
                op_evals += n;
                contains_disagree += cd;
                unordered_outputs += un;
                f.flush(ctx);
            }
        }
        evals += op_evals;
        ctx.obs("asnset_operations_checked", op_evals);
        ctx.obs("asnset_contains_disagreements", contains_disagree);
        ctx.obs("asnset_operation_outputs_not_ascending", unordered_outputs);
        for shape in ["empty", "single", "multi"] {
            for rel in ["equal", "disjoint", "overlap", "subset", "superset"] {
                ctx.sig(&format!("asnset ops left={shape} relation={rel} (all sequences over {alphabet:?} up to length {max_len}, with repeats)"));
            }
        }
        ctx.sig("asnset random longer multisets");
        if ctx.shard == 0 {
            ctx.sample("small AS set", || {
                let s = SmallAsnSet::from_iter([1u32, 1, 0, u32::MAX, 1].iter().map(|v| Asn::from_u32(*v)));
                let t = SmallAsnSet::from_iter([1u32, 2].iter().map(|v| Asn::from_u32(*v)));
                json!({
                    "from_iter([1,1,0,MAX,1])": s.iter().map(|a| a.into_u32()).collect::<Vec<_>>(),
                    "len": s.len(),
                    "union_with_[1,2]": s.union(&t).map(|a| a.into_u32()).collect::<Vec<_>>(),
                    "difference_with_[1,2]": s.difference(&t).map(|a| a.into_u32()).collect::<Vec<_>>(),
                })
            });
        }
    }

    ctx.evals(evals);
}
