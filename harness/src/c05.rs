//! C05 — built objects decode back to themselves and look the same either way.
//!
//! Workload: builder inputs that conform to the object profiles (generators
//! in `c05_gen`), driven through the library's own builders with the pool
//! signer. Oracle per object:
//!
//!  1. the encoding of the built object is accepted by the library's decoder
//!     in strict mode and by its validator under the issuing certificate /
//!     key at an instant inside the validity window;
//!  2. re-encoding the decoded object reproduces the bytes;
//!  3. every row of the hand-written accessor table of the type (`c05_tab`)
//!     gives the same answer on the built value and on its decoded twin, and
//!     panics on neither;
//!  4. every structural and leaf encoder of both values, streamed into sinks
//!     that take less than offered, answer `Interrupted`, or refuse
//!     (`c05_sink`, called from `c05_tab::compare`), either delivers exactly
//!     the octets of the object or does not report `Ok(())`.
//!
//! Nothing else is demanded. Answers are additionally compared with the
//! builder inputs where the mapping is unambiguous; a difference there is
//! recorded as an observation (`input_echo_mismatch`), except for CSRs where
//! the builder returns bytes only and the inputs are the only "built" view.

// Helper modules of this monitor (declared here so that lib.rs needs no change).
#[path = "c05_gen.rs"]
pub mod c05_gen;
#[path = "c05_tab.rs"]
pub mod c05_tab;
#[path = "c05_foreign.rs"]
pub mod c05_foreign;
#[path = "c05_reissue.rs"]
pub mod c05_reissue;
#[path = "c05_sink.rs"]
pub mod c05_sink;

use self::c05_gen as gen;
use self::c05_gen::ResShape;
use self::c05_tab as tab;
use self::c05_tab::hex;
use crate::core::{catch, panic_location, Ctx, Rng, Stage};
use crate::keys::PoolSigner;
use bytes::Bytes;
use rpki::ca::csr::{Csr, RpkiCaCsr};
use rpki::ca::idcert::IdCert;
use rpki::ca::idexchange::{RecipientHandle, SenderHandle};
use rpki::ca::provisioning::{Message as ProvMessage, ProvisioningCms};
use rpki::ca::publication::{Base64, Message as PubMessage, Publish, PublicationCms, PublishDelta};
use rpki::ca::sigmsg::SignedMessage;
use rpki::crypto::keys::PublicKey;
use rpki::crypto::signature::RpkiSignatureAlgorithm;
use rpki::crypto::DigestAlgorithm;
use rpki::repository::aspa::{Aspa, AspaBuilder};
use rpki::repository::cert::{Cert, ExtendedKeyUsage, KeyUsage, Overclaim, ResourceCert, TbsCert};
use rpki::repository::crl::{Crl, CrlEntry, TbsCertList};
use rpki::repository::manifest::{FileAndHash, Manifest, ManifestContent};
use rpki::repository::resources::{Asn, Prefix};
use rpki::repository::roa::{Roa, RoaBuilder, RoaIpAddress, RoaIpAddressesBuilder};
use rpki::repository::sigobj::{SignedObject, SignedObjectBuilder};
use rpki::repository::tal::TalInfo;
use rpki::repository::x509::{Serial, Time, Validity};
use rpki::uri;
use serde_json::{json, Value};
use std::net::{IpAddr, Ipv4Addr, Ipv6Addr};
use std::str::FromStr;
use std::sync::Arc;

const K_ISSUER: usize = 0;
const K_SUBJECT: usize = 1;
const K_ONE_OFF: usize = 2;
const POOL: usize = 4;

struct Env {
    pool: PoolSigner,
    tal: Arc<TalInfo>,
    /// Validated trust anchor holding every resource; issues everything else.
    ta: ResourceCert,
    router_key: PublicKey,
}

fn setup(ctx: &mut Ctx) -> Option<Env> {
    let pool = PoolSigner::new(POOL);
    let tal = TalInfo::from_name("c05".into()).into_arc();
    let k0 = pool.info(K_ISSUER);
    let mut tbs = TbsCert::new(
        Serial::from(1u64),
        k0.to_subject_name(),
        Validity::new(Time::utc(1, 1, 1, 0, 0, 0), Time::utc(9999, 12, 31, 23, 59, 59)),
        None,
        k0,
        KeyUsage::Ca,
        Overclaim::Refuse,
    );
    tbs.set_basic_ca(Some(true));
    tbs.set_ca_repository(Some(uri::Rsync::from_str("rsync://ta.example/repo/").unwrap()));
    tbs.set_rpki_manifest(Some(uri::Rsync::from_str("rsync://ta.example/repo/ta.mft").unwrap()));
    tbs.build_v4_resource_blocks(|b| b.push(Prefix::new(0, 0)));
    tbs.build_v6_resource_blocks(|b| b.push(Prefix::new(0, 0)));
    tbs.build_as_resource_blocks(|b| b.push((Asn::MIN, Asn::MAX)));
    let res = catch(|| {
        let cert = tbs.into_cert(&pool, &K_ISSUER).map_err(|e| e.to_string())?;
        cert.validate_ta_at(tal.clone(), true, Time::utc(2026, 1, 1, 0, 0, 0)).map_err(|e| e.to_string())
    });
    let ta = match res {
        Ok(Ok(ta)) => ta,
        other => {
            ctx.notes.push(format!("C05: could not set up the issuing trust anchor ({:?}); nothing observed", other.err().or_else(|| Some("validation error".into()))));
            return None;
        }
    };
    let router_key = match PublicKey::decode(crate::keys::p256_spki().as_slice()) {
        Ok(k) => k,
        Err(e) => {
            ctx.notes.push(format!("C05: could not create a P-256 router key: {}", e));
            return None;
        }
    };
    Some(Env { pool, tal, ta, router_key })
}

//------------ common oracle steps -------------------------------------------

struct Case<'a> {
    kind: &'static str,
    inputs: &'a Value,
}

impl Case<'_> {
    fn detail(&self, der: &[u8]) -> Value {
        json!({"kind": self.kind, "inputs": self.inputs, "der": hex(der)})
    }
}

fn builder_failed(ctx: &mut Ctx, case: &Case, what: &str, err: Result<String, String>) {
    match err {
        Ok(e) => ctx.violation(
            &format!("C05:builder-error:{}", case.kind),
            &format!("{}: {} returned an error for profile-conforming inputs: {}", case.kind, what, e),
            json!({"kind": case.kind, "inputs": case.inputs}),
        ),
        Err(p) => {
            ctx.obs("panics_caught", 1);
            ctx.violation(
                &format!("C05:builder-panic:{}", case.kind),
                &format!("{}: {} panics for profile-conforming inputs ({})", case.kind, what, panic_location(&p)),
                json!({"kind": case.kind, "inputs": case.inputs, "panic": p}),
            )
        }
    }
}

/// Runs a builder under catch_unwind. `None` = a violation was recorded.
fn build<T>(ctx: &mut Ctx, case: &Case, what: &str, f: impl FnOnce() -> Result<T, String>) -> Option<T> {
    match catch(f) {
        Ok(Ok(v)) => {
            ctx.obs("built", 1);
            Some(v)
        }
        Ok(Err(e)) => {
            builder_failed(ctx, case, what, Ok(e));
            None
        }
        Err(p) => {
            builder_failed(ctx, case, what, Err(p));
            None
        }
    }
}

/// Oracle (1a): the decoder accepts.
fn decode<T>(ctx: &mut Ctx, case: &Case, der: &[u8], f: impl FnOnce() -> Result<T, String>) -> Option<T> {
    ctx.eval();
    match catch(f) {
        Ok(Ok(v)) => {
            ctx.obs("decode_accepted", 1);
            Some(v)
        }
        Ok(Err(e)) => {
            ctx.obs("decode_rejected", 1);
            ctx.violation(
                &format!("C05:decode-rejected:{}", case.kind),
                &format!("{}: the library's strict decoder rejects what its builder produced: {}", case.kind, e),
                case.detail(der),
            );
            None
        }
        Err(p) => {
            ctx.obs("panics_caught", 1);
            ctx.violation(
                &format!("C05:decode-panic:{}", case.kind),
                &format!("{}: decoding the builder output panics ({})", case.kind, panic_location(&p)),
                json!({"panic": p, "case": case.detail(der)}),
            );
            None
        }
    }
}

/// Oracle (1b): the validator accepts at an instant inside the window.
fn validate(ctx: &mut Ctx, case: &Case, der: &[u8], at: &str, f: impl FnOnce() -> Result<(), String>) -> bool {
    ctx.eval();
    match catch(f) {
        Ok(Ok(())) => {
            ctx.obs("validate_accepted", 1);
            true
        }
        Ok(Err(e)) => {
            ctx.obs("validate_rejected", 1);
            ctx.violation(
                &format!("C05:validate-rejected:{}", case.kind),
                &format!("{}: the library's validator rejects what its builder produced (at {}): {}", case.kind, at, e),
                json!({"at": at, "case": case.detail(der)}),
            );
            false
        }
        Err(p) => {
            ctx.obs("panics_caught", 1);
            ctx.violation(
                &format!("C05:validate-panic:{}", case.kind),
                &format!("{}: validating the builder output panics ({})", case.kind, panic_location(&p)),
                json!({"panic": p, "case": case.detail(der)}),
            );
            false
        }
    }
}

/// Oracle (2): re-encoding the decoded value gives the same bytes.
fn reencode(ctx: &mut Ctx, case: &Case, der: &[u8], f: impl FnOnce() -> Vec<u8>) -> bool {
    ctx.eval();
    match catch(f) {
        Ok(again) => {
            if again == der {
                ctx.obs("reencode_identical", 1);
                true
            } else {
                let at = again.iter().zip(der.iter()).position(|(a, b)| a != b).unwrap_or(again.len().min(der.len()));
                ctx.violation(
                    &format!("C05:reencode-differs:{}", case.kind),
                    &format!("{}: re-encoding the decoded object does not reproduce the bytes (first difference at {})", case.kind, at),
                    json!({"reencoded": hex(&again), "first_difference_at": at, "case": case.detail(der)}),
                );
                false
            }
        }
        Err(p) => {
            ctx.obs("panics_caught", 1);
            ctx.violation(
                &format!("C05:reencode-panic:{}", case.kind),
                &format!("{}: re-encoding the decoded object panics ({})", case.kind, panic_location(&p)),
                json!({"panic": p, "case": case.detail(der)}),
            );
            false
        }
    }
}

fn echo(ctx: &mut Ctx, what: &str, ok: bool) {
    ctx.obs("input_echo_checks", 1);
    if !ok {
        ctx.obs("input_echo_mismatch", 1);
        ctx.obs(&format!("input_echo_mismatch:{}", what), 1);
    }
}

/// Registers the case classes of one object (DESIGN §10): the joint, coarse
/// field-shape vector of the object and the fine class of every field on
/// its own.
fn classes(ctx: &mut Ctx, kind: &str, joint: &[&str], fine: &[(&str, &str)]) {
    ctx.sig(&format!("{}|{}", kind, joint.join("|")));
    for (field, class) in fine {
        ctx.sig(&format!("{}:{}={}", kind, field, class));
    }
}

fn size_class(n: usize) -> &'static str {
    match n {
        0 => "0",
        1 => "1",
        2..=9 => "2-9",
        10..=99 => "10-99",
        _ => ">=100",
    }
}

//------------ certificates ---------------------------------------------------

#[derive(Clone, Copy, PartialEq)]
enum CertKind {
    Ta,
    Ca,
    Ee,
    DetachedEe,
    Router,
}

fn res_triple(rng: &mut Rng, allow_inherit: bool) -> ([ResShape; 3], [String; 3]) {
    loop {
        let (v4, c4) = gen::res_shape(rng, 32, allow_inherit);
        let (v6, c6) = gen::res_shape(rng, 128, allow_inherit);
        let (asn, ca) = gen::res_shape(rng, 32, allow_inherit);
        let any = [&v4, &v6, &asn].iter().any(|s| !matches!(s, ResShape::Missing));
        if any {
            return ([v4, v6, asn], [c4, c6, ca]);
        }
    }
}

fn do_cert(ctx: &mut Ctx, env: &Env, rng: &mut Rng, which: CertKind) {
    let kind: &'static str = match which {
        CertKind::Ta => "cert-ta",
        CertKind::Ca => "cert-ca",
        CertKind::Ee => "cert-ee",
        CertKind::DetachedEe => "cert-detached-ee",
        CertKind::Router => "cert-router",
    };
    let (serial, serial_class) = gen::serial(rng);
    let win = gen::window(rng);
    let router = which == CertKind::Router;
    let (subject, subject_class, subject_json) = gen::name(rng, router);
    let (issuer_custom, issuer_class, issuer_json) = gen::name(rng, false);
    let overclaim = if rng.bool() { Overclaim::Refuse } else { Overclaim::Trim };
    let (shapes, res_class) = if router {
        let (r, c) = gen::canonical_ranges(rng, 32);
        ([ResShape::Missing, ResShape::Missing, ResShape::Blocks(r)], ["missing".to_string(), "missing".to_string(), c])
    } else {
        res_triple(rng, which != CertKind::Ta)
    };
    let crl_uri = gen::rsync(rng, false, "crl");
    let ca_issuer = gen::rsync(rng, false, "cer");
    let ca_repo = gen::rsync(rng, true, "");
    let mft = gen::rsync(rng, false, "mft");
    let so_ext = *rng.pick(&["roa", "mft", "asa", "gbr"]);
    let so = gen::rsync(rng, false, so_ext);
    let notify = if rng.bool() { Some(gen::https(rng)) } else { None };
    let aki_on_ta = rng.bool();
    // sometimes the subject key is not given to `TbsCert::new` but set afterwards
    let key_via_setter = !router && rng.chance(1, 4);

    let (subject_key, signing_key) = match which {
        CertKind::Ta => (env.pool.info(K_SUBJECT), K_SUBJECT),
        CertKind::Ca => (env.pool.info(K_SUBJECT), K_ISSUER),
        CertKind::Ee | CertKind::DetachedEe => (env.pool.info(K_ONE_OFF), K_ISSUER),
        CertKind::Router => (env.router_key.clone(), K_ISSUER),
    };
    let signer_key_info = env.pool.info(signing_key);
    let v4 = gen::ip_resources(rng, &match &shapes[0] {
        ResShape::Blocks(b) => ResShape::Blocks(gen::v4_to_lib(b)),
        other => other.clone(),
    });
    let v6 = gen::ip_resources(rng, &shapes[1]);
    let asr = gen::as_resources(rng, &shapes[2]);
    ctx.drain_chain_hook(|| json!({"kind": kind, "v4": shapes[0].json(), "v6": shapes[1].json(), "as": shapes[2].json()}));

    let inputs = json!({
        "serial": gen::serial_json(serial), "validity": gen::validity_json(win.validity), "validate_at": gen::time_str(win.at),
        "subject_name_der": subject_json, "issuer_name_der": issuer_json, "overclaim": format!("{:?}", overclaim),
        "v4": shapes[0].json(), "v6": shapes[1].json(), "as": shapes[2].json(),
        "crl_uri": crl_uri.as_str(), "ca_issuer": ca_issuer.as_str(), "ca_repository": ca_repo.as_str(),
        "rpki_manifest": mft.as_str(), "signed_object": so.as_str(), "rpki_notify": notify.as_ref().map(|u| u.as_str().to_string()),
        "aki_on_ta": aki_on_ta,
    });
    let case = Case { kind, inputs: &inputs };

    // issuer name: for a TA the issuer is the subject; otherwise the issuing
    // key's default name or a custom one (names carry no meaning in the RPKI)
    let subject_name = subject.clone().unwrap_or_else(|| subject_key.to_subject_name());
    let issuer_name = match which {
        CertKind::Ta => subject_name.clone(),
        _ => issuer_custom.unwrap_or_else(|| signer_key_info.to_subject_name()),
    };
    let built = build(ctx, &case, "TbsCert::new/into_cert", || {
        let mut tbs = TbsCert::new(
            serial,
            issuer_name,
            win.validity,
            // an explicit subject name, so that the name does not depend on which key `new` saw
            if key_via_setter { Some(subject.clone().unwrap_or_else(|| subject_key.to_subject_name())) } else { subject.clone() },
            if key_via_setter { env.pool.info((K_ISSUER + 1) % POOL) } else { subject_key.clone() },
            if matches!(which, CertKind::Ta | CertKind::Ca) { KeyUsage::Ca } else { KeyUsage::Ee },
            overclaim,
        );
        if key_via_setter {
            tbs.set_subject_public_key(subject_key.clone());
        }
        match which {
            CertKind::Ta => {
                tbs.set_basic_ca(Some(true));
                if aki_on_ta {
                    tbs.set_authority_key_identifier(Some(subject_key.key_identifier()));
                }
                tbs.set_ca_repository(Some(ca_repo.clone()));
                tbs.set_rpki_manifest(Some(mft.clone()));
                tbs.set_rpki_notify(notify.clone());
            }
            CertKind::Ca => {
                tbs.set_basic_ca(Some(true));
                tbs.set_authority_key_identifier(Some(signer_key_info.key_identifier()));
                tbs.set_crl_uri(Some(crl_uri.clone()));
                tbs.set_ca_issuer(Some(ca_issuer.clone()));
                tbs.set_ca_repository(Some(ca_repo.clone()));
                tbs.set_rpki_manifest(Some(mft.clone()));
                tbs.set_rpki_notify(notify.clone());
            }
            CertKind::Ee | CertKind::DetachedEe => {
                tbs.set_authority_key_identifier(Some(signer_key_info.key_identifier()));
                tbs.set_crl_uri(Some(crl_uri.clone()));
                tbs.set_ca_issuer(Some(ca_issuer.clone()));
                if which == CertKind::Ee {
                    tbs.set_signed_object(Some(so.clone()));
                }
            }
            CertKind::Router => {
                tbs.set_authority_key_identifier(Some(signer_key_info.key_identifier()));
                tbs.set_crl_uri(Some(crl_uri.clone()));
                tbs.set_ca_issuer(Some(ca_issuer.clone()));
                tbs.set_extended_key_usage(Some(ExtendedKeyUsage::create_router()));
            }
        }
        tbs.set_v4_resources(v4);
        tbs.set_v6_resources(v6);
        tbs.set_as_resources(asr);
        tbs.into_cert(&env.pool, &signing_key).map_err(|e| e.to_string())
    });
    let Some(built) = built else { return };
    let Some(der) = build(ctx, &case, "Cert::to_captured", || Ok(built.to_captured().into_bytes().to_vec())) else { return };

    classes(
        ctx,
        kind,
        &[
            gen::serial_coarse(serial),
            &win.enc,
            if subject.is_some() { "subject custom" } else { "subject default" },
            shapes[0].class(),
            shapes[1].class(),
            shapes[2].class(),
        ],
        &[
            ("serial", &serial_class),
            ("time", &win.class),
            ("subject", &subject_class),
            ("issuer", if which == CertKind::Ta { "=subject" } else { &issuer_class }),
            ("v4", &res_class[0]),
            ("v6", &res_class[1]),
            ("as", &res_class[2]),
            ("overclaim", &format!("{:?}", overclaim)),
            ("notify", if notify.is_some() { "yes" } else { "no" }),
        ],
    );

    let Some(decoded) = decode(ctx, &case, &der, || Cert::decode(der.as_slice()).map_err(|e| e.to_string())) else { return };
    let at = win.at;
    let at_s = gen::time_str(at);
    {
        let d = decoded.clone();
        validate(ctx, &case, &der, &at_s, || match which {
            CertKind::Ta => d.validate_ta_at(env.tal.clone(), true, at).map(|_| ()).map_err(|e| e.to_string()),
            CertKind::Ca => d.validate_ca_at(&env.ta, true, at).map(|_| ()).map_err(|e| e.to_string()),
            CertKind::Ee => d.validate_ee_at(&env.ta, true, at).map(|_| ()).map_err(|e| e.to_string()),
            CertKind::DetachedEe => d.validate_detached_ee_at(&env.ta, true, at).map(|_| ()).map_err(|e| e.to_string()),
            CertKind::Router => d.validate_router_at(&env.ta, true, at).map_err(|e| e.to_string()),
        });
    }
    ctx.drain_chain_hook(|| json!({"kind": kind, "phase": "validate", "inputs": inputs.clone()}));
    reencode(ctx, &case, &der, || decoded.to_captured().into_bytes().to_vec());
    let mut table = tab::cert_table(kind);
    {
        // the validator is an accessor too: same verdict and same resolved
        // resources on the built value and on its decoded twin
        let (ta, tal) = (env.ta.clone(), env.tal.clone());
        tab::push_row(&mut table, "validate_at(window instant)", move |c: &Cert| {
            let c = c.clone();
            let r = match which {
                CertKind::Ta => c.validate_ta_at(tal.clone(), true, at),
                CertKind::Ca => c.validate_ca_at(&ta, true, at),
                CertKind::Ee => c.validate_ee_at(&ta, true, at),
                CertKind::DetachedEe => c.validate_detached_ee_at(&ta, true, at),
                CertKind::Router => return format!("{:?}", c.validate_router_at(&ta, true, at).map_err(|e| e.to_string())),
            };
            match r {
                Ok(rc) => tab::rescert(&rc),
                Err(e) => format!("rejected: {}", e),
            }
        });
    }
    let (rows, bad) = tab::compare(ctx, &table, &built, &decoded, &|| case.detail(&der));
    // inputs echoed by the decoded twin
    echo(ctx, "cert.serial", decoded.serial_number() == serial);
    echo(ctx, "cert.validity", decoded.validity() == win.validity);
    echo(ctx, "cert.subject", *decoded.subject() == subject_name);
    if which != CertKind::Ta {
        echo(ctx, "cert.crl_uri", decoded.crl_uri().map(|u| u.as_str()) == Some(crl_uri.as_str()));
    }
    ctx.sample(kind, || {
        json!({"inputs": inputs.clone(), "der_len": der.len(),
               "observed": format!("decoded, validated at {}, re-encoded identically, {} accessor rows compared, {} differing", at_s, rows, bad)})
    });
}

//------------ CRL -----------------------------------------------------------

fn do_crl(ctx: &mut Ctx, env: &Env, rng: &mut Rng) {
    let kind = "crl";
    let n = match rng.below(8) {
        0 | 1 => 0,
        2 => 1,
        3 => 2,
        4 | 5 => 3 + rng.usize_below(20),
        6 => 100 + rng.usize_below(200),
        _ => 1 + rng.usize_below(60),
    };
    let mut entries: Vec<(Serial, Time)> = Vec::with_capacity(n);
    let mut classes_of_entries = std::collections::BTreeSet::new();
    for _ in 0..n {
        let (s, c) = gen::serial(rng);
        if n <= 2 {
            classes_of_entries.insert(c);
        }
        entries.push((s, gen::time(rng)));
    }
    if n > 2 && rng.chance(1, 10) {
        let d = entries[0];
        entries.push(d); // the same certificate listed twice
    }
    let a = gen::time(rng);
    let b = gen::time(rng);
    let (this_update, next_update) = if a <= b { (a, b) } else { (b, a) };
    let (crl_number, number_class) = gen::serial(rng);
    let (issuer_custom, issuer_class, issuer_json) = gen::name(rng, false);
    let k0 = env.pool.info(K_ISSUER);
    let issuer = issuer_custom.unwrap_or_else(|| k0.to_subject_name());
    let inputs = json!({
        "this_update": gen::time_str(this_update), "next_update": gen::time_str(next_update),
        "crl_number": gen::serial_json(crl_number), "issuer_name_der": issuer_json,
        "entries": entries.iter().map(|(s, t)| json!([gen::serial_json(*s), gen::time_str(*t)])).collect::<Vec<_>>(),
    });
    let case = Case { kind, inputs: &inputs };
    let list: Vec<CrlEntry> = entries.iter().map(|(s, t)| CrlEntry::new(*s, *t)).collect();
    let built = build(ctx, &case, "TbsCertList::new/into_crl", || {
        TbsCertList::new(
            RpkiSignatureAlgorithm::default(),
            issuer.clone(),
            this_update,
            next_update,
            list,
            k0.key_identifier(),
            crl_number,
        )
        .into_crl(&env.pool, &K_ISSUER)
        .map_err(|e| e.to_string())
    });
    let Some(built) = built else { return };
    let Some(der) = build(ctx, &case, "Crl::to_captured", || Ok(built.to_captured().into_bytes().to_vec())) else { return };
    use chrono::Datelike;
    let enc = format!("{}/{}", gen::time_encoding(this_update.year()), gen::time_encoding(next_update.year()));
    classes(
        ctx,
        kind,
        &[size_class(entries.len()), gen::serial_coarse(crl_number), &enc],
        &[("number", &number_class), ("issuer", &issuer_class), ("entry-serials", &format!("{:?}", classes_of_entries))],
    );
    let Some(decoded) = decode(ctx, &case, &der, || Crl::decode(der.as_slice()).map_err(|e| e.to_string())) else { return };
    validate(ctx, &case, &der, "n/a (signature and issuer key identifier)", || {
        decoded.verify_signature(&k0).map_err(|e| e.to_string())?;
        if *decoded.authority_key_identifier() != k0.key_identifier() {
            return Err("authority key identifier differs from the issuing key".into());
        }
        Ok(())
    });
    reencode(ctx, &case, &der, || decoded.to_captured().into_bytes().to_vec());
    let mut probes: Vec<Serial> = entries.iter().map(|e| e.0).collect();
    probes.truncate(64);
    for _ in 0..4 {
        probes.push(gen::serial(rng).0);
    }
    probes.push(Serial::default());
    let mut table = tab::crl_table(probes);
    {
        let key = k0.clone();
        tab::push_row(&mut table, "verify_signature(issuer key)", move |c: &Crl| format!("{:?}", c.verify_signature(&key).map_err(|e| e.to_string())));
    }
    let (rows, bad) = tab::compare(ctx, &table, &built, &decoded, &|| case.detail(&der));
    let got: Vec<(Serial, Time)> = catch(|| decoded.revoked_certs().iter().map(|e| (e.user_certificate, e.revocation_date)).collect()).unwrap_or_default();
    echo(ctx, "crl.entries", got == entries);
    // revocation lookups against what went into the builder, without and with the serial cache
    {
        let mut probes: Vec<Serial> = entries.iter().take(64).map(|e| e.0).collect();
        probes.push(Serial::default());
        let want: Vec<bool> = probes.iter().map(|p| entries.iter().any(|e| e.0 == *p)).collect();
        let plain = catch(|| probes.iter().map(|p| decoded.contains(*p)).collect::<Vec<bool>>());
        echo(ctx, "crl.contains", plain.as_ref().ok() == Some(&want));
        let cached = catch(|| {
            let mut c = built.clone();
            c.cache_serials();
            probes.iter().map(|p| c.contains(*p)).collect::<Vec<bool>>()
        });
        echo(ctx, "crl.cache_serials;contains", cached.as_ref().ok() == Some(&want));
    }
    echo(ctx, "crl.number", decoded.crl_number() == crl_number);
    ctx.sample(kind, || {
        json!({"entries": entries.len(), "this_update": gen::time_str(this_update), "next_update": gen::time_str(next_update),
               "crl_number": gen::serial_json(crl_number), "der_len": der.len(),
               "observed": format!("decoded, signature verified, re-encoded identically, {} accessor rows compared, {} differing", rows, bad)})
    });
}

//------------ signed objects -------------------------------------------------

struct SigObjInputs {
    builder: SignedObjectBuilder,
    json: Value,
    /// coarse joint class: EE serial shape and time types of the window
    coarse: String,
    /// fine classes per field
    fine: Vec<(&'static str, String)>,
    win: gen::Window,
}

fn fine_refs<'a>(fine: &'a [(&'static str, String)]) -> Vec<(&'static str, &'a str)> {
    fine.iter().map(|(a, b)| (*a, b.as_str())).collect()
}

fn sigobj_inputs(env: &Env, rng: &mut Rng, ext: &str, around_now: bool) -> SigObjInputs {
    let (serial, serial_class) = gen::serial(rng);
    let win = if around_now { gen::window_around_now(rng) } else { gen::window(rng) };
    let crl_uri = gen::rsync(rng, false, "crl");
    let ca_issuer = gen::rsync(rng, false, "cer");
    let so = gen::rsync(rng, false, ext);
    let (issuer, issuer_class, issuer_json) = gen::name(rng, false);
    let (subject, subject_class, subject_json) = gen::name(rng, false);
    let signing_time = if rng.chance(1, 3) { win.at } else { gen::time(rng) };
    let one_off = K_ONE_OFF + rng.usize_below(POOL - K_ONE_OFF);
    env.pool.set_next_one_off(one_off);
    let mut b = SignedObjectBuilder::new(serial, win.validity, crl_uri.clone(), ca_issuer.clone(), so.clone());
    b.set_issuer(issuer);
    b.set_subject(subject);
    b.set_signing_time(signing_time);
    use chrono::Datelike;
    SigObjInputs {
        builder: b,
        json: json!({
            "ee_serial": gen::serial_json(serial), "ee_validity": gen::validity_json(win.validity), "validate_at": gen::time_str(win.at),
            "crl_uri": crl_uri.as_str(), "ca_issuer": ca_issuer.as_str(), "signed_object": so.as_str(),
            "issuer_name_der": issuer_json, "subject_name_der": subject_json, "signing_time": gen::time_str(signing_time),
            "one_off_key": one_off,
        }),
        coarse: format!("{}|{}", gen::serial_coarse(serial), win.enc),
        fine: vec![
            ("ee-serial", serial_class),
            ("ee-time", win.class.clone()),
            ("signing-time", gen::time_encoding(signing_time.year()).to_string()),
            ("ee-issuer", issuer_class),
            ("ee-subject", subject_class),
        ],
        win,
    }
}

fn do_manifest(ctx: &mut Ctx, env: &Env, rng: &mut Rng) {
    let kind = "manifest";
    let n = match rng.below(8) {
        0 => 0,
        1 => 1,
        2 => 2,
        3 => 200,
        4 => 100 + rng.usize_below(101),
        _ => 3 + rng.usize_below(40),
    };
    let mut files: Vec<(Vec<u8>, Vec<u8>)> = (0..n).map(|_| (gen::mft_file_name(rng), rng.bytes(32))).collect();
    if n > 1 && rng.chance(1, 8) {
        files.sort();
    }
    let (number, number_class) = gen::serial(rng);
    let a = gen::time(rng);
    let b = if rng.chance(1, 10) { a } else { gen::time(rng) };
    let (this_update, next_update) = if a <= b { (a, b) } else { (b, a) };
    let so = sigobj_inputs(env, rng, "mft", false);
    let base = gen::rsync(rng, true, "");
    let inputs = json!({
        "manifest_number": gen::serial_json(number), "this_update": gen::time_str(this_update), "next_update": gen::time_str(next_update),
        "files": files.iter().map(|(f, h)| json!([String::from_utf8_lossy(f), hex(h)])).collect::<Vec<_>>(),
        "signed_object": so.json, "iter_uris_base": base.as_str(),
    });
    let case = Case { kind, inputs: &inputs };
    let win_at = so.win.at;
    let builder = so.builder;
    let built = build(ctx, &case, "ManifestContent::new/into_manifest", || {
        let content = ManifestContent::new(
            number,
            this_update,
            next_update,
            DigestAlgorithm::default(),
            files.iter().map(|(f, h)| FileAndHash::new(f.as_slice(), h.as_slice())),
        );
        content.into_manifest(builder, &env.pool, &K_ISSUER).map_err(|e| e.to_string())
    });
    let Some(built) = built else { return };
    let Some(der) = build(ctx, &case, "Manifest::to_captured", || Ok(built.to_captured().into_bytes().to_vec())) else { return };
    {
        let mut fine = fine_refs(&so.fine);
        fine.push(("number", &number_class));
        classes(ctx, kind, &[size_class(n), gen::serial_coarse(number), &so.coarse], &fine);
    }
    let Some(decoded) = decode(ctx, &case, &der, || Manifest::decode(der.as_slice(), true).map_err(|e| e.to_string())) else { return };
    let at_s = gen::time_str(win_at);
    {
        let d = decoded.clone();
        validate(ctx, &case, &der, &at_s, || d.validate_at(&env.ta, true, win_at).map(|_| ()).map_err(|e| e.to_string()));
    }
    ctx.drain_chain_hook(|| json!({"kind": kind}));
    reencode(ctx, &case, &der, || decoded.to_captured().into_bytes().to_vec());
    let mut table = tab::manifest_table(base);
    {
        let ta = env.ta.clone();
        tab::push_row(&mut table, "validate_at(window instant)", move |m: &Manifest| match m.clone().validate_at(&ta, true, win_at) {
            Ok((rc, content)) => format!("{} files={}", tab::rescert(&rc), content.len()),
            Err(e) => format!("rejected: {}", e),
        });
    }
    let (rows, bad) = tab::compare(ctx, &table, &built, &decoded, &|| case.detail(&der));
    let got: Vec<(Vec<u8>, Vec<u8>)> = catch(|| decoded.content().iter().map(|f| (f.file().to_vec(), f.hash().to_vec())).collect()).unwrap_or_default();
    echo(ctx, "manifest.files", got == files);
    echo(ctx, "manifest.len", decoded.content().len() == n);
    echo(ctx, "manifest.number", decoded.content().manifest_number() == number);
    ctx.sample(kind, || {
        json!({"files": n, "first_file": files.first().map(|f| String::from_utf8_lossy(&f.0).to_string()), "manifest_number": gen::serial_json(number),
               "this_update": gen::time_str(this_update), "next_update": gen::time_str(next_update), "der_len": der.len(),
               "observed": format!("decoded strictly, validated at {}, re-encoded identically, {} accessor rows compared, {} differing", at_s, rows, bad)})
    });
}

/// Mirrors how the library collects blocks: a new block is merged into the
/// first element it touches. Returns false if adding `b` would leave two
/// overlapping elements — the situation of known defect F1 (collection of
/// unsorted bridging blocks, property C03), which this monitor keeps out of
/// its inputs on purpose.
fn f1_safe_add(elems: &mut Vec<(u128, u128)>, b: (u128, u128)) -> bool {
    let mut trial = elems.clone();
    let touches = |x: &(u128, u128), y: &(u128, u128)| x.0 <= y.1.saturating_add(1) && y.0 <= x.1.saturating_add(1);
    match trial.iter().position(|e| touches(e, &b)) {
        Some(i) => trial[i] = (trial[i].0.min(b.0), trial[i].1.max(b.1)),
        None => trial.push(b),
    }
    for i in 0..trial.len() {
        for j in (i + 1)..trial.len() {
            if trial[i].0 <= trial[j].1 && trial[j].0 <= trial[i].1 {
                return false;
            }
        }
    }
    *elems = trial;
    true
}

/// ROA prefixes of one family: (address bits in library layout, length, max length).
fn roa_prefixes(rng: &mut Rng, fam_bits: u8, n: usize) -> Vec<(u128, u8, Option<u8>)> {
    let mut out: Vec<(u128, u8, Option<u8>)> = Vec::new();
    let mut elems: Vec<(u128, u128)> = Vec::new();
    // a narrow region makes nesting, duplicates and neighbours frequent
    let region: u128 = rng.next_u128() & !(u128::MAX >> 12);
    let mut tries = 0;
    while out.len() < n && tries < n * 20 + 20 {
        tries += 1;
        let cand = if !out.is_empty() && rng.chance(1, 5) {
            *rng.pick(&out) // duplicate (maybe with another max length below)
        } else {
            let len: u8 = match rng.below(8) {
                0 => *rng.pick(&[0u8, 1, 8, 12]),
                1 => fam_bits,
                2 => fam_bits - 1,
                _ => 12 + (rng.below((fam_bits - 12) as u64 + 1) as u8),
            };
            let raw = if rng.chance(1, 6) { rng.next_u128() } else { region | (rng.next_u128() >> 12 & !(u128::MAX >> 20 >> (rng.below(20) as u32))) };
            let addr = if len == 0 { 0 } else { raw & !(u128::MAX.checked_shr(len as u32).unwrap_or(0)) };
            (addr, len, None)
        };
        let (addr, len, _) = cand;
        let max_len = match rng.below(4) {
            0 => None,
            1 => Some(len),
            2 => Some(fam_bits),
            _ => Some(len + rng.below((fam_bits - len) as u64 + 1) as u8),
        };
        let hi = addr | u128::MAX.checked_shr(len as u32).unwrap_or(0);
        if f1_safe_add(&mut elems, (addr, hi)) {
            out.push((addr, len, max_len));
        }
    }
    out
}

fn roa_inputs(rng: &mut Rng) -> (u32, Vec<(u128, u8, Option<u8>)>, Vec<(u128, u8, Option<u8>)>, [String; 2]) {
    let asn = gen::asn(rng);
    let pick_n = |rng: &mut Rng| match rng.below(6) {
        0 => 1,
        1 => 2,
        2 => 40 + rng.usize_below(60),
        _ => 1 + rng.usize_below(12),
    };
    let (n4, n6) = match rng.below(4) {
        0 => (pick_n(rng), 0),
        1 => (0, pick_n(rng)),
        _ => (pick_n(rng), pick_n(rng)),
    };
    let v4 = roa_prefixes(rng, 32, n4);
    let v6 = roa_prefixes(rng, 128, n6);
    let mlc = |v: &[(u128, u8, Option<u8>)]| {
        let mut s = String::new();
        if v.iter().any(|x| x.2.is_none()) {
            s.push('-');
        }
        if v.iter().any(|x| x.2 == Some(x.1)) {
            s.push('=');
        }
        if v.iter().any(|x| x.2.map(|m| m > x.1).unwrap_or(false)) {
            s.push('>');
        }
        let mut seen = std::collections::HashSet::new();
        if v.iter().any(|x| !seen.insert((x.0, x.1))) {
            s.push('d');
        }
        s
    };
    let class = [mlc(&v4), mlc(&v6)];
    (asn, v4, v6, class)
}

fn do_roa(ctx: &mut Ctx, env: &Env, rng: &mut Rng) {
    let kind = "roa";
    let (asn, v4, v6, list_class) = roa_inputs(rng);
    if v4.is_empty() && v6.is_empty() {
        return; // the generator could not place any prefix (cannot happen for n >= 1)
    }
    let around_now = rng.bool();
    let so = sigobj_inputs(env, rng, "roa", around_now);
    let api = rng.below(4);
    let pj = |v: &[(u128, u8, Option<u8>)], v4: bool| -> Vec<Value> {
        v.iter()
            .map(|&(a, l, m)| {
                let ip = if v4 { IpAddr::V4(Ipv4Addr::from((a >> 96) as u32)) } else { IpAddr::V6(Ipv6Addr::from(a)) };
                json!(format!("{}/{}{}", ip, l, m.map(|m| format!("-{}", m)).unwrap_or_default()))
            })
            .collect()
    };
    let inputs = json!({"as_id": asn, "v4": pj(&v4, true), "v6": pj(&v6, false), "api_path": api, "signed_object": so.json,
                        "validator": if around_now { "Roa::process (Time::now inside the window)" } else { "SignedObject::validate_at" }});
    let case = Case { kind, inputs: &inputs };
    let win_at = so.win.at;
    let builder = so.builder;
    let built = build(ctx, &case, "RoaBuilder::finalize", || {
        let mut roa = match api {
            0 => {
                let mut b = RoaBuilder::new(Asn::from_u32(asn));
                for &(a, l, m) in &v4 {
                    b.push_v4_addr(Ipv4Addr::from((a >> 96) as u32), l, m);
                }
                for &(a, l, m) in &v6 {
                    b.push_addr(IpAddr::V6(Ipv6Addr::from(a)), l, m);
                }
                b
            }
            1 => {
                let mut b4 = RoaIpAddressesBuilder::new();
                b4.extend(v4.iter().map(|&(a, l, m)| RoaIpAddress::new(Prefix::new(a, l), m)));
                let mut b6 = RoaIpAddressesBuilder::default();
                for &(a, l, m) in &v6 {
                    b6.push_addr(IpAddr::V6(Ipv6Addr::from(a)), l, m);
                }
                RoaBuilder::with_addresses(Asn::from_u32(asn), b4, b6)
            }
            3 => {
                // the remaining entry points: push_v4, push_v6_addr and the bulk IPv6 one
                let mut b = RoaBuilder::new(Asn::from_u32(asn));
                for &(a, l, m) in &v4 {
                    b.push_v4(RoaIpAddress::new(Prefix::new(a, l), m));
                }
                let half = v6.len() / 2;
                for &(a, l, m) in &v6[..half] {
                    b.push_v6_addr(Ipv6Addr::from(a), l, m);
                }
                let a6: Vec<RoaIpAddress> = v6[half..].iter().map(|&(a, l, m)| RoaIpAddress::new(Prefix::new(a, l), m)).collect();
                b.extend_v6_from_slice(&a6);
                b
            }
            _ => {
                let mut b = RoaBuilder::new(Asn::from_u32(0));
                b.set_as_id(Asn::from_u32(asn));
                let a4: Vec<RoaIpAddress> = v4.iter().map(|&(a, l, m)| RoaIpAddress::new(Prefix::new(a, l), m)).collect();
                b.extend_v4_from_slice(&a4);
                for &(a, l, m) in &v6 {
                    b.push_v6(RoaIpAddress::new_addr(IpAddr::V6(Ipv6Addr::from(a)), l, m));
                }
                b
            }
        };
        let _ = &mut roa;
        roa.finalize(builder, &env.pool, &K_ISSUER).map_err(|e| e.to_string())
    });
    ctx.drain_chain_hook(|| json!({"kind": kind, "phase": "build", "inputs": inputs.clone()}));
    let Some(built) = built else { return };
    let Some(der) = build(ctx, &case, "Roa::to_captured", || Ok(built.to_captured().into_bytes().to_vec())) else { return };
    {
        let mut fine = fine_refs(&so.fine);
        fine.push(("as_id", if asn == 0 { "0" } else if asn == u32::MAX { "max" } else { "other" }));
        fine.push(("v4-maxlen", &list_class[0]));
        fine.push(("v6-maxlen", &list_class[1]));
        fine.push(("api", ["push_addr", "with_addresses", "extend_from_slice", "push_v4+push_v6_addr+extend_v6"][api as usize]));
        fine.push(("validator", if around_now { "Roa::process" } else { "SignedObject::validate_at" }));
        classes(ctx, kind, &[size_class(v4.len()), size_class(v6.len()), &so.coarse], &fine);
    }
    let Some(decoded) = decode(ctx, &case, &der, || Roa::decode(der.as_slice(), true).map_err(|e| e.to_string())) else { return };
    let at_s = gen::time_str(win_at);
    if around_now {
        let d = decoded.clone();
        validate(ctx, &case, &der, "Time::now()", || d.process(&env.ta, true, |_| Ok(())).map(|_| ()).map_err(|e| e.to_string()));
    } else {
        validate(ctx, &case, &der, &at_s, || {
            let so = SignedObject::decode(der.as_slice(), true).map_err(|e| e.to_string())?;
            so.validate_at(&env.ta, true, win_at).map(|_| ()).map_err(|e| e.to_string())
        });
    }
    ctx.drain_chain_hook(|| json!({"kind": kind, "phase": "validate", "inputs": inputs.clone()}));
    reencode(ctx, &case, &der, || decoded.to_captured().into_bytes().to_vec());
    let mut table = tab::roa_table();
    if around_now {
        let ta = env.ta.clone();
        tab::push_row(&mut table, "process(now)", move |r: &Roa| match r.clone().process(&ta, true, |_| Ok(())) {
            Ok((rc, att)) => format!("{} as_id={} prefixes={}", tab::rescert(&rc), att.as_id(), att.iter().count()),
            Err(e) => format!("rejected: {}", e),
        });
    }
    let (rows, bad) = tab::compare(ctx, &table, &built, &decoded, &|| case.detail(&der));
    let want4: Vec<(u128, u8, Option<u8>)> = v4.clone();
    let got4: Vec<(u128, u8, Option<u8>)> =
        catch(|| decoded.content().v4_addrs().iter().map(|a| (a.prefix().addr().to_bits(), a.prefix().addr_len(), a.max_length())).collect()).unwrap_or_default();
    let got6: Vec<(u128, u8, Option<u8>)> =
        catch(|| decoded.content().v6_addrs().iter().map(|a| (a.prefix().addr().to_bits(), a.prefix().addr_len(), a.max_length())).collect()).unwrap_or_default();
    echo(ctx, "roa.v4", got4 == want4);
    echo(ctx, "roa.v6", got6 == v6);
    echo(ctx, "roa.as_id", decoded.content().as_id().into_u32() == asn);
    ctx.sample(kind, || {
        json!({"as_id": asn, "v4": pj(&v4, true).into_iter().take(6).collect::<Vec<_>>(), "v6": pj(&v6, false).into_iter().take(6).collect::<Vec<_>>(),
               "v4_count": v4.len(), "v6_count": v6.len(), "der_len": der.len(),
               "observed": format!("decoded strictly, validated ({}), re-encoded identically, {} accessor rows compared, {} differing",
                                   if around_now { "Roa::process now".to_string() } else { format!("at {}", at_s) }, rows, bad)})
    });
}

fn do_aspa(ctx: &mut Ctx, env: &Env, rng: &mut Rng) {
    let kind = "aspa";
    let customer = gen::asn(rng);
    let n = match rng.below(8) {
        0 => 1,
        1 => 2,
        2 => 200,
        3 => 100 + rng.usize_below(100),
        _ => 1 + rng.usize_below(30),
    };
    let mut set = std::collections::BTreeSet::new();
    while set.len() < n {
        let p = if rng.chance(1, 3) { gen::asn(rng) } else { rng.next_u32() };
        if p != customer {
            set.insert(p);
        }
    }
    let mut providers: Vec<u32> = set.into_iter().collect();
    let order = rng.below(3);
    match order {
        0 => {}
        1 => providers.reverse(),
        _ => rng.shuffle(&mut providers),
    }
    let one_by_one = rng.bool();
    let around_now = rng.bool();
    let so = sigobj_inputs(env, rng, "asa", around_now);
    let inputs = json!({"customer_as": customer, "providers_in_insertion_order": providers, "api_path": if one_by_one { "empty+add_provider" } else { "new(vec)" },
                        "signed_object": so.json,
                        "validator": if around_now { "Aspa::process (Time::now inside the window)" } else { "SignedObject::validate_at" }});
    let case = Case { kind, inputs: &inputs };
    let win_at = so.win.at;
    let builder = so.builder;
    let built = build(ctx, &case, "AspaBuilder::finalize", || {
        let b = if one_by_one {
            let mut b = AspaBuilder::empty(Asn::from_u32(customer));
            for p in &providers {
                b.add_provider(Asn::from_u32(*p)).map_err(|e| e.to_string())?;
            }
            b
        } else {
            AspaBuilder::new(Asn::from_u32(customer), providers.iter().map(|p| Asn::from_u32(*p)).collect::<Vec<_>>()).map_err(|e| e.to_string())?
        };
        b.finalize(builder, &env.pool, &K_ISSUER).map_err(|e| e.to_string())
    });
    ctx.drain_chain_hook(|| json!({"kind": kind, "phase": "build"}));
    let Some(built) = built else { return };
    let Some(der) = build(ctx, &case, "Aspa::to_captured", || Ok(built.to_captured().into_bytes().to_vec())) else { return };
    {
        let mut fine = fine_refs(&so.fine);
        fine.push(("customer", if customer == 0 { "0" } else if customer == u32::MAX { "max" } else { "other" }));
        fine.push(("validator", if around_now { "Aspa::process" } else { "SignedObject::validate_at" }));
        classes(
            ctx,
            kind,
            &[size_class(n), ["sorted", "reversed", "shuffled"][order as usize], if one_by_one { "add_provider" } else { "new(vec)" }, &so.coarse],
            &fine,
        );
    }
    let Some(decoded) = decode(ctx, &case, &der, || Aspa::decode(der.as_slice(), true).map_err(|e| e.to_string())) else { return };
    let at_s = gen::time_str(win_at);
    if around_now {
        let d = decoded.clone();
        validate(ctx, &case, &der, "Time::now()", || d.process(&env.ta, true, |_| Ok(())).map(|_| ()).map_err(|e| e.to_string()));
    } else {
        validate(ctx, &case, &der, &at_s, || {
            let so = SignedObject::decode(der.as_slice(), true).map_err(|e| e.to_string())?;
            so.validate_at(&env.ta, true, win_at).map(|_| ()).map_err(|e| e.to_string())
        });
    }
    ctx.drain_chain_hook(|| json!({"kind": kind, "phase": "validate"}));
    reencode(ctx, &case, &der, || decoded.to_captured().into_bytes().to_vec());
    let mut table = tab::aspa_table();
    if around_now {
        let ta = env.ta.clone();
        tab::push_row(&mut table, "process(now)", move |a: &Aspa| match a.clone().process(&ta, true, |_| Ok(())) {
            Ok((rc, att)) => format!("{} customer={} providers={}", tab::rescert(&rc), att.customer_as(), att.provider_as_set().len()),
            Err(e) => format!("rejected: {}", e),
        });
    }
    let (rows, bad) = tab::compare(ctx, &table, &built, &decoded, &|| case.detail(&der));
    let mut want = providers.clone();
    want.sort();
    let got: Vec<u32> = catch(|| decoded.content().provider_as_set().iter().map(|a| a.into_u32()).collect()).unwrap_or_default();
    echo(ctx, "aspa.providers", got == want);
    echo(ctx, "aspa.customer", decoded.content().customer_as().into_u32() == customer);
    ctx.sample(kind, || {
        json!({"customer_as": customer, "providers": providers.iter().take(8).collect::<Vec<_>>(), "provider_count": n, "der_len": der.len(),
               "observed": format!("decoded strictly, validated ({}), re-encoded identically, {} accessor rows compared, {} differing",
                                   if around_now { "Aspa::process now".to_string() } else { format!("at {}", at_s) }, rows, bad)})
    });
}

//------------ CSR -----------------------------------------------------------

fn do_csr(ctx: &mut Ctx, env: &Env, rng: &mut Rng) {
    let dir = !rng.chance(1, 5);
    let kind: &'static str = if dir { "csr" } else { "csr-repo-without-trailing-slash" };
    let repo = if dir { gen::rsync(rng, true, "") } else { gen::rsync(rng, false, "d") };
    let mft = gen::rsync(rng, false, "mft");
    let notify = if rng.chance(2, 3) { Some(gen::https(rng)) } else { None };
    let key = K_SUBJECT + rng.usize_below(2);
    let inputs = json!({"ca_repository": repo.as_str(), "rpki_manifest": mft.as_str(), "rpki_notify": notify.as_ref().map(|u| u.as_str().to_string()), "key": key});
    let case = Case { kind, inputs: &inputs };
    let built = build(ctx, &case, "Csr::construct_rpki_ca", || {
        Csr::construct_rpki_ca(&env.pool, &key, &repo, &mft, notify.as_ref()).map(|c| c.into_bytes().to_vec()).map_err(|e| e.to_string())
    });
    let Some(der) = built else { return };
    ctx.sig(&format!("{}|notify={}|uri-len={}", kind, notify.is_some(), if repo.as_str().len() + mft.as_str().len() > 250 { "long" } else { "short" }));
    let Some(decoded) = decode(ctx, &case, &der, || RpkiCaCsr::decode(der.as_slice()).map_err(|e| e.to_string())) else { return };
    validate(ctx, &case, &der, "n/a (proof of possession)", || decoded.verify_signature().map_err(|e| e.to_string()));
    reencode(ctx, &case, &der, || decoded.to_captured().into_bytes().to_vec());
    // The builder returns bytes only; the twin of the decoded value is the
    // value decoded from its own re-encoding.
    let twin = catch(|| RpkiCaCsr::decode(decoded.to_captured().as_slice()).ok()).ok().flatten();
    let mut rows = 0;
    let mut bad = 0;
    if let Some(twin) = twin {
        let table = tab::csr_table();
        let r = tab::compare(ctx, &table, &decoded, &twin, &|| case.detail(&der));
        rows = r.0;
        bad = r.1;
    }
    // ... and the inputs are the only "built" view: they must come back.
    let check = |ctx: &mut Ctx, field: &str, ok: bool, got: String, want: String| {
        ctx.eval();
        if !ok {
            ctx.violation(
                &format!("C05:csr-input-not-echoed:{}", field),
                &format!("csr: decoded `{}` is {} but the builder was given {}", field, got, want),
                case.detail(&der),
            );
        }
    };
    let got_repo = decoded.ca_repository().map(|u| u.as_str().to_string());
    let repo_ok = match &got_repo {
        Some(g) => g == repo.as_str() || (!dir && *g == format!("{}/", repo.as_str())),
        None => false,
    };
    check(ctx, "ca_repository", repo_ok, format!("{:?}", got_repo), repo.as_str().to_string());
    let got_mft = decoded.rpki_manifest().map(|u| u.as_str().to_string());
    check(ctx, "rpki_manifest", got_mft.as_deref() == Some(mft.as_str()), format!("{:?}", got_mft), mft.as_str().to_string());
    let got_notify = decoded.rpki_notify().map(|u| u.as_str().to_string());
    let want_notify = notify.as_ref().map(|u| u.as_str().to_string());
    check(ctx, "rpki_notify", got_notify == want_notify, format!("{:?}", got_notify), format!("{:?}", want_notify));
    check(ctx, "public_key", *decoded.public_key() == env.pool.info(key), "another key".into(), "pool key".into());
    check(ctx, "basic_ca", decoded.basic_ca(), "false".into(), "true".into());
    check(ctx, "key_usage", decoded.key_usage() == KeyUsage::Ca, format!("{:?}", decoded.key_usage()), "Ca".into());
    ctx.sample(kind, || {
        json!({"inputs": inputs.clone(), "der_len": der.len(),
               "observed": format!("decoded, signature verified, re-encoded identically, inputs echoed, {} accessor rows compared with the re-decoded twin, {} differing", rows, bad)})
    });
}

//------------ identity certificates and signed messages ----------------------

fn do_idcert(ctx: &mut Ctx, env: &Env, rng: &mut Rng, ta: bool) {
    let kind: &'static str = if ta { "idcert-ta" } else { "idcert-ee" };
    let win = gen::window(rng);
    let issuing = K_SUBJECT;
    let ee_key_idx = K_ONE_OFF + rng.usize_below(POOL - K_ONE_OFF);
    let inputs = json!({"validity": gen::validity_json(win.validity), "validate_at": gen::time_str(win.at), "issuing_key": issuing,
                        "ee_key": if ta { Value::Null } else { json!(ee_key_idx) }});
    let case = Case { kind, inputs: &inputs };
    let ee_key = env.pool.info(ee_key_idx);
    let built = build(ctx, &case, if ta { "IdCert::new_ta" } else { "IdCert::new_ee" }, || {
        if ta {
            IdCert::new_ta(win.validity, &issuing, &env.pool).map_err(|e| e.to_string())
        } else {
            IdCert::new_ee(&ee_key, win.validity, &issuing, &env.pool).map_err(|e| e.to_string())
        }
    });
    let Some(built) = built else { return };
    let Some(der) = build(ctx, &case, "IdCert::to_captured", || Ok(built.to_captured().into_bytes().to_vec())) else { return };
    classes(ctx, kind, &[&win.enc], &[("time", &win.class)]);
    let Some(decoded) = decode(ctx, &case, &der, || IdCert::decode(der.as_slice()).map_err(|e| e.to_string())) else { return };
    let at = win.at;
    let at_s = gen::time_str(at);
    let issuer_key = env.pool.info(issuing);
    validate(ctx, &case, &der, &at_s, || {
        if ta {
            decoded.validate_ta_at(at).map_err(|e| e.to_string())
        } else {
            decoded.validate_ee_at(&issuer_key, at).map_err(|e| e.to_string())
        }
    });
    reencode(ctx, &case, &der, || decoded.to_captured().into_bytes().to_vec());
    let mut table = tab::idcert_table(kind);
    {
        let key = issuer_key.clone();
        tab::push_row(&mut table, "validate_at(window instant)", move |c: &IdCert| {
            format!("{:?}", if ta { c.validate_ta_at(at) } else { c.validate_ee_at(&key, at) }.map_err(|e| e.to_string()))
        });
    }
    let (rows, bad) = tab::compare(ctx, &table, &built, &decoded, &|| case.detail(&der));
    echo(ctx, "idcert.validity", *decoded.validity() == win.validity);
    echo(ctx, "idcert.key", *decoded.public_key() == if ta { issuer_key.clone() } else { ee_key.clone() });
    ctx.sample(kind, || {
        json!({"inputs": inputs.clone(), "der_len": der.len(),
               "observed": format!("decoded, validated at {}, re-encoded identically, {} accessor rows compared, {} differing", at_s, rows, bad)})
    });
}

fn sigmsg_checks(ctx: &mut Ctx, env: &Env, case: &Case, built: &SignedMessage, der: &[u8], at: Time, at_s: &str) -> Option<(u64, u64)> {
    let issuer_key = env.pool.info(K_SUBJECT);
    let decoded = decode(ctx, case, der, || SignedMessage::decode(der, true).map_err(|e| e.to_string()))?;
    validate(ctx, case, der, at_s, || decoded.validate_at(&issuer_key, at).map_err(|e| e.to_string()));
    reencode(ctx, case, der, || decoded.to_captured().into_bytes().to_vec());
    let mut table = tab::sigmsg_table(case.kind);
    {
        let key = issuer_key.clone();
        tab::push_row(&mut table, "validate_at(window instant)", move |m: &SignedMessage| format!("{:?}", m.validate_at(&key, at).map_err(|e| e.to_string())));
    }
    Some(tab::compare(ctx, &table, built, &decoded, &|| case.detail(der)))
}

fn do_sigmsg(ctx: &mut Ctx, env: &Env, rng: &mut Rng) {
    let kind = "signed-message";
    let win = gen::window(rng);
    let len = match rng.below(6) {
        0 => 0,
        1 => 1,
        2 => 127,
        3 => 128,
        4 => 70_000,
        _ => rng.usize_below(3000),
    };
    let data = rng.bytes(len);
    env.pool.set_next_one_off(K_ONE_OFF + rng.usize_below(POOL - K_ONE_OFF));
    let inputs = json!({"content": if len <= 4096 { json!(hex(&data)) } else { json!(format!("{} pseudo-random bytes from rng purpose 'objects'", len)) },
                        "validity": gen::validity_json(win.validity), "validate_at": gen::time_str(win.at), "issuing_key": K_SUBJECT});
    let case = Case { kind, inputs: &inputs };
    let built = build(ctx, &case, "SignedMessage::create", || {
        SignedMessage::create(Bytes::from(data.clone()), win.validity, &K_SUBJECT, &env.pool).map_err(|e| e.to_string())
    });
    let Some(built) = built else { return };
    let Some(der) = build(ctx, &case, "SignedMessage::to_captured", || Ok(built.to_captured().into_bytes().to_vec())) else { return };
    classes(ctx, kind, &[size_class(len), &win.enc], &[("time", &win.class)]);
    let at_s = gen::time_str(win.at);
    if let Some((rows, bad)) = sigmsg_checks(ctx, env, &case, &built, &der, win.at, &at_s) {
        echo(ctx, "sigmsg.content", built.content().to_bytes().as_ref() == data.as_slice());
        ctx.sample(kind, || {
            json!({"content_len": len, "validity": gen::validity_json(win.validity), "der_len": der.len(),
                   "observed": format!("decoded strictly, validated at {}, re-encoded identically, {} accessor rows compared, {} differing", at_s, rows, bad)})
        });
    }
}

/// `ProvisioningCms::decode` / `PublicationCms::decode` always decode in
/// relaxed (BER) mode; bcder refuses to re-emit values captured in BER mode
/// into a DER encoding. The property's re-encoding leg is therefore decided
/// on the strictly decoded `SignedMessage` (see `sigmsg_checks`); what the
/// relaxed twin does is recorded, not judged.
fn relaxed_reencode(ctx: &mut Ctx, der: &[u8], f: impl FnOnce() -> Vec<u8>) {
    match catch(f) {
        Ok(b) if b == der => ctx.obs("relaxed_decoded_cms.to_bytes:identical", 1),
        Ok(_) => ctx.obs("relaxed_decoded_cms.to_bytes:differs", 1),
        Err(p) => {
            ctx.obs("relaxed_decoded_cms.to_bytes:panics", 1);
            let note = format!(
                "observation (not judged): to_bytes() of a ProvisioningCms/PublicationCms obtained from their own decode() panics ({}); decode() is hard-wired to relaxed BER mode and a BER-captured value cannot be written into a DER encoding. The strict SignedMessage::decode twin re-encodes fine.",
                panic_location(&p)
            );
            if !ctx.notes.contains(&note) {
                ctx.notes.push(note);
            }
        }
    }
}

fn handle_chars(rng: &mut Rng) -> String {
    const H: &[u8] = b"abcdefghijklmnopqrstuvwxyzABCDEFGHIJKLMNOPQRSTUVWXYZ0123456789-_";
    let n = 1 + rng.usize_below(30);
    (0..n).map(|_| *rng.pick(H) as char).collect()
}

fn do_cms(ctx: &mut Ctx, env: &Env, rng: &mut Rng, provisioning: bool) {
    let kind: &'static str = if provisioning { "provisioning-cms" } else { "publication-cms" };
    env.pool.set_next_one_off(K_ONE_OFF + rng.usize_below(POOL - K_ONE_OFF));
    let issuer_key = env.pool.info(K_SUBJECT);
    if provisioning {
        let (s, r) = (handle_chars(rng), handle_chars(rng));
        let inputs = json!({"message": "list", "sender": s, "recipient": r, "issuing_key": K_SUBJECT});
        let case = Case { kind, inputs: &inputs };
        let (Ok(sender), Ok(recipient)) = (SenderHandle::from_str(&s), RecipientHandle::from_str(&r)) else { return };
        let msg = ProvMessage::list(sender, recipient);
        let built = build(ctx, &case, "ProvisioningCms::create", || ProvisioningCms::create(msg.clone(), &K_SUBJECT, &env.pool).map_err(|e| e.to_string()));
        let Some(built) = built else { return };
        let Some(der) = build(ctx, &case, "ProvisioningCms::to_bytes", || Ok(built.to_bytes().to_vec())) else { return };
        ctx.sig("provisioning-cms|list");
        let Some(decoded) = decode(ctx, &case, &der, || ProvisioningCms::decode(&der).map_err(|e| e.to_string())) else { return };
        // the builder chose now +- 5 minutes; the only instant known to be inside is now
        let now = Time::now();
        validate(ctx, &case, &der, "Time::now()", || decoded.validate_at(&issuer_key, now).map_err(|e| e.to_string()));
        relaxed_reencode(ctx, &der, || decoded.to_bytes().to_vec());
        ctx.eval();
        if decoded.message() != built.message() || *decoded.message() != msg {
            ctx.violation("C05:accessor-differs:provisioning-cms.message", "provisioning-cms: message() differs between built and decoded", case.detail(&der));
        }
        let (sm, _) = built.unpack();
        let r = sigmsg_checks(ctx, env, &case, &sm, &der, now, "Time::now()");
        ctx.sample(kind, || json!({"inputs": inputs.clone(), "der_len": der.len(), "observed": format!("decoded, validated now, re-encoded identically, message equal, signed-message rows {:?}", r)}));
    } else {
        let which = rng.below(3);
        let msg = match which {
            0 => PubMessage::list_query(),
            1 => PubMessage::success(),
            _ => {
                let mut d = PublishDelta::empty();
                for _ in 0..(1 + rng.usize_below(4)) {
                    let n = 1 + rng.usize_below(300); // an empty object is not publishable (and is C11's business)
                    d.add_publish(Publish::with_hash_tag(gen::rsync(rng, false, "roa"), Base64::from_content(&rng.bytes(n))));
                }
                PubMessage::delta(d)
            }
        };
        let mname = ["list_query", "success", "delta"][which as usize];
        let inputs = json!({"message": mname, "xml": msg.to_xml_string(), "issuing_key": K_SUBJECT});
        let case = Case { kind, inputs: &inputs };
        let built = build(ctx, &case, "PublicationCms::create", || PublicationCms::create(msg.clone(), &K_SUBJECT, &env.pool).map_err(|e| e.to_string()));
        let Some(built) = built else { return };
        let Some(der) = build(ctx, &case, "PublicationCms::to_bytes", || Ok(built.to_bytes().to_vec())) else { return };
        ctx.sig(&format!("publication-cms|{}", which));
        let Some(decoded) = decode(ctx, &case, &der, || PublicationCms::decode(&der).map_err(|e| e.to_string())) else { return };
        let now = Time::now();
        validate(ctx, &case, &der, "Time::now()", || decoded.validate_at(&issuer_key, now).map_err(|e| e.to_string()));
        relaxed_reencode(ctx, &der, || decoded.to_bytes().to_vec());
        ctx.eval();
        let (sm, built_msg) = built.unpack();
        if decoded.into_message() != built_msg || built_msg != msg {
            ctx.violation("C05:accessor-differs:publication-cms.message", "publication-cms: into_message() differs between built and decoded", case.detail(&der));
        }
        let r = sigmsg_checks(ctx, env, &case, &sm, &der, now, "Time::now()");
        ctx.sample(kind, || json!({"message": mname, "der_len": der.len(), "observed": format!("decoded, validated now, re-encoded identically, message equal, signed-message rows {:?}", r)}));
    }
}

//------------ driver ---------------------------------------------------------

const KINDS: [&str; 26] = [
    "cert-ca", "roa", "manifest", "crl", "aspa", "cert-ee", "cert-ta", "roa", "cert-router", "csr", "idcert-ta", "idcert-ee", "signed-message",
    "cert-detached-ee", "provisioning-cms", "publication-cms",
    // builder inputs taken from decoded foreign objects (c05_reissue)
    "reissue-crl", "reissue-cert-ca", "reissue-manifest", "reissue-cert-ta", "reissue-roa", "reissue-cert-ee", "reissue-aspa", "reissue-csr", "reissue-crl",
    "reissue-idcert-ee",
];

pub fn run(ctx: &mut Ctx) {
    if ctx.no_ffi() {
        ctx.notes.push("C05: every object needs signatures (aws-lc); no Miri stage".into());
        return;
    }
    let Some(env) = setup(ctx) else { return };
    // objects per shard: native (quick, thorough), asan, miri, valgrind
    let n = ctx.stage_budget((52_000, 1_500_000), 32_000, 0, 130);
    let mut rng = ctx.rng("objects");
    // valgrind: one round over the kinds per shard, started at different kinds
    let offset = if ctx.stage == Stage::Valgrind { (ctx.shard as usize * 3) % KINDS.len() } else { 0 };
    for i in 0..n as usize {
        let kind = KINDS[(i + offset) % KINDS.len()];
        ctx.breadcrumb(&format!("object {} kind {}", i, kind));
        match kind {
            "cert-ta" => do_cert(ctx, &env, &mut rng, CertKind::Ta),
            "cert-ca" => do_cert(ctx, &env, &mut rng, CertKind::Ca),
            "cert-ee" => do_cert(ctx, &env, &mut rng, CertKind::Ee),
            "cert-detached-ee" => do_cert(ctx, &env, &mut rng, CertKind::DetachedEe),
            "cert-router" => do_cert(ctx, &env, &mut rng, CertKind::Router),
            "crl" => do_crl(ctx, &env, &mut rng),
            "manifest" => do_manifest(ctx, &env, &mut rng),
            "roa" => do_roa(ctx, &env, &mut rng),
            "aspa" => do_aspa(ctx, &env, &mut rng),
            "csr" => do_csr(ctx, &env, &mut rng),
            "idcert-ta" => do_idcert(ctx, &env, &mut rng, true),
            "idcert-ee" => do_idcert(ctx, &env, &mut rng, false),
            "signed-message" => do_sigmsg(ctx, &env, &mut rng),
            "provisioning-cms" => do_cms(ctx, &env, &mut rng, true),
            "publication-cms" => do_cms(ctx, &env, &mut rng, false),
            "reissue-crl" => c05_reissue::do_crl(ctx, &env, &mut rng),
            "reissue-cert-ta" => c05_reissue::do_cert(ctx, &env, &mut rng, c05_foreign::Role::Ta),
            "reissue-cert-ca" => c05_reissue::do_cert(ctx, &env, &mut rng, c05_foreign::Role::Ca),
            "reissue-cert-ee" => c05_reissue::do_cert(ctx, &env, &mut rng, c05_foreign::Role::Ee),
            "reissue-manifest" => c05_reissue::do_object(ctx, &env, &mut rng, c05_reissue::ObjKind::Manifest),
            "reissue-roa" => c05_reissue::do_object(ctx, &env, &mut rng, c05_reissue::ObjKind::Roa),
            "reissue-aspa" => c05_reissue::do_object(ctx, &env, &mut rng, c05_reissue::ObjKind::Aspa),
            "reissue-csr" => c05_reissue::do_csr(ctx, &env, &mut rng),
            _ => c05_reissue::do_idcert(ctx, &env, &mut rng),
        }
        ctx.obs("objects", 1);
        ctx.obs(&format!("objects:{}", kind), 1);
    }
    ctx.obs("signatures_made", env.pool.signatures.get());
    c05_sink::finish(ctx);
}
