//! Block-sequence generators shared by C03 (and C01): boundary-dense
//! endpoints, every arrangement (sorted, reversed, shuffled, duplicates,
//! overlaps, adjacency, containment, bridging).

use crate::core::Rng;
use crate::model::IntervalSet;

#[derive(Clone, Copy, Debug, PartialEq, Eq)]
pub enum Flavour {
    As,
    V4,
    V6,
}

impl Flavour {
    pub fn name(self) -> &'static str {
        match self {
            Flavour::As => "as",
            Flavour::V4 => "v4",
            Flavour::V6 => "v6",
        }
    }

    /// Largest element in element space.
    pub fn max(self) -> u128 {
        match self {
            Flavour::As | Flavour::V4 => u32::MAX as u128,
            Flavour::V6 => u128::MAX,
        }
    }

    pub fn bits(self) -> u32 {
        match self {
            Flavour::As | Flavour::V4 => 32,
            Flavour::V6 => 128,
        }
    }

    /// Maps an element-space block to the value space the model lives in
    /// (IPv4 addresses occupy the upper 32 bits, a /32 spans 2^96 values —
    /// this is the public `Addr` convention of the library).
    pub fn embed(self, lo: u128, hi: u128) -> (u128, u128) {
        match self {
            Flavour::As | Flavour::V6 => (lo, hi),
            Flavour::V4 => (lo << 96, (hi << 96) | ((1u128 << 96) - 1)),
        }
    }

    pub fn model(self, blocks: &[(u128, u128)]) -> IntervalSet {
        let v: Vec<(u128, u128)> = blocks.iter().filter(|(a, b)| a <= b).map(|(a, b)| self.embed(*a, *b)).collect();
        IntervalSet::from_ranges(&v)
    }

    /// A boundary-dense endpoint.
    pub fn endpoint(self, rng: &mut Rng) -> u128 {
        let max = self.max();
        let bits = self.bits();
        match rng.below(12) {
            0 => 0,
            1 => rng.below(4) as u128,
            2 => max - rng.below(3) as u128,
            3 => {
                let k = rng.below(bits as u64) as u32;
                1u128 << k
            }
            4 => {
                let k = 1 + rng.below(bits as u64 - 1) as u32;
                (1u128 << k) - 1
            }
            5 => {
                let k = rng.below(bits as u64) as u32;
                ((1u128 << k) + 1).min(max)
            }
            6 => rng.below(40) as u128,
            7 => {
                // around the IPv4-mapped / -compatible IPv6 ranges (for v6), harmless elsewhere
                let base: u128 = if self == Flavour::V6 { 0xffff_0000_0000 } else { 0x0a00_0000 };
                (base + rng.below(3) as u128).wrapping_sub(rng.below(2) as u128) & max
            }
            8 => {
                // half of the space +- 1
                let half = 1u128 << (bits - 1);
                (half + rng.below(3) as u128 - 1) & max
            }
            9 => {
                // aligned value: random high bits, zero low bits
                let k = rng.below(bits as u64) as u32;
                (rng.next_u128() & max) >> k << k
            }
            10 => {
                // all-ones low bits
                let k = rng.below(bits as u64) as u32;
                ((rng.next_u128() & max) >> k << k) | ((1u128 << k) - 1)
            }
            _ => rng.next_u128() & max,
        }
    }

    pub fn block(self, rng: &mut Rng) -> (u128, u128) {
        let a = self.endpoint(rng);
        let max = self.max();
        match rng.below(6) {
            0 => (a, a),
            1 => {
                // short block
                let len = rng.below(5) as u128;
                (a, a.saturating_add(len).min(max))
            }
            2 => {
                // an aligned prefix-expressible block
                let k = rng.below(self.bits() as u64 + 1) as u32;
                if k >= self.bits() {
                    (0, max)
                } else {
                    let size = 1u128 << k;
                    let lo = a & !(size - 1);
                    (lo, lo + (size - 1))
                }
            }
            _ => {
                let b = self.endpoint(rng);
                (a.min(b), a.max(b))
            }
        }
    }
}

#[derive(Clone, Debug)]
pub struct Seq {
    pub blocks: Vec<(u128, u128)>,
    /// arrangement class for evidence
    pub shape: String,
}

/// Generates a block sequence (all blocks lo <= hi) in element space.
pub fn sequence(fl: Flavour, rng: &mut Rng, max_len: usize) -> Seq {
    let n = match rng.below(10) {
        0 => 0,
        1 => 1,
        2 => 2,
        _ => 1 + rng.usize_below(max_len.max(1)),
    };
    let mut blocks: Vec<(u128, u128)> = (0..n).map(|_| fl.block(rng)).collect();
    blocks.sort();
    let mut tags: Vec<&str> = Vec::new();
    let max = fl.max();
    // derived blocks
    let extra = rng.below(4);
    for _ in 0..extra {
        if blocks.is_empty() {
            break;
        }
        let i = rng.usize_below(blocks.len());
        let (lo, hi) = blocks[i];
        match rng.below(6) {
            0 => {
                blocks.push((lo, hi));
                tags.push("dup");
            }
            1 => {
                if hi < max {
                    let len = rng.below(4) as u128;
                    blocks.push((hi + 1, (hi + 1).saturating_add(len).min(max)));
                    tags.push("adj-after");
                }
            }
            2 => {
                if lo > 0 {
                    let len = rng.below(4) as u128;
                    blocks.push(((lo - 1).saturating_sub(len), lo - 1));
                    tags.push("adj-before");
                }
            }
            3 => {
                // contained block
                let span = hi - lo;
                let off = if span == u128::MAX { rng.next_u128() } else { rng.next_u128() % (span + 1) };
                let a = lo + off;
                blocks.push((a, hi.min(a.saturating_add(rng.below(3) as u128))));
                tags.push("nested");
            }
            4 => {
                // bridging block: from inside block i to inside block j
                let j = rng.usize_below(blocks.len());
                let (lo2, hi2) = blocks[j];
                let a = lo.min(lo2).saturating_add(rng.below(2) as u128).min(hi.min(hi2));
                let b = hi.max(hi2).saturating_sub(rng.below(2) as u128).max(a);
                blocks.push((a, b));
                tags.push("bridge");
            }
            _ => {
                // overlapping the upper end
                let b = hi.saturating_add(1 + rng.below(5) as u128).min(max);
                let a = hi.saturating_sub(rng.below(3) as u128).max(lo);
                blocks.push((a, b));
                tags.push("overlap");
            }
        }
    }
    // order
    let order = match rng.below(5) {
        0 => {
            blocks.sort();
            "sorted"
        }
        1 => {
            blocks.sort();
            blocks.reverse();
            "reversed"
        }
        2 => {
            // base blocks sorted, derived blocks (bridging, overlapping, ...) appended last
            "appended"
        }
        _ => {
            rng.shuffle(&mut blocks);
            "shuffled"
        }
    };
    tags.sort();
    tags.dedup();
    let size = match blocks.len() {
        0 => "empty",
        1 => "single",
        2..=4 => "few",
        _ => "many",
    };
    let touches0 = blocks.iter().any(|b| b.0 == 0);
    let touches_max = blocks.iter().any(|b| b.1 == max);
    Seq {
        blocks,
        shape: format!("{} {} [{}] t0={} tmax={}", size, order, tags.join(","), touches0 as u8, touches_max as u8),
    }
}

/// Exhaustive small sequences: all sequences of `len` blocks over a tiny
/// endpoint pool. `index` enumerates them; returns None past the end.
pub fn small_sequence(fl: Flavour, pool: &[u128], len: usize, mut index: u64) -> Option<Vec<(u128, u128)>> {
    // all (lo,hi) with lo<=hi over the pool
    let mut pairs = Vec::new();
    for (i, a) in pool.iter().enumerate() {
        for b in &pool[i..] {
            pairs.push((*a, *b));
        }
    }
    let _ = fl;
    let base = pairs.len() as u64;
    let total = base.checked_pow(len as u32)?;
    if index >= total {
        return None;
    }
    let mut out = Vec::with_capacity(len);
    for _ in 0..len {
        out.push(pairs[(index % base) as usize]);
        index /= base;
    }
    Some(out)
}

pub fn small_sequence_count(pool: &[u128], len: usize) -> u64 {
    let base = (pool.len() * (pool.len() + 1) / 2) as u64;
    base.pow(len as u32)
}

/// Independent test: can [lo, hi] (value space, 128 bit) be written as one prefix?
pub fn prefix_expressible(lo: u128, hi: u128) -> bool {
    if lo > hi {
        return false;
    }
    if lo == 0 && hi == u128::MAX {
        return true;
    }
    let size = hi - lo + 1;
    size.is_power_of_two() && lo % size == 0
}

/// Canonical-form predicate on observed blocks `(min, max, is_range_form)`.
/// `ip` says whether the prefix rule applies. Returns the first defect.
pub fn canonical_defect(blocks: &[(u128, u128, bool)], ip: bool) -> Option<&'static str> {
    for (i, (lo, hi, is_range)) in blocks.iter().enumerate() {
        if lo > hi {
            return Some("min-above-max");
        }
        if ip && *is_range && prefix_expressible(*lo, *hi) {
            return Some("prefix-stored-as-range");
        }
        if let Some((nlo, _, _)) = blocks.get(i + 1) {
            if nlo <= lo {
                return Some("not-ascending");
            }
            if nlo <= hi {
                return Some("overlapping");
            }
            if *hi != u128::MAX && *nlo == hi + 1 {
                return Some("adjacent");
            }
        }
    }
    None
}
