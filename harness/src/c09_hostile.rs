//! C09 — hostile inputs: never-ending generated streams measured with a
//! counting reader, large finite hostile documents, byte-mutated documents
//! and random bytes.
//!
//! Bound asserted for an endless stream (from the statement): the parser
//! returns (error or value, no panic) having pulled at most
//!     offset(start of the offending element) + limit + one buffer
//! bytes from the underlying reader, where `limit` is the header limit for
//! everything in a notification file and for the root element (and what
//! precedes it) of a snapshot / delta file, and the file limit for what
//! follows the root start tag of a snapshot / delta file. Both numbers are
//! read from hook H2 (`rpki::rrdp::VERIF_LIMITS`).

use crate::alloc;
use crate::c09_gen::{self as g, Doc, Kind, MDelta, MEl, MNotif, MSnap, Pos, SizePlan, Style};
use crate::c09_io::{CountingRead, Dribble, HostileStream};
use crate::c09_lib::{self as l, Parsed, Via};
use crate::core::{Ctx, Rng, Stage, Tier};
use serde_json::json;
use std::io::BufReader;

//------------ prefix documents ----------------------------------------------

fn prefix_model(kind: Kind, rng: &mut Rng) -> (Doc, usize) {
    let mut st = Style::random(rng);
    st.prefix_ns = false;
    st.trailing = 0;
    if st.decl == 3 {
        st.decl = 1;
    }
    let plan = SizePlan { max_elements: 4, data_cap: 120, long_uris: false };
    match kind {
        Kind::Notification => {
            let mut m: MNotif = g::gen_notif(rng, &plan);
            m.deltas.truncate(3);
            while m.deltas.len() < 3 {
                m.deltas.push((g::gen_serial(rng), g::gen_https(rng, None, false), g::gen_hash(rng)));
            }
            let d = g::write_notif(&m, &st, rng);
            let n = d.marks.children.len();
            (d, n)
        }
        Kind::Snapshot => {
            let m = MSnap {
                session: g::gen_session(rng),
                serial: g::gen_serial(rng),
                elements: vec![
                    (g::gen_rsync(rng, false), rng.bytes(5)),
                    (g::gen_rsync(rng, false), vec![]),
                    (g::gen_rsync(rng, false), rng.bytes(100)),
                ],
            };
            let d = g::write_snap(&m, &st, rng);
            let n = d.marks.children.len();
            (d, n)
        }
        Kind::Delta => {
            let m = MDelta {
                session: g::gen_session(rng),
                serial: g::gen_serial(rng),
                elements: vec![
                    MEl::Publish(g::gen_rsync(rng, false), rng.bytes(7)),
                    MEl::Withdraw(g::gen_rsync(rng, false), g::gen_hash(rng)),
                    MEl::Update(g::gen_rsync(rng, false), g::gen_hash(rng), rng.bytes(64)),
                    MEl::Withdraw(g::gen_rsync(rng, false), g::gen_hash(rng)),
                ],
            };
            let d = g::write_delta(&m, &st, rng);
            let n = d.marks.children.len();
            (d, n)
        }
    }
}

fn positions(doc: &Doc, nchildren: usize) -> Vec<Pos> {
    let mut v = vec![Pos::Root];
    for i in 0..=nchildren {
        v.push(Pos::Child(i));
    }
    for (i, c) in doc.marks.children.iter().enumerate() {
        if c.name == "publish" && c.after_start_tag.is_some() {
            v.push(Pos::Text(i));
        }
    }
    v.push(Pos::Trailing);
    v
}

fn offset_of(doc: &Doc, pos: Pos) -> usize {
    match pos {
        Pos::Root => doc.marks.root_start,
        Pos::Child(0) => doc.marks.after_root_tag,
        Pos::Child(i) => doc.marks.children[i - 1].end,
        Pos::Text(i) => doc.marks.children[i].after_start_tag.unwrap(),
        Pos::Trailing => doc.marks.end,
    }
}

//------------ one endless stream --------------------------------------------

struct HostileResult {
    pulled: u64,
    bound: u64,
    ran_to_limit: bool,
}

#[allow(clippy::too_many_arguments)]
fn run_hostile(
    ctx: &mut Ctx,
    limits: (u64, u64),
    kind: Kind,
    doc: &Doc,
    pos: Pos,
    class: &'static str,
    cap: usize,
    via: Via,
    rng: &mut Rng,
) -> Option<HostileResult> {
    let offset = offset_of(doc, pos);
    let (open, attr) = g::elem_context(kind, pos, rng);
    let (intro, unit) = g::hostile_tail(class, &open, &attr);
    let mut prefix = doc.bytes[..offset].to_vec();
    prefix.extend_from_slice(&intro);
    let header = kind == Kind::Notification || pos == Pos::Root;
    run_stream(ctx, limits, kind, prefix, offset, header, class, pos.class(), &format!("{:?}", pos), &unit, cap, via, true)
}

/// One endless stream: `prefix` (the offending element starts at `offset`
/// inside it) followed by `unit` for ever. `header` says which of the two
/// limits applies to the offending element.
#[allow(clippy::too_many_arguments)]
fn run_stream(
    ctx: &mut Ctx,
    limits: (u64, u64),
    kind: Kind,
    prefix: Vec<u8>,
    offset: usize,
    header: bool,
    class: &str,
    posclass: &str,
    posname: &str,
    unit: &[u8],
    cap: usize,
    via: Via,
    heap_check: bool,
) -> Option<HostileResult> {
    let limit = if header { limits.0 } else { limits.1 };
    let lname = if header { "header" } else { "file" };
    let bound = offset as u64 + limit + cap as u64;
    let stop_at = (bound + (limit / 4).max(1 << 20) + 4 * cap as u64).max(prefix.len() as u64 + limit / 2 + (1 << 20));
    let from = offset.min(prefix.len());
    let shown_prefix = format!(
        "{} [...] {}",
        String::from_utf8_lossy(&prefix[from.saturating_sub(120)..(from + 200).min(prefix.len())]),
        String::from_utf8_lossy(&prefix[prefix.len().saturating_sub(160)..])
    );
    let prefix_len = prefix.len();
    let unit_text = String::from_utf8_lossy(unit).into_owned();
    let detail = || {
        json!({"kind": kind.name(), "class": class, "position": posname, "offset_of_offending_element": offset,
               "prefix_len": prefix_len, "prefix_around_offset_and_tail": shown_prefix, "endless_unit": unit_text,
               "bufreader_capacity": cap, "limit": limit, "limit_kind": lname, "via": format!("{:?}", via)})
    };
    ctx.breadcrumb(&format!("hostile {} {} {} cap={}", kind.name(), class, posname, cap));
    let mut counting = CountingRead::new(HostileStream::new(prefix, unit, stop_at, if ctx.stage == Stage::Miri { 2048 } else { 1 << 16 }));
    let measure_heap = ctx.stage != Stage::Miri && heap_check;
    let (res, peak) = {
        let reader = BufReader::with_capacity(cap, &mut counting);
        let base = if measure_heap { alloc::window_start() } else { 0 };
        let res = ctx.no_panic(&format!("hostile-{}", kind.name()), detail, move || {
            l::parse_kind(kind, via, reader).map(|p| match p {
                Parsed::Collected(n) => n,
                _ => 0,
            })
        });
        let peak = if measure_heap { alloc::window_peak(base).0 } else { 0 };
        (res, peak)
    };
    ctx.eval();
    let pulled = counting.pulled;
    let stopped = counting.inner().stopped;
    ctx.sig(&format!("hostile {} {} pos={} limit={}", kind.name(), class, posclass, lname));
    let res = res?;
    let ran_to_limit = pulled > offset as u64 + limit;
    ctx.obs(&format!("hostile_streams_{}_limit", lname), 1);
    if ran_to_limit {
        ctx.obs(&format!("hostile_stopped_only_by_{}_limit", lname), 1);
        ctx.obs_max(&format!("hostile_bytes_beyond_offset_plus_{}_limit", lname), pulled - offset as u64 - limit);
    } else {
        ctx.obs("hostile_rejected_before_limit", 1);
    }
    if measure_heap {
        ctx.obs_max(&format!("hostile_peak_heap_{}_limit", lname), peak);
    }
    match &res {
        Ok(_) => ctx.obs("hostile_returned_value", 1),
        Err((c, _)) => ctx.obs(&format!("hostile_{}", c), 1),
    }
    if pulled > bound || stopped {
        ctx.violation(
            &format!("C09:overread:{}:{}:{}", kind.name(), class, posclass),
            &format!(
                "parser pulled {} bytes from the reader; offending element starts at {}, {} limit {} + buffer {} allow {}{}",
                pulled,
                offset,
                lname,
                limit,
                cap,
                bound,
                if stopped { " (generator had to stop the parser)" } else { "" }
            ),
            detail(),
        );
    }
    if measure_heap && peak > 4 * (limit + cap as u64) + (4 << 20) {
        ctx.violation(
            &format!("C09:heap:{}:{}:{}", kind.name(), class, posclass),
            &format!("peak heap {} bytes while parsing exceeds 4 x ({} limit {} + buffer)", peak, lname, limit),
            detail(),
        );
    }
    if ctx.wants_sample(&format!("hostile-{}", lname)) && ran_to_limit {
        let r = match &res {
            Ok(_) => "value".to_string(),
            Err((c, m)) => format!("{}: {}", c, m),
        };
        ctx.sample(&format!("hostile-{}", lname), || {
            json!({"kind": kind.name(), "class": class, "position": posname, "offset": offset, "capacity": cap,
                   "limit": limit, "pulled": pulled, "allowed": bound, "peak_heap": peak, "result": r})
        });
    }
    Some(HostileResult { pulled, bound, ran_to_limit })
}

//------------ two hostile regions in one element -----------------------------

/// Streams in which the offending element first spends a good part of its
/// budget on something legal but large (white space or a comment in front of
/// it, white space inside its start tag, a very long attribute value) and
/// only then never ends. The bound is the same as for every other stream —
/// one limit plus one buffer beyond the start of the element — so an
/// implementation that starts counting afresh somewhere inside the element
/// reads `first region + limit` and is seen.
const COMPOUND: &[(&str, Kind, bool)] = &[
    // (class, kind, header limit applies)
    ("long-uri-then-text", Kind::Snapshot, false),
    ("ws-in-tag-then-text", Kind::Delta, false),
    ("ws-before-then-text", Kind::Snapshot, false),
    ("comment-before-then-text", Kind::Delta, false),
    ("long-attr-then-attr-value", Kind::Delta, false),
    ("text-then-ws-after-element", Kind::Snapshot, false),
    ("long-attr-then-attr-value", Kind::Notification, true),
    ("ws-before-then-attr-name", Kind::Notification, true),
    ("comment-before-then-ws-in-tag", Kind::Notification, true),
    ("long-attr-then-attr-value@root", Kind::Snapshot, true),
    ("ws-before-then-attr-value@root", Kind::Delta, true),
];

fn compound_parts(class: &str, kind: Kind, first: usize) -> (Vec<u8>, Vec<u8>) {
    let hash = "00".repeat(32);
    let fill = |b: &str, n: usize| b.repeat(n / b.len() + 1);
    let root_open = format!("<{} xmlns=\"{}\" version=\"1\"", kind.name(), g::NS);
    let (intro, unit): (String, &str) = match class {
        "long-uri-then-text" => (format!("<publish uri=\"rsync://h.example/m/{}\">", fill("a", first)), "QUJD"),
        "ws-in-tag-then-text" => (format!("<publish{} uri=\"rsync://h.example/m/x\">", fill(" \n", first)), "QUJD"),
        "ws-before-then-text" => (format!("{}<publish uri=\"rsync://h.example/m/x\">", fill(" \n\t", first)), "QUJDQUJD\n"),
        "comment-before-then-text" => (format!("<!--{}--><publish uri=\"rsync://h.example/m/x\">", fill("c ", first)), "QUJD"),
        "long-attr-then-attr-value" if kind == Kind::Notification => {
            (format!("<delta serial=\"5\" hash=\"{}\" uri=\"https://h.example/{}\" uri=\"https://h.example/", hash, fill("a", first)), "a")
        }
        "long-attr-then-attr-value" => {
            (format!("<withdraw uri=\"rsync://h.example/m/{}\" hash=\"", fill("a", first)), "0")
        }
        "text-then-ws-after-element" => (format!("<publish uri=\"rsync://h.example/m/x\">{}</publish", fill("QUJD", first)), " \n"),
        "ws-before-then-attr-name" => (format!("{}<delta serial=\"5\" ", fill(" \n", first)), "a"),
        "comment-before-then-ws-in-tag" => (format!("<!--{}--><delta serial=\"5\" ", fill("c ", first)), " \n"),
        "long-attr-then-attr-value@root" => {
            (format!("{} session_id=\"{}\" serial=\"", root_open, fill("a", first)), "1")
        }
        "ws-before-then-attr-value@root" => (format!("{}{} session_id=\"", fill(" \n", first), root_open), "a"),
        _ => panic!("unknown compound class {}", class),
    };
    (intro.into_bytes(), unit.as_bytes().to_vec())
}

pub fn compound(ctx: &mut Ctx, limits: (u64, u64)) {
    if ctx.stage == Stage::Miri {
        return;
    }
    let mut rng = ctx.rng("hostile-compound");
    let mut cases = 0u64;
    let fractions: &[(u64, u64)] = if ctx.tier == Tier::Thorough && ctx.stage == Stage::Native { &[(1, 4), (1, 2), (9, 10)] } else { &[(1, 4)] };
    let mut index = 0u64;
    for (class, kind, header) in COMPOUND {
        for (num, den) in fractions {
            let (doc, n) = prefix_model(*kind, &mut rng);
            let cap = *rng.pick(&[1024usize, 8192, 65_536]);
            let via = if rng.bool() { Via::Owned } else { Via::Alt };
            let at_root = class.ends_with("@root");
            let pos = if at_root { Pos::Root } else { Pos::Child(rng.below(n as u64 + 1) as usize) };
            // file-limit streams cost about 100 MB of scanning each: spread them over the shards
            let slot = index;
            index += 1;
            if slot % ctx.nshards.max(1) != ctx.shard {
                continue;
            }
            if ctx.stage == Stage::Asan && !*header {
                continue;
            }
            let limit = if *header { limits.0 } else { limits.1 };
            let first = (limit * num / den) as usize;
            if first <= 4 * cap {
                continue;
            }
            let offset = offset_of(&doc, pos);
            let (intro, unit) = compound_parts(class, *kind, first);
            let mut prefix = doc.bytes[..offset].to_vec();
            prefix.extend_from_slice(&intro);
            let posclass = if at_root { "root" } else { "compound" };
            let name = format!("{:?} first-region={}/{} of the limit", pos, num, den);
            if let Some(r) = run_stream(ctx, limits, *kind, prefix, offset, *header, class, posclass, &name, &unit, cap, via, true) {
                if r.ran_to_limit {
                    ctx.obs("hostile_compound_stopped_only_by_limit", 1);
                }
            }
            cases += 1;
        }
    }
    ctx.obs("hostile_compound_cases", cases);
}

//------------ endless element after a long valid document ------------------------

/// A valid document that is itself longer than the file limit (every single
/// element within its own limit), then an element that never ends. The
/// bound for the offending element does not depend on what came before it.
pub fn after_long_valid_prefix(ctx: &mut Ctx, limits: (u64, u64)) {
    if ctx.stage != Stage::Native {
        return;
    }
    let kinds: &[Kind] = if ctx.tier == Tier::Thorough { &[Kind::Notification, Kind::Snapshot, Kind::Delta] } else { &[Kind::Notification, Kind::Snapshot] };
    let totals: &[(u64, u64)] = if ctx.tier == Tier::Thorough { &[(101, 100), (2, 1)] } else { &[(101, 100)] };
    let mut index = 0u64;
    let mut cases = 0u64;
    for kind in kinds {
        for (num, den) in totals {
            // the last shards: the first ones carry the 100 MB streams of `hostile`
            let slot = index;
            index += 1;
            if (ctx.nshards - 1 - slot % ctx.nshards.max(1)) != ctx.shard {
                continue;
            }
            let total = (limits.1 * num / den) as usize;
            if total > (1 << 30) {
                ctx.notes.push("C09: configured file limit above 1 GiB, long-valid-prefix streams skipped".into());
                return;
            }
            let uuid = g::uuid_text(&[5u8; 16]);
            let hash = "ab".repeat(32);
            let mut p = format!("<{} xmlns=\"{}\" version=\"1\" session_id=\"{}\" serial=\"7\">", kind.name(), g::NS, uuid).into_bytes();
            let mut elements = 0u64;
            let (header, class, unit): (bool, &str, &[u8]) = match kind {
                Kind::Notification => {
                    p.extend_from_slice(format!("<snapshot uri=\"https://h.example/s.xml\" hash=\"{}\"/>", hash).as_bytes());
                    // large entries (each within the header limit) up to just below the total, then ordinary ones
                    let big = ((limits.0 as usize) * 9 / 10).max(64);
                    let pad = "p".repeat(big);
                    let mut serial = 1u64;
                    while p.len() + big + 200 < total.saturating_sub(400_000) {
                        p.extend_from_slice(format!("<delta serial=\"{}\" uri=\"https://h.example/{}/d.xml\" hash=\"{}\"/>", serial, pad, hash).as_bytes());
                        serial += 1;
                        elements += 1;
                    }
                    while p.len() < total + 200_000 {
                        p.extend_from_slice(format!("<delta serial=\"{}\" uri=\"https://h.example/{}/d.xml\" hash=\"{}\"/>\n", serial, serial, hash).as_bytes());
                        serial += 1;
                        elements += 1;
                    }
                    (true, "attr-value-after-long-valid-prefix", b"a")
                }
                _ => {
                    let big = ((limits.1 as usize) * 2 / 5).max(64) / 4 * 4;
                    let text = "QUJD".repeat(big / 4);
                    while p.len() < total {
                        p.extend_from_slice(format!("<publish uri=\"rsync://h.example/m/o{}\">", elements).as_bytes());
                        p.extend_from_slice(text.as_bytes());
                        p.extend_from_slice(b"</publish>\n");
                        elements += 1;
                    }
                    (false, "text-after-long-valid-prefix", b"QUJD")
                }
            };
            let offset = p.len();
            match kind {
                Kind::Notification => p.extend_from_slice(format!("<delta serial=\"0\" hash=\"{}\" uri=\"https://h.example/", hash).as_bytes()),
                _ => p.extend_from_slice(b"<publish uri=\"rsync://h.example/m/last\">"),
            }
            ctx.obs_max("hostile_longest_valid_prefix_octets", offset as u64);
            ctx.obs("hostile_valid_prefix_elements", elements);
            let name = format!("after {} valid elements ({} octets = {}/{} of the file limit)", elements, offset, num, den);
            run_stream(ctx, limits, *kind, p, offset, header, class, "after-long-valid-prefix", &name, unit, 65_536, Via::Alt, false);
            cases += 1;
        }
    }
    ctx.obs("hostile_after_long_valid_prefix_cases", cases);
}

/// Classes that are worth 100 MB each in the quick tier.
const QUICK_FILE_CASES: &[(Kind, &str, u8)] = &[
    // (kind, class, 0 = publish text, 1 = later child, 2 = trailing, 3 = first child)
    (Kind::Snapshot, "text", 0),
    (Kind::Delta, "attr-value", 1),
    (Kind::Snapshot, "whitespace", 1),
    (Kind::Delta, "text-lines", 0),
    (Kind::Snapshot, "comments-run", 2),
    (Kind::Delta, "attrs-many", 3),
];

fn pick_pos(doc: &Doc, n: usize, sel: u8) -> Pos {
    match sel {
        0 => positions(doc, n).into_iter().find(|p| matches!(p, Pos::Text(_))).unwrap_or(Pos::Child(1)),
        1 => Pos::Child(2.min(n)),
        2 => Pos::Trailing,
        _ => Pos::Child(0),
    }
}

pub fn hostile(ctx: &mut Ctx, limits: (u64, u64)) {
    let mut rng = ctx.rng("hostile");
    let caps_header: &[usize] = &[61, 1024, 8192, 65_536, 1 << 21];
    let mut index: u64 = 0;
    let mut header_cases = 0u64;
    let mut file_cases = 0u64;
    if ctx.stage == Stage::Miri {
        // Only the classes that are rejected after a few bytes, plus one that
        // runs into the header limit (Miri executes ~1 MB of scanning).
        // (every other class scans up to the limit: 1 MB is affordable once, 100 MB is not)
        let early = ["nesting", "nesting-known"];
        for kind in Kind::ALL {
            let (doc, n) = prefix_model(kind, &mut rng);
            let ps = positions(&doc, n);
            for (k, class) in early.iter().enumerate() {
                for (j, pos) in ps.iter().enumerate() {
                    if (j + k) % 2 == 1 || (ctx.tier == Tier::Quick && j % 3 != 0) {
                        continue;
                    }
                    let mine = ctx.mine(index);
                    index += 1;
                    if mine {
                        run_hostile(ctx, limits, kind, &doc, *pos, class, 512, Via::Owned, &mut rng.clone());
                    }
                }
            }
        }
        if ctx.shard == 0 && ctx.tier == Tier::Thorough && limits.0 <= 2_000_000 {
            let (doc, _) = prefix_model(Kind::Notification, &mut rng);
            if let Some(r) = run_hostile(ctx, limits, Kind::Notification, &doc, Pos::Child(1), "attr-value", 65_536, Via::Owned, &mut rng) {
                if !r.ran_to_limit {
                    ctx.notes.push("C09/miri: the header-limit stream was rejected before the limit".into());
                }
                let _ = (r.pulled, r.bound);
            }
        }
        return;
    }
    let rounds = match (ctx.stage, ctx.tier) {
        (Stage::Native, Tier::Quick) => 1,
        (Stage::Native, Tier::Thorough) => 6,
        _ => 1,
    };
    let file_all = ctx.stage == Stage::Native && ctx.tier == Tier::Thorough;
    for round in 0..rounds {
        for kind in Kind::ALL {
            let (doc, n) = prefix_model(kind, &mut rng);
            for pos in positions(&doc, n) {
                let header = kind == Kind::Notification || pos == Pos::Root;
                for class in g::HOSTILE_CLASSES {
                    // draw unconditionally so that every shard sees the same sequence
                    let cap = *rng.pick(caps_header);
                    let via = if rng.bool() { Via::Owned } else { Via::Alt };
                    let mine = ctx.mine(index);
                    index += 1;
                    if header {
                        if mine {
                            run_hostile(ctx, limits, kind, &doc, pos, class, cap, via, &mut rng.clone());
                            header_cases += 1;
                        }
                    } else if file_all && round == 0 && mine {
                        let cap = if cap < 8192 { 65_536 } else { cap };
                        run_hostile(ctx, limits, kind, &doc, pos, class, cap, via, &mut rng.clone());
                        file_cases += 1;
                    }
                }
            }
        }
    }
    if !file_all {
        // a fixed selection of file-limit streams, one per shard
        let sel: &[(Kind, &str, u8)] = if ctx.stage == Stage::Asan { &QUICK_FILE_CASES[..2] } else { QUICK_FILE_CASES };
        for (i, (kind, class, psel)) in sel.iter().enumerate() {
            let (doc, n) = prefix_model(*kind, &mut rng);
            let via = if rng.bool() { Via::Owned } else { Via::Alt };
            if i as u64 % ctx.nshards.max(1) == ctx.shard {
                let pos = pick_pos(&doc, n, *psel);
                run_hostile(ctx, limits, *kind, &doc, pos, class, 65_536, via, &mut rng.clone());
                file_cases += 1;
            }
        }
    }
    ctx.obs("hostile_header_limit_cases", header_cases);
    ctx.obs("hostile_file_limit_cases", file_cases);
}

//------------ finite hostile documents --------------------------------------

pub fn finite_hostile(ctx: &mut Ctx) {
    if ctx.stage == Stage::Miri || ctx.shard != 0 {
        return;
    }
    let uuid = g::uuid_text(&[9u8; 16]);
    let root = |name: &str| format!("<{} xmlns=\"{}\" version=\"1\" session_id=\"{}\" serial=\"1\">", name, g::NS, uuid);
    let mut docs: Vec<(&'static str, Kind, Vec<u8>)> = Vec::new();
    // a million attributes on a publish element (8 MB, below the file limit)
    {
        let mut d = root("snapshot").into_bytes();
        d.extend_from_slice(b"<publish uri=\"rsync://h/m/x\"");
        let count = if ctx.stage == Stage::Asan { 100_000 } else { 1_000_000 };
        for i in 0..count {
            d.extend_from_slice(format!(" a{}=\"\"", i).as_bytes());
        }
        d.extend_from_slice(b">QUJD</publish></snapshot>");
        docs.push(("million-attributes", Kind::Snapshot, d));
    }
    // deep, properly closed nesting
    {
        let mut d = root("delta").into_bytes();
        let depth = 200_000;
        for _ in 0..depth {
            d.extend_from_slice(b"<publish uri=\"rsync://h/m/x\">");
        }
        for _ in 0..depth {
            d.extend_from_slice(b"</publish>");
        }
        d.extend_from_slice(b"</delta>");
        docs.push(("deep-nesting", Kind::Delta, d));
    }
    // billion laughs: internal entity declarations and a reference
    {
        let mut d = b"<?xml version=\"1.0\"?>\n<!DOCTYPE lolz [\n <!ENTITY lol \"lol\">\n".to_vec();
        for i in 1..10 {
            let prev = if i == 1 { "lol".to_string() } else { format!("lol{}", i - 1) };
            d.extend_from_slice(format!(" <!ENTITY lol{} \"{}\">\n", i, format!("&{};", prev).repeat(10)).as_bytes());
        }
        d.extend_from_slice(b"]>\n");
        let mut n = d.clone();
        n.extend_from_slice(format!("<notification xmlns=\"{}\" version=\"1\" session_id=\"{}\" serial=\"&lol9;\"><snapshot uri=\"https://h/&lol9;\" hash=\"{}\"/></notification>", g::NS, uuid, "00".repeat(32)).as_bytes());
        docs.push(("entity-expansion-attr", Kind::Notification, n));
        let mut s = d.clone();
        s.extend_from_slice(root("snapshot").as_bytes());
        s.extend_from_slice(b"<publish uri=\"rsync://h/m/x\">&lol9;</publish></snapshot>");
        docs.push(("entity-expansion-text", Kind::Snapshot, s));
    }
    // a long run of predefined entities in an attribute that is then used
    {
        let mut d = format!("<notification xmlns=\"{}\" version=\"1\" session_id=\"{}\" serial=\"1\"><snapshot hash=\"{}\" uri=\"https://h/", g::NS, uuid, "00".repeat(32)).into_bytes();
        for _ in 0..150_000 {
            d.extend_from_slice(b"&amp;");
        }
        d.extend_from_slice(b"\"/></notification>");
        docs.push(("entity-run-attr", Kind::Notification, d));
    }
    for (name, kind, d) in docs {
        for via in [Via::Owned, Via::Alt] {
            ctx.breadcrumb(&format!("finite hostile {} {:?}", name, via));
            let mut counting = CountingRead::new(&d[..]);
            let base = alloc::window_start();
            let res = ctx.no_panic(&format!("finite-{}", name), || json!({"document": name, "length": d.len()}), || {
                l::parse_kind(kind, via, BufReader::with_capacity(8192, &mut counting)).map(|_| ())
            });
            let peak = alloc::window_peak(base).0;
            ctx.eval();
            ctx.sig(&format!("finite {} {:?}", name, via));
            ctx.obs_max(&format!("finite_{}_peak_heap", name), peak);
            if let Some(r) = res {
                ctx.obs(if r.is_ok() { "finite_hostile_accepted" } else { "finite_hostile_rejected" }, 1);
                if via == Via::Owned {
                    ctx.sample("finite-hostile", || json!({"document": name, "length": d.len(), "pulled": counting.pulled, "peak_heap": peak,
                        "result": match &r { Ok(()) => "value".to_string(), Err((c, m)) => format!("{}: {}", c, m) }}));
                }
            }
            // polling a reader after it reported end of file is not forbidden by the statement; recorded
            ctx.obs_max("finite_reads_after_eof", counting.reads_after_eof);
        }
    }
}

//------------ mutation and random bytes -------------------------------------

const TOKENS: &[&[u8]] = &[
    b"<", b">", b"&", b"\"", b"'", b"/>", b"</", b"<!--", b"-->", b"--", b"<![CDATA[", b"]]>", b"<?", b"?>", b"&amp;", b"&#0;",
    b"&#x0;", b"&#xD800;", b"&#x110000;", b"&#99999999999;", b"&#x;", b"&;", b"&lol;", b"<!DOCTYPE", b"<!ENTITY", b" xmlns=\"\"",
    b" xmlns:x=\"y\"", b" x:uri=\"a\"", b" xmlns:xml=\"z\"", b" xmlns:xmlns=\"z\"", b":", b"\0", b"\xEF\xBB\xBF", b"\xFF\xFE", b"\xFE\xFF", b"\xC0\x80",
    b"\xED\xA0\x80", b"\xF4\x90\x80\x80", b"==", b"=", b"A===", b"A", b" ", b"\n", b"\r", b"18446744073709551616", b"18446744073709551615", b"-1",
    b"+5", b"<publish uri=\"rsync://h/m/x\">", b"</publish>", b"<withdraw/>", b"</notification>", b"</snapshot>", b"</delta>",
    b"<r:a xmlns:r=\"q\"/>", b"<a:b/>", b"]>", b"<!", b"<!>", b"<?xml?>", b"<?xml version=\"1.0\"?>",
];

fn mutate(rng: &mut Rng, src: &[u8], other: &[u8]) -> (&'static str, Vec<u8>) {
    let mut d = src.to_vec();
    if d.is_empty() {
        return ("empty", d);
    }
    let at = |rng: &mut Rng, d: &Vec<u8>| rng.usize_below(d.len().max(1));
    match rng.below(13) {
        0 => {
            for _ in 0..rng.range(1, 3) {
                let i = at(rng, &d);
                d[i] ^= 1 << rng.below(8);
            }
            ("bitflip", d)
        }
        1 => {
            let i = at(rng, &d);
            d[i] = *rng.pick(&[0u8, b'<', b'>', b'&', b'"', b'\'', b'/', b'=', b' ', 0x7f, 0x80, 0xff, b';', b'#', b'!', b'?', b'-', b']', b':']);
            ("byte-set", d)
        }
        2 => {
            let i = at(rng, &d);
            let n = (rng.range(1, 32) as usize).min(d.len() - i);
            d.drain(i..i + n);
            ("delete-range", d)
        }
        3 => {
            let i = at(rng, &d);
            let n = (rng.range(1, 64) as usize).min(d.len() - i);
            let piece = d[i..i + n].to_vec();
            let j = at(rng, &d);
            d.splice(j..j, piece);
            ("duplicate-range", d)
        }
        4 | 5 => {
            let i = at(rng, &d);
            let t = rng.pick(TOKENS);
            d.splice(i..i, t.iter().copied());
            ("insert-token", d)
        }
        6 => {
            let i = at(rng, &d);
            d.truncate(i);
            ("truncate", d)
        }
        7 => {
            let i = at(rng, &d);
            let t = rng.pick(TOKENS);
            let n = t.len().min(d.len() - i);
            d.splice(i..i + n, t.iter().copied());
            ("overwrite-token", d)
        }
        8 => {
            // replace a run of digits
            let starts: Vec<usize> = (0..d.len()).filter(|i| d[*i].is_ascii_digit() && (*i == 0 || !d[*i - 1].is_ascii_alphanumeric())).collect();
            if let Some(&s) = starts.get(rng.usize_below(starts.len().max(1))) {
                let mut e = s;
                while e < d.len() && d[e].is_ascii_digit() {
                    e += 1;
                }
                let t: &[u8] = *rng.pick(&[&b"18446744073709551616"[..], b"18446744073709551615", b"-1", b"+5", b"", b"0x10", b"1e3", b" 1", b"00000000000000000000001", b"2"]);
                d.splice(s..e, t.iter().copied());
            }
            ("replace-number", d)
        }
        9 => {
            let qs: Vec<usize> = (0..d.len()).filter(|i| d[*i] == b'"').collect();
            if let Some(&q) = qs.get(rng.usize_below(qs.len().max(1))) {
                d[q] = b'\'';
            }
            ("quote-toggle", d)
        }
        10 => {
            let gs: Vec<usize> = (0..d.len()).filter(|i| d[*i] == b'>').collect();
            if let Some(&q) = gs.get(rng.usize_below(gs.len().max(1))) {
                if q > 0 && d[q - 1] == b'/' {
                    d.remove(q - 1);
                } else {
                    d.insert(q, b'/');
                }
            }
            ("toggle-empty-tag", d)
        }
        11 => {
            if !other.is_empty() {
                let i = at(rng, &d);
                let j = rng.usize_below(other.len());
                d.truncate(i);
                d.extend_from_slice(&other[j..]);
            }
            ("crossover", d)
        }
        _ => {
            let i = at(rng, &d);
            let j = at(rng, &d);
            let (a, b) = (i.min(j), i.max(j));
            d[a..b].reverse();
            ("reverse-range", d)
        }
    }
}

fn feed(ctx: &mut Ctx, rng: &mut Rng, kind: Kind, what: &str, d: &[u8]) {
    let via = if rng.chance(1, 3) { Via::Alt } else { Via::Owned };
    let dribble = rng.chance(1, 4);
    let cap = *rng.pick(&DRIBBLE_CAPS);
    feed_as(ctx, kind, via, if dribble { Some(cap) } else { None }, what, d);
}

/// `BufReader` capacities used when a document is dribbled to the parser.
pub const DRIBBLE_CAPS: [usize; 5] = [1, 2, 5, 16, 4096];

/// One document through one parser of `kind` (`via`: the owned parser or
/// `parse_limited` / the collecting processor), optionally dribbled through a
/// `BufReader` of `dribble_cap` octets: no panic, and a value the owned parser
/// accepts must survive `write_xml` followed by a parse to an equal value.
/// (Also the evaluation function of the libFuzzer target `c09_rrdp`.)
pub fn feed_as(ctx: &mut Ctx, kind: Kind, via: Via, dribble_cap: Option<usize>, what: &str, d: &[u8]) {
    let dribble = dribble_cap.is_some();
    let cap = dribble_cap.unwrap_or(1);
    let detail = || json!({"kind": kind.name(), "mutator": what, "via": format!("{:?}", via), "dribble_cap": if dribble { Some(cap) } else { None }, "input_hex": crate::core::hex(&d[..d.len().min(6000)]), "input_len": d.len()});
    let res = ctx.no_panic(&format!("parse-{}", kind.name()), detail, || {
        if dribble {
            l::parse_kind(kind, via, BufReader::with_capacity(cap, Dribble::new(d, vec![1, 3, 2])))
        } else {
            l::parse_kind(kind, via, d)
        }
    });
    ctx.eval();
    let Some(res) = res else { return };
    match res {
        Ok(p) => {
            ctx.obs("mutants_accepted", 1);
            ctx.sig(&format!("mutant {} {} accepted", kind.name(), what));
            // an accepted value is a file value: it must survive the library's own write/parse
            if via == Via::Owned {
                match ctx.no_panic("write_xml+parse of accepted mutant", detail, || l::reroundtrip(&p)) {
                    Some(Some(Ok(true))) => ctx.obs("accepted_mutants_roundtrip_ok", 1),
                    Some(Some(Ok(false))) => ctx.violation(&format!("C09:roundtrip:{}:accepted-foreign-value-not-equal", kind.name()), "a value accepted from a foreign document does not round-trip through write_xml/parse", detail()),
                    Some(Some(Err(e))) => ctx.violation(&format!("C09:roundtrip:{}:accepted-foreign-value-rejected", kind.name()), &format!("a value accepted from a foreign document is rejected after write_xml: {}", e), detail()),
                    _ => {}
                }
            }
        }
        Err((class, _)) => {
            ctx.obs(&format!("mutants_{}", class), 1);
            ctx.sig(&format!("mutant {} {} {}", kind.name(), what, class));
        }
    }
}

pub fn mutation(ctx: &mut Ctx) {
    let n = crate::c09_io::budget(ctx, (200_000, 3_000_000), 120_000, (8, 80));
    let mut rng = ctx.rng("mutation");
    let tiny = ctx.stage == Stage::Miri;
    let plan = if tiny { SizePlan { max_elements: 2, data_cap: 20, long_uris: false } } else { SizePlan { max_elements: 5, data_cap: 90, long_uris: false } };
    // seed corpus: library-written and foreign-style documents of every kind
    let mut seeds: Vec<(Kind, Vec<u8>)> = Vec::new();
    let nseeds = if tiny { 2 } else { 8 };
    for i in 0..nseeds {
        let st = if i % 2 == 0 { Style::plain() } else { Style::random(&mut rng) };
        let mut m = g::gen_notif(&mut rng, &plan);
        if m.deltas.is_empty() {
            m.deltas.push((5, g::gen_https(&mut rng, None, false), g::gen_hash(&mut rng)));
        }
        seeds.push((Kind::Notification, g::write_notif(&m, &st, &mut rng).bytes));
        let mut s = g::gen_snap(&mut rng, &plan);
        if s.elements.is_empty() {
            s.elements.push((g::gen_rsync(&mut rng, false), vec![1, 2, 3, 4]));
        }
        seeds.push((Kind::Snapshot, g::write_snap(&s, &st, &mut rng).bytes));
        let mut d = g::gen_delta(&mut rng, &plan);
        if d.elements.len() < 2 {
            d.elements.push(MEl::Update(g::gen_rsync(&mut rng, false), g::gen_hash(&mut rng), vec![9; 10]));
            d.elements.push(MEl::Withdraw(g::gen_rsync(&mut rng, false), g::gen_hash(&mut rng)));
        }
        seeds.push((Kind::Delta, g::write_delta(&d, &st, &mut rng).bytes));
        if i % 2 == 0 {
            // the library's own spelling as a seed as well
            if let Some(v) = l::lib_delta(&d) {
                let mut x = Vec::new();
                if v.write_xml(&mut x).is_ok() {
                    seeds.push((Kind::Delta, x));
                }
            }
            if let Some(v) = l::lib_notif(&m) {
                let mut x = Vec::new();
                if v.write_xml(&mut x).is_ok() {
                    seeds.push((Kind::Notification, x));
                }
            }
        }
    }
    // every truncation point of one small document per kind (shard 0 of the stage)
    if ctx.shard == 0 && !(tiny && ctx.tier == Tier::Quick) {
        for kind in Kind::ALL {
            if let Some((_, doc)) = seeds.iter().filter(|s| s.0 == kind).min_by_key(|s| s.1.len()) {
                let doc = doc.clone();
                let step = if tiny { (doc.len() / 12).max(1) } else { 1 };
                let mut cut = 0;
                while cut < doc.len() {
                    feed(ctx, &mut rng, kind, "truncate-every-offset", &doc[..cut]);
                    cut += step;
                }
            }
        }
    }
    for i in 0..n {
        if i % 256 == 0 {
            // cheap breadcrumb: the case sequence is a pure function of (seed, shard)
            ctx.breadcrumb(&format!("mutation cases {}..{} of rng(\"mutation\")", i, i + 256));
        }
        let (kind, src) = {
            let s = &seeds[rng.usize_below(seeds.len())];
            (s.0, s.1.clone())
        };
        let other = seeds[rng.usize_below(seeds.len())].1.clone();
        let target = if rng.chance(1, 12) { *rng.pick(&Kind::ALL) } else { kind };
        match i % 10 {
            9 => {
                let len = rng.range(0, 300) as usize;
                let d: Vec<u8> = match rng.below(3) {
                    0 => rng.bytes(len),
                    1 => (0..len).map(|_| *rng.pick(b"<>/=\"' &;!-?[]ax:#\n")).collect(),
                    _ => {
                        let mut d = Vec::new();
                        while d.len() < len {
                            let t: &[u8] = *rng.pick(TOKENS); d.extend_from_slice(t);
                        }
                        d
                    }
                };
                feed(ctx, &mut rng, target, "random-bytes", &d);
            }
            _ => {
                let (what, mut d) = mutate(&mut rng, &src, &other);
                let mut name = what;
                if rng.chance(1, 4) {
                    let (_, d2) = mutate(&mut rng, &d, &other);
                    d = d2;
                    name = "two-mutations";
                }
                feed(ctx, &mut rng, target, name, &d);
            }
        }
    }
}
