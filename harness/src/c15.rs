//! C15 — stub (monitor not built yet).
use crate::core::Ctx;

pub fn run(ctx: &mut Ctx) {
    ctx.notes.push("C15: monitor not built yet".into());
}
