//! C15 — SLURM local exceptions: drop decision, JSON round trip, assertions.
//!
//! Oracle: the match formula of the property statement, written here over
//! plain tuples (family, address bits, length, ASN, key identifier octets);
//! nothing of it calls into the library. A file drops a payload item exactly
//! when one of its filters *of that kind* has at least one criterion and all
//! its present criteria match.

use crate::core::{hex, Ctx, Stage, Tier};
use rpki::crypto::keys::KeyIdentifier;
use rpki::resources::addr::{MaxLenPrefix, Prefix};
use rpki::resources::asn::Asn;
use rpki::rtr::payload::Payload;
use rpki::rtr::pdu::{ProviderAsns, RouterKeyInfo};
use rpki::slurm::{
    AspaAssertion, AspaFilter, Base64KeyInfo, BgpsecAssertion, BgpsecFilter, LocallyAddedAssertions, PrefixAssertion, PrefixFilter, SlurmFile,
    ValidationOutputFilters,
};
use serde_json::{json, Value};
use std::net::{IpAddr, Ipv4Addr, Ipv6Addr};
use std::str::FromStr;

//============ Model ===========================================================

/// A prefix as plain data: v4 addresses live in the low 32 bits.
#[derive(Clone, Copy, Debug, PartialEq, Eq)]
struct Pfx {
    v4: bool,
    addr: u128,
    len: u8,
}

impl Pfx {
    const fn v4(a: u8, b: u8, c: u8, d: u8, len: u8) -> Self {
        Pfx { v4: true, addr: ((a as u128) << 24) | ((b as u128) << 16) | ((c as u128) << 8) | d as u128, len }
    }
    const fn v6(hi: u64, lo: u64, len: u8) -> Self {
        Pfx { v4: false, addr: ((hi as u128) << 64) | lo as u128, len }
    }
    fn width(self) -> u32 {
        if self.v4 {
            32
        } else {
            128
        }
    }
    fn ip(self) -> IpAddr {
        if self.v4 {
            IpAddr::V4(Ipv4Addr::from(self.addr as u32))
        } else {
            IpAddr::V6(Ipv6Addr::from(self.addr))
        }
    }
    fn text(self) -> String {
        format!("{}/{}", self.ip(), self.len)
    }
    fn lib(self) -> Prefix {
        Prefix::new(self.ip(), self.len).expect("model prefix is valid")
    }
    /// `self` covers `other`: same family, not longer, same leading bits.
    fn covers(self, other: Pfx) -> bool {
        if self.v4 != other.v4 || self.len > other.len {
            return false;
        }
        if self.len == 0 {
            return true;
        }
        let shift = self.width() - self.len as u32;
        (self.addr >> shift) == (other.addr >> shift)
    }
    fn relation(self, other: Pfx) -> &'static str {
        if self.v4 != other.v4 {
            "other-family"
        } else if self == other {
            "equal"
        } else if self.covers(other) {
            "less-specific"
        } else if other.covers(self) {
            "more-specific"
        } else {
            "disjoint"
        }
    }
}

type Ski = [u8; 20];

#[derive(Clone, Debug)]
enum Item {
    Origin { prefix: Pfx, max_len: Option<u8>, asn: u32 },
    RouterKey { ski: Ski, asn: u32, info: Vec<u8> },
    Aspa { customer: u32, providers: Vec<u32> },
}

impl Item {
    fn kind(&self) -> &'static str {
        match self {
            Item::Origin { .. } => "origin",
            Item::RouterKey { .. } => "router-key",
            Item::Aspa { .. } => "aspa",
        }
    }
    fn lib(&self) -> Payload {
        match self {
            Item::Origin { prefix, max_len, asn } => Payload::origin(MaxLenPrefix::new(prefix.lib(), *max_len).expect("model max-len is valid"), Asn::from_u32(*asn)),
            Item::RouterKey { ski, asn, info } => Payload::router_key(KeyIdentifier::from(*ski), Asn::from_u32(*asn), RouterKeyInfo::try_from(info.clone()).expect("key info")),
            Item::Aspa { customer, providers } => Payload::aspa(Asn::from_u32(*customer), ProviderAsns::try_from_iter(providers.iter().map(|a| Asn::from_u32(*a))).expect("providers")),
        }
    }
    fn json(&self) -> Value {
        match self {
            Item::Origin { prefix, max_len, asn } => json!({"kind": "origin", "prefix": prefix.text(), "maxLength": max_len, "asn": asn}),
            Item::RouterKey { ski, asn, info } => json!({"kind": "router-key", "ski": hex(ski), "asn": asn, "keyInfoLen": info.len()}),
            Item::Aspa { customer, providers } => json!({"kind": "aspa", "customer": customer, "providers": providers}),
        }
    }
}

#[derive(Clone, Debug, PartialEq)]
struct PF {
    prefix: Option<Pfx>,
    asn: Option<u32>,
    comment: Option<String>,
}
#[derive(Clone, Debug, PartialEq)]
struct BF {
    ski: Option<Ski>,
    asn: Option<u32>,
    comment: Option<String>,
}
#[derive(Clone, Debug, PartialEq)]
struct AF {
    customer: Option<u32>,
    comment: Option<String>,
}

impl PF {
    fn lib(&self) -> PrefixFilter {
        PrefixFilter::new(self.prefix.map(Pfx::lib), self.asn.map(Asn::from_u32), self.comment.clone())
    }
    /// (matches, class text: presence and per-criterion outcome)
    fn matches(&self, item: &Item) -> (bool, String) {
        match item {
            Item::Origin { prefix, asn, .. } => {
                let p = self.prefix.map(|f| f.covers(*prefix));
                let a = self.asn.map(|f| f == *asn);
                let m = (p.is_some() || a.is_some()) && p.unwrap_or(true) && a.unwrap_or(true);
                let rel = self.prefix.map(|f| f.relation(*prefix)).unwrap_or("absent");
                (m, format!("prefix:{rel},asn:{}", tri(a)))
            }
            _ => (false, format!("prefix:{},asn:{} vs-other-kind", pres(self.prefix.is_some()), pres(self.asn.is_some()))),
        }
    }
    fn json(&self) -> Value {
        json!({"prefix": self.prefix.map(Pfx::text), "asn": self.asn, "comment": self.comment})
    }
}

impl BF {
    fn lib(&self) -> BgpsecFilter {
        BgpsecFilter::new(self.ski.map(KeyIdentifier::from), self.asn.map(Asn::from_u32), self.comment.clone())
    }
    fn matches(&self, item: &Item) -> (bool, String) {
        match item {
            Item::RouterKey { ski, asn, .. } => {
                let k = self.ski.map(|f| f == *ski);
                let a = self.asn.map(|f| f == *asn);
                let m = (k.is_some() || a.is_some()) && k.unwrap_or(true) && a.unwrap_or(true);
                (m, format!("ski:{},asn:{}", tri(k), tri(a)))
            }
            _ => (false, format!("ski:{},asn:{} vs-other-kind", pres(self.ski.is_some()), pres(self.asn.is_some()))),
        }
    }
    fn json(&self) -> Value {
        json!({"ski": self.ski.map(|k| hex(&k)), "asn": self.asn, "comment": self.comment})
    }
}

impl AF {
    fn lib(&self) -> AspaFilter {
        AspaFilter::new(self.customer.map(Asn::from_u32), self.comment.clone())
    }
    fn matches(&self, item: &Item) -> (bool, String) {
        match item {
            Item::Aspa { customer, .. } => {
                let c = self.customer.map(|f| f == *customer);
                (c.unwrap_or(false), format!("customer:{}", tri(c)))
            }
            _ => (false, format!("customer:{} vs-other-kind", pres(self.customer.is_some()))),
        }
    }
    fn json(&self) -> Value {
        json!({"customerAsid": self.customer, "comment": self.comment})
    }
}

fn tri(x: Option<bool>) -> &'static str {
    match x {
        None => "absent",
        Some(true) => "match",
        Some(false) => "miss",
    }
}

fn pres(x: bool) -> &'static str {
    if x {
        "present"
    } else {
        "absent"
    }
}

/// The filter part of a file as plain data.
#[derive(Clone, Debug, Default)]
struct Filters {
    prefix: Vec<PF>,
    bgpsec: Vec<BF>,
    aspa: Option<Vec<AF>>,
}

impl Filters {
    fn lib(&self) -> ValidationOutputFilters {
        let mut f = ValidationOutputFilters::new(self.prefix.iter().map(PF::lib).collect::<Vec<_>>(), self.bgpsec.iter().map(BF::lib).collect::<Vec<_>>());
        f.aspa = self.aspa.as_ref().map(|v| v.iter().map(AF::lib).collect());
        f
    }
    /// The statement's formula.
    fn drops(&self, item: &Item) -> bool {
        match item {
            Item::Origin { .. } => self.prefix.iter().any(|f| f.matches(item).0),
            Item::RouterKey { .. } => self.bgpsec.iter().any(|f| f.matches(item).0),
            Item::Aspa { .. } => self.aspa.iter().flatten().any(|f| f.matches(item).0),
        }
    }
    fn class_for(&self, item: &Item) -> String {
        let parts: Vec<String> = match item {
            Item::Origin { .. } => self.prefix.iter().map(|f| f.matches(item).1).collect(),
            Item::RouterKey { .. } => self.bgpsec.iter().map(|f| f.matches(item).1).collect(),
            Item::Aspa { .. } => self.aspa.iter().flatten().map(|f| f.matches(item).1).collect(),
        };
        parts.join(" | ")
    }
    fn own_len(&self, item: &Item) -> usize {
        match item {
            Item::Origin { .. } => self.prefix.len(),
            Item::RouterKey { .. } => self.bgpsec.len(),
            Item::Aspa { .. } => self.aspa.as_ref().map(|v| v.len()).unwrap_or(0),
        }
    }
    fn json(&self) -> Value {
        json!({
            "prefixFilters": self.prefix.iter().map(PF::json).collect::<Vec<_>>(),
            "bgpsecFilters": self.bgpsec.iter().map(BF::json).collect::<Vec<_>>(),
            "aspaFilters": self.aspa.as_ref().map(|v| v.iter().map(AF::json).collect::<Vec<_>>()),
        })
    }
}

//============ The enumerated universe =========================================

const AS_A: u32 = 64500;
const AS_B: u32 = 64501;
const AS_C: u32 = 4_200_000_000;

const SKI_K: Ski = [0x11, 0x22, 0x33, 0x44, 0x55, 0x66, 0x77, 0x88, 0x99, 0xaa, 0xbb, 0xcc, 0xdd, 0xee, 0xff, 0x00, 0x01, 0x02, 0x03, 0x04];

fn ski_last_bit() -> Ski {
    let mut k = SKI_K;
    k[19] ^= 1;
    k
}

fn ski_first_bit() -> Ski {
    let mut k = SKI_K;
    k[0] ^= 0x80;
    k
}

fn filter_prefixes() -> Vec<Pfx> {
    vec![
        Pfx::v4(0, 0, 0, 0, 0),
        Pfx::v4(10, 0, 0, 0, 8),
        Pfx::v4(10, 1, 0, 0, 16),
        Pfx::v4(10, 1, 1, 0, 24),
        Pfx::v4(10, 2, 0, 0, 16),
        Pfx::v4(10, 1, 1, 1, 32),
        Pfx::v6(0, 0, 0),
        Pfx::v6(0x2001_0db8_0000_0000, 0, 32),
        Pfx::v6(0x2001_0db8_0000_0000, 1, 128),
    ]
}

fn prefix_specs() -> Vec<PF> {
    let mut v = Vec::new();
    let mut prefixes: Vec<Option<Pfx>> = vec![None];
    prefixes.extend(filter_prefixes().into_iter().map(Some));
    for p in &prefixes {
        for a in [None, Some(AS_A), Some(AS_B)] {
            v.push(PF { prefix: *p, asn: a, comment: None });
        }
    }
    v.push(PF { prefix: None, asn: None, comment: Some("only a comment".into()) });
    v
}

fn bgpsec_specs() -> Vec<BF> {
    let mut v = Vec::new();
    for k in [None, Some(SKI_K), Some(ski_last_bit()), Some(ski_first_bit())] {
        for a in [None, Some(AS_A), Some(AS_B)] {
            v.push(BF { ski: k, asn: a, comment: None });
        }
    }
    v.push(BF { ski: None, asn: None, comment: Some("only a comment".into()) });
    v
}

fn aspa_specs() -> Vec<AF> {
    let mut v = Vec::new();
    for c in [None, Some(AS_A), Some(AS_B), Some(0), Some(u32::MAX)] {
        for comment in [None, Some("c".to_string())] {
            v.push(AF { customer: c, comment });
        }
    }
    v
}

fn payloads() -> Vec<Item> {
    vec![
        Item::Origin { prefix: Pfx::v4(10, 1, 0, 0, 16), max_len: Some(24), asn: AS_A },
        Item::Origin { prefix: Pfx::v4(10, 1, 1, 0, 24), max_len: None, asn: AS_B },
        Item::Origin { prefix: Pfx::v4(10, 1, 1, 1, 32), max_len: Some(32), asn: AS_A },
        Item::Origin { prefix: Pfx::v4(0, 0, 0, 0, 0), max_len: Some(8), asn: AS_C },
        Item::Origin { prefix: Pfx::v6(0x2001_0db8_0000_0000, 0, 32), max_len: Some(48), asn: AS_A },
        Item::Origin { prefix: Pfx::v6(0x2001_0db8_0000_0000, 1, 128), max_len: None, asn: AS_B },
        Item::Origin { prefix: Pfx::v6(0, 0x0000_ffff_0a01_0000, 112), max_len: None, asn: AS_A }, // ::ffff:10.1.0.0/112
        Item::RouterKey { ski: SKI_K, asn: AS_A, info: vec![0x30, 0x59, 0x30, 0x13] },
        Item::RouterKey { ski: SKI_K, asn: AS_B, info: vec![] },
        Item::RouterKey { ski: ski_last_bit(), asn: AS_A, info: vec![1, 2, 3] },
        Item::RouterKey { ski: ski_first_bit(), asn: AS_C, info: vec![0xff; 91] },
        Item::Aspa { customer: AS_A, providers: vec![AS_B, AS_C] },
        Item::Aspa { customer: AS_B, providers: vec![] },
        Item::Aspa { customer: 0, providers: vec![AS_A] },
        Item::Aspa { customer: u32::MAX, providers: vec![AS_A, AS_A] },
    ]
}

/// Filters of the *other* kinds that accompany an enumerated list.
fn context(which: usize, own: &str) -> Filters {
    let mut f = Filters::default();
    if which == 0 {
        return f;
    }
    // one criterion-free filter and one ASN-only filter for AS_A in every other kind:
    // they must act on their own kind only
    if own != "origin" {
        f.prefix = vec![PF { prefix: None, asn: None, comment: None }, PF { prefix: None, asn: Some(AS_A), comment: None }];
    }
    if own != "router-key" {
        f.bgpsec = vec![BF { ski: None, asn: None, comment: None }, BF { ski: None, asn: Some(AS_A), comment: None }];
    }
    if own != "aspa" {
        f.aspa = Some(vec![AF { customer: None, comment: None }, AF { customer: Some(AS_A), comment: None }]);
    }
    f
}

struct DropStats {
    evals: u64,
    dropped: u64,
    kept: u64,
    files: u64,
}

/// One file against all payload items.
fn check_file(ctx: &mut Ctx, st: &mut DropStats, filters: &Filters, items: &[(Item, Payload)]) {
    let lib_filters = filters.lib();
    let file = SlurmFile::new(lib_filters.clone(), LocallyAddedAssertions::default());
    st.files += 1;
    for (item, payload) in items {
        let want = filters.drops(item);
        let got = file.drop_payload(payload);
        let got2 = lib_filters.drop_payload(payload);
        st.evals += 1;
        if got {
            st.dropped += 1;
        } else {
            st.kept += 1;
        }
        if got != want {
            let what = if want { "filter-matches-but-kept" } else { "dropped-without-matching-filter" };
            ctx.violation(
                &format!("C15:file-drop:{}:{}", item.kind(), what),
                &format!("SlurmFile::drop_payload = {} for a {} item, the statement's formula gives {} ({})", got, item.kind(), want, filters.class_for(item)),
                json!({"filters": filters.json(), "payload": item.json(), "expected_drop": want, "observed_drop": got}),
            );
        }
        if got2 != got {
            ctx.violation(
                "C15:file-drop:file-and-filters-disagree",
                "SlurmFile::drop_payload and ValidationOutputFilters::drop_payload differ",
                json!({"filters": filters.json(), "payload": item.json(), "file": got, "filters_result": got2}),
            );
        }
        if filters.own_len(item) > 0 {
            ctx.sig(&format!("drop {} [{}] -> {}", item.kind(), filters.class_for(item), want));
        }
    }
}

/// Every single filter against every payload item (own kind: the formula;
/// other kinds: never), through drop_payload and the kind-specific method.
fn check_single_filters(ctx: &mut Ctx, st: &mut DropStats, items: &[(Item, Payload)]) {
    let report = |ctx: &mut Ctx, fkind: &str, class: &str, want: bool, got: bool, method: &str, fjson: Value, item: &Item| {
        ctx.violation(
            &format!("C15:{}-filter:{}:{}", fkind, class.replace(' ', "_"), if want { "kept" } else { "dropped" }),
            &format!("{} filter {} = {} but the formula gives {} ({})", fkind, method, got, want, class),
            json!({"filter": fjson, "payload": item.json(), "method": method, "expected_drop": want, "observed_drop": got}),
        );
    };
    for spec in prefix_specs() {
        let f = spec.lib();
        for (item, payload) in items {
            let (want, class) = spec.matches(item);
            let got = f.drop_payload(payload);
            st.evals += 1;
            if got != want {
                report(ctx, "prefix", &class, want, got, "drop_payload", spec.json(), item);
            }
            if let Payload::Origin(o) = payload {
                let got = f.drop_origin(*o);
                st.evals += 1;
                if got != want {
                    report(ctx, "prefix", &class, want, got, "drop_origin", spec.json(), item);
                }
            }
            ctx.sig(&format!("single prefix-filter {} -> {}", class, want));
        }
    }
    for spec in bgpsec_specs() {
        let f = spec.lib();
        for (item, payload) in items {
            let (want, class) = spec.matches(item);
            let got = f.drop_payload(payload);
            st.evals += 1;
            if got != want {
                report(ctx, "bgpsec", &class, want, got, "drop_payload", spec.json(), item);
            }
            if let Payload::RouterKey(k) = payload {
                let got = f.drop_router_key(k);
                st.evals += 1;
                if got != want {
                    report(ctx, "bgpsec", &class, want, got, "drop_router_key", spec.json(), item);
                }
            }
            ctx.sig(&format!("single bgpsec-filter {} -> {}", class, want));
        }
    }
    for spec in aspa_specs() {
        let f = spec.lib();
        for (item, payload) in items {
            let (want, class) = spec.matches(item);
            let got = f.drop_payload(payload);
            st.evals += 1;
            if got != want {
                report(ctx, "aspa", &class, want, got, "drop_payload", spec.json(), item);
            }
            if let Payload::Aspa(a) = payload {
                let got = f.drop_aspa(a);
                st.evals += 1;
                if got != want {
                    report(ctx, "aspa", &class, want, got, "drop_aspa", spec.json(), item);
                }
            }
            ctx.sig(&format!("single aspa-filter {} -> {}", class, want));
        }
    }
}

/// Calls `f` with every list of length 0..=max over `n` specs (as index lists).
fn for_each_list(n: usize, max: usize, mut f: impl FnMut(&[usize])) {
    let mut cur: Vec<usize> = Vec::new();
    f(&cur);
    for len in 1..=max {
        cur.clear();
        cur.resize(len, 0);
        loop {
            f(&cur);
            // increment
            let mut i = len;
            loop {
                if i == 0 {
                    break;
                }
                i -= 1;
                cur[i] += 1;
                if cur[i] < n {
                    break;
                }
                cur[i] = 0;
                if i == 0 {
                    i = usize::MAX;
                    break;
                }
            }
            if i == usize::MAX {
                break;
            }
        }
    }
}

fn part_drop(ctx: &mut Ctx) {
    let items: Vec<(Item, Payload)> = payloads().into_iter().map(|i| (i.clone(), i.lib())).collect();
    let mut st = DropStats { evals: 0, dropped: 0, kept: 0, files: 0 };
    let nshards = ctx.nshards.max(1);
    // Native stages enumerate everything (split over shards); the
    // instrumented stages take every `thin`-th file.
    let (max_len, thin): (usize, u64) = match ctx.stage {
        Stage::Native => (3, 1),
        Stage::Asan => (3, 7),
        _ => (3, 1613),
    };
    let ps = prefix_specs();
    let bs = bgpsec_specs();
    let as_ = aspa_specs();
    if !matches!(ctx.stage, Stage::Native | Stage::Asan) {
        // interpreter stage: walking the whole index space costs more than
        // the budget; draw files from it at random instead
        let mut rng = ctx.rng("miri-files");
        let n = ctx.stage_budget((0, 0), 0, if ctx.tier == Tier::Thorough { 240 } else { 72 }, 100);
        let few: Vec<(Item, Payload)> = items.iter().enumerate().filter(|(i, _)| i % 2 == (ctx.shard % 2) as usize).map(|(_, x)| x.clone()).collect();
        for _ in 0..n {
            let kind = rng.below(3);
            let own = ["origin", "router-key", "aspa"][kind as usize];
            let mut f = context(rng.usize_below(2), own);
            let len = rng.usize_below(4);
            match kind {
                0 => f.prefix = (0..len).map(|_| rng.pick(&ps).clone()).collect(),
                1 => f.bgpsec = (0..len).map(|_| rng.pick(&bs).clone()).collect(),
                _ => f.aspa = Some((0..len).map(|_| rng.pick(&as_).clone()).collect()),
            }
            check_file(ctx, &mut st, &f, &few);
        }
        ctx.evals(st.evals);
        ctx.obs("drop_decisions_dropped", st.dropped);
        ctx.obs("drop_decisions_kept", st.kept);
        ctx.obs("filter_files_built", st.files);
        return;
    }
    if ctx.shard == 0 {
        check_single_filters(ctx, &mut st, &items);
    }
    let mut file_idx: u64 = 0;
    let shard = ctx.shard;
    let take = |i: u64| -> bool {
        if thin > 1 {
            i % thin == 0 && (i / thin) % nshards == shard
        } else {
            i % nshards == shard
        }
    };
    for which in 0..2 {
        let base = context(which, "origin");
        for_each_list(ps.len(), max_len, |idx| {
            let i = file_idx;
            file_idx += 1;
            if !take(i) {
                return;
            }
            let mut f = base.clone();
            f.prefix = idx.iter().map(|&k| ps[k].clone()).collect();
            check_file(ctx, &mut st, &f, &items);
        });
        let base = context(which, "router-key");
        for_each_list(bs.len(), max_len, |idx| {
            let i = file_idx;
            file_idx += 1;
            if !take(i) {
                return;
            }
            let mut f = base.clone();
            f.bgpsec = idx.iter().map(|&k| bs[k].clone()).collect();
            check_file(ctx, &mut st, &f, &items);
        });
        let base = context(which, "aspa");
        for_each_list(as_.len(), max_len, |idx| {
            let i = file_idx;
            file_idx += 1;
            if !take(i) {
                return;
            }
            let mut f = base.clone();
            f.aspa = Some(idx.iter().map(|&k| as_[k].clone()).collect());
            check_file(ctx, &mut st, &f, &items);
            if idx.is_empty() {
                // no ASPA member at all
                f.aspa = None;
                check_file(ctx, &mut st, &f, &items);
            }
        });
    }
    // mixed files: one filter of every kind, all combinations of a reduced spec set
    {
        let pick = |n: usize| -> Vec<usize> { (0..n).step_by(2).collect() };
        for &a in &pick(ps.len()) {
            for &b in &pick(bs.len()) {
                for &c in &pick(as_.len()) {
                    let i = file_idx;
                    file_idx += 1;
                    if !take(i) {
                        continue;
                    }
                    let f = Filters { prefix: vec![ps[a].clone()], bgpsec: vec![bs[b].clone()], aspa: Some(vec![as_[c].clone()]) };
                    check_file(ctx, &mut st, &f, &items);
                }
            }
        }
    }
    if ctx.stage == Stage::Native {
        ctx.exhaustive = Some(true);
    }
    ctx.evals(st.evals);
    ctx.obs("drop_decisions_dropped", st.dropped);
    ctx.obs("drop_decisions_kept", st.kept);
    ctx.obs("filter_files_built", st.files);
    if ctx.shard == 0 {
        let f = Filters { prefix: vec![PF { prefix: Some(Pfx::v4(10, 0, 0, 0, 8)), asn: Some(AS_B), comment: None }], ..Default::default() };
        let file = SlurmFile::new(f.lib(), LocallyAddedAssertions::default());
        for k in [0usize, 1] {
            let (item, payload) = &items[k];
            let (want, got) = (f.drops(item), file.drop_payload(payload));
            ctx.sample("drop", || json!({"filters": f.json(), "payload": item.json(), "formula": want, "observed": got}));
        }
        let f = Filters { bgpsec: vec![BF { ski: Some(SKI_K), asn: None, comment: None }], ..Default::default() };
        let file = SlurmFile::new(f.lib(), LocallyAddedAssertions::default());
        let (item, payload) = &items[7];
        let (want, got) = (f.drops(item), file.drop_payload(payload));
        ctx.sample("drop", || json!({"filters": f.json(), "payload": item.json(), "formula": want, "observed": got}));
    }
}

//============ JSON round trip and assertions ==================================

#[derive(Clone, Debug, Default)]
struct FileSpec {
    filters: Filters,
    prefix: Vec<(Pfx, Option<u8>, u32, Option<String>)>,
    bgpsec: Vec<(u32, Ski, Vec<u8>, Option<String>)>,
    aspa: Option<Vec<(u32, Vec<u32>, Option<String>)>>,
}

fn random_comment(rng: &mut crate::core::Rng) -> Option<String> {
    if rng.chance(2, 5) {
        return None;
    }
    let specials: &[char] = &[
        '"', '\\', '/', '\u{0}', '\u{1}', '\u{8}', '\n', '\r', '\t', '\u{1f}', '\u{7f}', '\u{80}', '\u{a0}', '\u{2028}', '\u{2029}', '\u{feff}', '\u{fffd}',
        '\u{ffff}', '\u{10000}', '\u{1f600}', '\u{10ffff}', '\u{301}', '\u{d7ff}', '\u{e000}', '{', '}', '[', ']', ':', ',', ' ',
    ];
    let len = rng.usize_below(12);
    let mut s = String::new();
    for _ in 0..len {
        let c = match rng.below(4) {
            0 => *rng.pick(specials),
            1 => char::from_u32(rng.below(0x11_0000) as u32).unwrap_or('\u{fffd}'),
            _ => (b'a' + rng.below(26) as u8) as char,
        };
        s.push(c);
    }
    Some(s)
}

fn random_pfx(rng: &mut crate::core::Rng) -> Pfx {
    if rng.chance(1, 6) {
        return *rng.pick(&filter_prefixes());
    }
    if rng.chance(1, 12) {
        // v4-mapped v6 space
        let len = 96 + rng.below(33) as u8;
        let addr = (0xffffu128 << 32) | rng.next_u32() as u128;
        let shift = 128 - len as u32;
        let addr = if shift == 0 { addr } else { (addr >> shift) << shift };
        return Pfx { v4: false, addr, len };
    }
    if rng.bool() {
        let len = match rng.below(4) {
            0 => 0,
            1 => 32,
            _ => rng.below(33) as u8,
        };
        let raw = rng.next_u32() as u128;
        let addr = if len == 0 { 0 } else { (raw >> (32 - len as u32)) << (32 - len as u32) };
        Pfx { v4: true, addr, len }
    } else {
        let len = match rng.below(4) {
            0 => 0,
            1 => 128,
            _ => rng.below(129) as u8,
        };
        let raw = rng.next_u128();
        let addr = if len == 0 { 0 } else { (raw >> (128 - len as u32)) << (128 - len as u32) };
        Pfx { v4: false, addr, len }
    }
}

fn random_asn(rng: &mut crate::core::Rng) -> u32 {
    match rng.below(5) {
        0 => 0,
        1 => u32::MAX,
        2 => *rng.pick(&[AS_A, AS_B, AS_C, 65535, 65536, 23456]),
        _ => rng.next_u32(),
    }
}

fn random_ski(rng: &mut crate::core::Rng) -> Ski {
    let mut k = [0u8; 20];
    match rng.below(5) {
        0 => {}
        1 => k = [0xff; 20],
        2 => k = SKI_K,
        _ => k.copy_from_slice(&rng.bytes(20)),
    }
    k
}

fn random_file(rng: &mut crate::core::Rng, big: bool) -> FileSpec {
    let mut f = FileSpec::default();
    let n = |rng: &mut crate::core::Rng| -> usize {
        if rng.chance(1, 4) {
            0
        } else {
            rng.usize_below(5)
        }
    };
    for _ in 0..n(rng) {
        f.filters.prefix.push(PF { prefix: if rng.bool() { Some(random_pfx(rng)) } else { None }, asn: if rng.bool() { Some(random_asn(rng)) } else { None }, comment: random_comment(rng) });
    }
    for _ in 0..n(rng) {
        f.filters.bgpsec.push(BF { ski: if rng.bool() { Some(random_ski(rng)) } else { None }, asn: if rng.bool() { Some(random_asn(rng)) } else { None }, comment: random_comment(rng) });
    }
    if rng.bool() {
        let mut v = Vec::new();
        for _ in 0..n(rng) {
            v.push(AF { customer: if rng.chance(3, 4) { Some(random_asn(rng)) } else { None }, comment: random_comment(rng) });
        }
        f.filters.aspa = Some(v);
    }
    for _ in 0..n(rng) {
        let p = random_pfx(rng);
        let max = if p.v4 { 32u8 } else { 128 };
        let max_len = match rng.below(4) {
            0 => None,
            1 => Some(p.len),
            2 => Some(max),
            _ => Some(p.len + rng.below((max - p.len) as u64 + 1) as u8),
        };
        f.prefix.push((p, max_len, random_asn(rng), random_comment(rng)));
    }
    for _ in 0..n(rng) {
        let ilen = match rng.below(4) {
            0 => 0,
            1 => 91,
            _ => rng.usize_below(200),
        };
        f.bgpsec.push((random_asn(rng), random_ski(rng), rng.bytes(ilen), random_comment(rng)));
    }
    if rng.bool() {
        let mut v = Vec::new();
        for _ in 0..n(rng) {
            // small lists mostly; sometimes long ones up to the protocol's maximum of 16380
            let np = if big && rng.chance(1, 50) { *rng.pick(&[2000usize, 16379, 16380]) } else { rng.usize_below(7) };
            let mut provs: Vec<u32> = (0..np).map(|_| random_asn(rng)).collect();
            if rng.bool() {
                provs.sort();
            }
            v.push((random_asn(rng), provs, random_comment(rng)));
        }
        f.aspa = Some(v);
    }
    f
}

impl FileSpec {
    fn lib(&self) -> SlurmFile {
        let mut a = LocallyAddedAssertions::new(
            self.prefix
                .iter()
                .map(|(p, ml, asn, c)| PrefixAssertion::new(MaxLenPrefix::new(p.lib(), *ml).expect("max-len"), Asn::from_u32(*asn), c.clone()))
                .collect::<Vec<_>>(),
            self.bgpsec
                .iter()
                .map(|(asn, ski, info, c)| BgpsecAssertion::new(Asn::from_u32(*asn), KeyIdentifier::from(*ski), Base64KeyInfo::try_from(info.clone()).expect("key info"), c.clone()))
                .collect::<Vec<_>>(),
        );
        a.aspa = self.aspa.as_ref().map(|v| {
            v.iter()
                .map(|(cust, provs, c)| AspaAssertion::new(Asn::from_u32(*cust), ProviderAsns::try_from_iter(provs.iter().map(|x| Asn::from_u32(*x))).expect("providers"), c.clone()))
                .collect()
        });
        SlurmFile::new(self.filters.lib(), a)
    }

    /// The payload items the assertions stand for, in file order.
    fn items(&self) -> Vec<Item> {
        let mut v = Vec::new();
        for (p, ml, asn, _) in &self.prefix {
            v.push(Item::Origin { prefix: *p, max_len: *ml, asn: *asn });
        }
        for (asn, ski, info, _) in &self.bgpsec {
            v.push(Item::RouterKey { ski: *ski, asn: *asn, info: info.clone() });
        }
        for (cust, provs, _) in self.aspa.iter().flatten() {
            v.push(Item::Aspa { customer: *cust, providers: provs.clone() });
        }
        v
    }

    /// RFC 8416 (+ASPA draft) JSON text written without the library.
    fn handwritten_json(&self, version: u8) -> String {
        fn b64url(data: &[u8]) -> String {
            const T: &[u8; 64] = b"ABCDEFGHIJKLMNOPQRSTUVWXYZabcdefghijklmnopqrstuvwxyz0123456789-_";
            let mut s = String::new();
            for c in data.chunks(3) {
                let n = (c[0] as u32) << 16 | (*c.get(1).unwrap_or(&0) as u32) << 8 | *c.get(2).unwrap_or(&0) as u32;
                s.push(T[(n >> 18) as usize & 63] as char);
                s.push(T[(n >> 12) as usize & 63] as char);
                if c.len() > 1 {
                    s.push(T[(n >> 6) as usize & 63] as char);
                }
                if c.len() > 2 {
                    s.push(T[n as usize & 63] as char);
                }
            }
            s
        }
        fn put(o: &mut serde_json::Map<String, Value>, k: &str, v: Option<Value>) {
            if let Some(v) = v {
                o.insert(k.into(), v);
            }
        }
        let mut filters = serde_json::Map::new();
        filters.insert(
            "prefixFilters".into(),
            Value::Array(
                self.filters
                    .prefix
                    .iter()
                    .map(|f| {
                        let mut o = serde_json::Map::new();
                        put(&mut o, "prefix", f.prefix.map(|p| json!(p.text())));
                        put(&mut o, "asn", f.asn.map(|a| json!(a)));
                        put(&mut o, "comment", f.comment.clone().map(Value::String));
                        Value::Object(o)
                    })
                    .collect(),
            ),
        );
        filters.insert(
            "bgpsecFilters".into(),
            Value::Array(
                self.filters
                    .bgpsec
                    .iter()
                    .map(|f| {
                        let mut o = serde_json::Map::new();
                        put(&mut o, "SKI", f.ski.map(|k| json!(b64url(&k))));
                        put(&mut o, "asn", f.asn.map(|a| json!(a)));
                        put(&mut o, "comment", f.comment.clone().map(Value::String));
                        Value::Object(o)
                    })
                    .collect(),
            ),
        );
        if let Some(v) = &self.filters.aspa {
            filters.insert(
                "aspaFilters".into(),
                Value::Array(
                    v.iter()
                        .map(|f| {
                            let mut o = serde_json::Map::new();
                            put(&mut o, "customerAsid", f.customer.map(|a| json!(a)));
                            put(&mut o, "comment", f.comment.clone().map(Value::String));
                            Value::Object(o)
                        })
                        .collect(),
                ),
            );
        }
        let mut assertions = serde_json::Map::new();
        assertions.insert(
            "prefixAssertions".into(),
            Value::Array(
                self.prefix
                    .iter()
                    .map(|(p, ml, asn, c)| {
                        let mut o = serde_json::Map::new();
                        o.insert("prefix".into(), json!(p.text()));
                        o.insert("asn".into(), json!(asn));
                        put(&mut o, "maxPrefixLength", ml.map(|m| json!(m)));
                        put(&mut o, "comment", c.clone().map(Value::String));
                        Value::Object(o)
                    })
                    .collect(),
            ),
        );
        assertions.insert(
            "bgpsecAssertions".into(),
            Value::Array(
                self.bgpsec
                    .iter()
                    .map(|(asn, ski, info, c)| {
                        let mut o = serde_json::Map::new();
                        o.insert("asn".into(), json!(asn));
                        o.insert("SKI".into(), json!(b64url(ski)));
                        o.insert("routerPublicKey".into(), json!(b64url(info)));
                        put(&mut o, "comment", c.clone().map(Value::String));
                        Value::Object(o)
                    })
                    .collect(),
            ),
        );
        if let Some(v) = &self.aspa {
            assertions.insert(
                "aspaAssertions".into(),
                Value::Array(
                    v.iter()
                        .map(|(cust, provs, c)| {
                            let mut o = serde_json::Map::new();
                            o.insert("customerAsn".into(), json!(cust));
                            o.insert("providerAsns".into(), json!(provs));
                            put(&mut o, "comment", c.clone().map(Value::String));
                            Value::Object(o)
                        })
                        .collect(),
                ),
            );
        }
        json!({"slurmVersion": version, "validationOutputFilters": filters, "locallyAddedAssertions": assertions}).to_string()
    }
}

/// Compares one library payload item with the model item, field by field.
fn same_item(model: &Item, got: &Payload) -> Result<(), String> {
    match (model, got) {
        (Item::Origin { prefix, max_len, asn }, Payload::Origin(o)) => {
            let p = o.prefix.prefix();
            if p.addr() != prefix.ip() || p.len() != prefix.len {
                return Err(format!("prefix {}/{} instead of {}", p.addr(), p.len(), prefix.text()));
            }
            if o.prefix.max_len() != *max_len {
                return Err(format!("max-length {:?} instead of {:?}", o.prefix.max_len(), max_len));
            }
            if o.asn.into_u32() != *asn {
                return Err(format!("asn {} instead of {}", o.asn.into_u32(), asn));
            }
            Ok(())
        }
        (Item::RouterKey { ski, asn, info }, Payload::RouterKey(k)) => {
            if k.key_identifier.as_slice() != ski {
                return Err(format!("key identifier {} instead of {}", hex(k.key_identifier.as_slice()), hex(ski)));
            }
            if k.asn.into_u32() != *asn {
                return Err(format!("asn {} instead of {}", k.asn.into_u32(), asn));
            }
            if k.key_info.as_slice() != info.as_slice() {
                return Err(format!("key info {} instead of {}", hex(k.key_info.as_slice()), hex(info)));
            }
            Ok(())
        }
        (Item::Aspa { customer, providers }, Payload::Aspa(a)) => {
            if a.customer.into_u32() != *customer {
                return Err(format!("customer {} instead of {}", a.customer.into_u32(), customer));
            }
            let got: Vec<u32> = a.providers.iter().map(|x| x.into_u32()).collect();
            if &got != providers {
                return Err(format!("providers {:?} instead of {:?}", got, providers));
            }
            Ok(())
        }
        (m, g) => Err(format!("a {} assertion yields a {:?} item", m.kind(), g.payload_type())),
    }
}

fn check_items(ctx: &mut Ctx, spec: &FileSpec, file: &SlurmFile, origin: &str, text: &str) -> u64 {
    let want = spec.items();
    let got: Vec<Payload> = file.assertions.iter_payload().collect();
    if got.len() != want.len() {
        ctx.violation(
            &format!("C15:iter_payload:count:{}", origin),
            &format!("iter_payload yields {} items for {} assertions", got.len(), want.len()),
            json!({"json": text}),
        );
        return 1;
    }
    for (i, (m, g)) in want.iter().zip(got.iter()).enumerate() {
        if let Err(e) = same_item(m, g) {
            ctx.violation(
                &format!("C15:iter_payload:{}:{}", m.kind(), origin),
                &format!("item {} of iter_payload: {}", i, e),
                json!({"json": text, "index": i, "assertion": m.json()}),
            );
        }
    }
    want.len() as u64 + 1 + check_adapters(ctx, file, &got, origin, text)
}

/// However the iterator is advanced (`nth`, `skip`, `step_by`, `last`, `count`, mixtures of
/// `next` and `nth`), it must yield the items plain stepping yields, in the same order.
fn check_adapters(ctx: &mut Ctx, file: &SlurmFile, plain: &[Payload], origin: &str, text: &str) -> u64 {
    let n = plain.len();
    let mut evals = 0u64;
    let bad = |ctx: &mut Ctx, how: String, got: Vec<Payload>, want: Vec<Payload>| {
        ctx.violation(
            &format!("C15:iter_payload:adapter-differs-from-plain-stepping:{}", origin),
            &format!("iter_payload advanced with {} yields {} items, plain stepping gives {} (first difference at {:?})", how, got.len(), want.len(), got.iter().zip(want.iter()).position(|(a, b)| a != b)),
            json!({"json": text, "adapter": how, "got": format!("{:?}", got), "plain": format!("{:?}", want)}),
        );
    };
    let res = crate::core::catch(|| {
        let mut out: Vec<(String, Vec<Payload>, Vec<Payload>)> = Vec::new();
        for k in 0..=n + 1 {
            out.push((format!("skip({})", k), file.assertions.iter_payload().skip(k).collect(), plain.iter().skip(k).cloned().collect()));
            if k > 0 {
                out.push((format!("step_by({})", k), file.assertions.iter_payload().step_by(k).collect(), plain.iter().step_by(k).cloned().collect()));
            }
            // nth(k), then plain stepping to the end
            let mut it = file.assertions.iter_payload();
            let mut got: Vec<Payload> = it.nth(k).into_iter().collect();
            got.extend(it);
            out.push((format!("nth({}) then next..", k), got, plain.iter().skip(k).cloned().collect()));
            // next, nth(k), next, nth(k) ...
            let mut it = file.assertions.iter_payload();
            let mut pit = plain.iter();
            let (mut got, mut want) = (Vec::new(), Vec::new());
            for round in 0..n + 2 {
                let (a, b) = if round % 2 == 0 { (it.next(), pit.next()) } else { (it.nth(k), pit.nth(k)) };
                got.extend(a);
                want.extend(b.cloned());
            }
            out.push((format!("next / nth({}) alternating", k), got, want));
        }
        out.push(("last()".into(), file.assertions.iter_payload().last().into_iter().collect(), plain.last().cloned().into_iter().collect()));
        let c = file.assertions.iter_payload().count();
        let (lo, hi) = file.assertions.iter_payload().size_hint();
        (out, c, lo, hi)
    });
    match res {
        Err(text_p) => ctx.violation(
            &format!("C15:iter_payload:adapter-panics:{}", crate::core::panic_location(&text_p)),
            &format!("advancing iter_payload with an iterator adapter panicked: {}", text_p),
            json!({"json": text}),
        ),
        Ok((out, c, lo, hi)) => {
            for (how, got, want) in out {
                evals += 1;
                if got != want {
                    bad(ctx, how, got, want);
                    break;
                }
            }
            if c != n {
                ctx.violation(&format!("C15:iter_payload:count()-differs:{}", origin), &format!("count() = {} for {} items", c, n), json!({"json": text}));
            }
            if lo > n || hi.map(|h| h < n).unwrap_or(false) {
                ctx.violation(&format!("C15:iter_payload:size_hint-excludes-truth:{}", origin), &format!("size_hint = ({}, {:?}) for {} items", lo, hi, n), json!({"json": text}));
            }
            ctx.obs("iter_payload_adapter_walks", evals);
        }
    }
    evals
}

fn part_json(ctx: &mut Ctx) {
    let n = ctx.stage_budget((5_000, 2_000_000), 3_000, if ctx.tier == Tier::Thorough { 32 } else { 8 }, 0);
    let mut rng = ctx.rng("json");
    let mut jrng = ctx.rng("json-escapes");
    let mut evals = 0u64;
    let (mut with_aspa, mut hand_ok, mut hand_rej, mut hand_eq) = (0u64, 0u64, 0u64, 0u64);
    for i in 0..n {
        let spec = random_file(&mut rng, ctx.stage == Stage::Native && (ctx.tier == Tier::Thorough || i % 4 == 0));
        let mut file = spec.lib();
        if i % 11 == 0 && spec.filters.aspa.is_none() && spec.aspa.is_none() {
            // a version-1 file that gained an ASPA member through its public field
            file.filters.aspa = Some(vec![AspaFilter::new(Some(Asn::from_u32(1)), None)]);
        }
        let has_aspa = file.filters.aspa.is_some() || file.assertions.aspa.is_some();
        if has_aspa {
            with_aspa += 1;
        }
        let shape = format!(
            "json aspa-filters={} aspa-assertions={} pf={} bf={} pa={} ba={} comments={}",
            file.filters.aspa.as_ref().map(|v| v.len().min(2) as i32).unwrap_or(-1),
            file.assertions.aspa.as_ref().map(|v| v.len().min(2) as i32).unwrap_or(-1),
            file.filters.prefix.len().min(2),
            file.filters.bgpsec.len().min(2),
            file.assertions.prefix.len().min(2),
            file.assertions.bgpsec.len().min(2),
            spec.prefix.iter().any(|x| x.3.is_some()) || spec.filters.prefix.iter().any(|x| x.comment.is_some()),
        );
        ctx.sig(&shape);
        // compact and pretty, through from_str and from_reader
        let compact = match ctx.no_panic("to_string", || json!({"spec": format!("{:?}", spec)}), || file.to_string()) {
            Some(s) => s,
            None => continue,
        };
        let pretty = match ctx.no_panic("to_string_pretty", || json!({"spec": format!("{:?}", spec)}), || file.to_string_pretty()) {
            Some(s) => s,
            None => continue,
        };
        for (name, text) in [("compact", &compact), ("pretty", &pretty)] {
            evals += 1;
            match SlurmFile::from_str(text) {
                Ok(back) => {
                    if back != file {
                        ctx.violation(
                            &format!("C15:json-roundtrip:{}:not-equal", name),
                            "from_str(to_string(file)) != file",
                            json!({"json": text, "reparsed": back.to_string()}),
                        );
                    }
                }
                Err(e) => {
                    ctx.violation(
                        &format!("C15:json-roundtrip:{}:rejected", name),
                        &format!("the file's own JSON is rejected: {}", e),
                        json!({"json": text}),
                    );
                }
            }
        }
        evals += 1;
        match SlurmFile::from_reader(compact.as_bytes()) {
            Ok(back) if back == file => {}
            other => {
                ctx.violation("C15:json-roundtrip:from_reader", "from_reader(to_string(file)) != file", json!({"json": compact, "error": other.err().map(|e| e.to_string())}));
            }
        }
        // other JSON transports of the same document: strings that carry escapes (a deserialiser
        // cannot lend such a string out of its input), serde_json::Value, the token format
        {
            let escaped = escape_json_strings(&compact, &mut jrng);
            evals += 1;
            match SlurmFile::from_str(&escaped) {
                Ok(back) if back == file => {}
                other => ctx.violation(
                    "C15:json-roundtrip:escaped-strings",
                    "the file's own JSON with its string contents written as JSON escapes (\\/ and \\uXXXX) does not parse back to an equal file",
                    json!({"json": escaped, "error": other.err().map(|e| e.to_string())}),
                ),
            }
            evals += 1;
            match serde_json::to_value(&file).map_err(|e| e.to_string()).and_then(|v| serde_json::from_value::<SlurmFile>(v).map_err(|e| e.to_string())) {
                Ok(back) if back == file => {}
                other => ctx.violation(
                    "C15:json-roundtrip:value",
                    "serde_json::from_value(to_value(file)) != file",
                    json!({"json": compact, "error": other.err()}),
                ),
            }
            if let Ok(tok) = crate::serde_tok::to_tok(&file, true) {
                for de in crate::serde_tok::De::all(true) {
                    if de.structs_as_seq {
                        continue; // JSON presents objects as maps
                    }
                    evals += 1;
                    match crate::serde_tok::from_tok::<SlurmFile>(&tok, de) {
                        Ok(back) if back == file => {}
                        other => ctx.violation(
                            "C15:json-roundtrip:string-transport",
                            &format!("the file's serde form does not read back over a human-readable format with {:?} strings", de.strings),
                            json!({"json": compact, "error": other.err().map(|e| e.to_string())}),
                        ),
                    }
                }
            }
        }
        let mut w = Vec::new();
        if file.to_writer(&mut w).is_ok() {
            evals += 1;
            if w != compact.as_bytes() {
                ctx.obs("to_writer_differs_from_to_string", 1);
            }
        }
        // the writer entry points into a sink that takes only a few bytes per
        // call: what arrives must still parse back to the same file
        if i % 7 == 0 {
            for pretty_variant in [false, true] {
                let mut sink = ShortSink { out: Vec::new(), max: 1 + (i as usize % 13) };
                let res = if pretty_variant { file.to_writer_pretty(&mut sink) } else { file.to_writer(&mut sink) };
                evals += 1;
                let what = if pretty_variant { "to_writer_pretty" } else { "to_writer" };
                match res {
                    Ok(()) => match SlurmFile::from_reader(sink.out.as_slice()) {
                        Ok(back) if back == file => {}
                        other => {
                            ctx.violation(
                                &format!("C15:json-roundtrip:{}-short-writes", what),
                                &format!("{} into a sink with short writes does not parse back to the same file", what),
                                json!({"written": String::from_utf8_lossy(&sink.out).chars().take(400).collect::<String>(), "expected_len": compact.len(), "written_len": sink.out.len(), "error": other.err().map(|e| e.to_string())}),
                            );
                        }
                    },
                    Err(_) => ctx.obs("to_writer_short_sink_error", 1),
                }
            }
        }
        // the assertions yield exactly their fields
        if i % 11 != 0 || has_aspa == (spec.filters.aspa.is_some() || spec.aspa.is_some()) {
            evals += check_items(ctx, &spec, &file, "constructed", &compact);
        }
        // a file written by hand from the same data
        // Files with ASPA members normally say version 2; a version-1 file that
        // carries them anyway is offered too: the parser may refuse it, but if it
        // accepts the file its filters must work like any others.
        let has_aspa_member = spec.filters.aspa.is_some() || spec.aspa.is_some();
        let version = if has_aspa_member { if rng.chance(1, 3) { 1 } else { 2 } } else if rng.chance(1, 4) { 2 } else { 1 };
        let hand = spec.handwritten_json(version);
        match SlurmFile::from_str(&hand) {
            Ok(parsed) => {
                hand_ok += 1;
                evals += check_items(ctx, &spec, &parsed, "parsed", &hand);
                // what it says about dropping equals what the model says
                // probe with the file's own assertions and with items made to match its filters
                let mut probes: Vec<Item> = spec.items().into_iter().take(4).collect();
                if let Some(af) = &spec.filters.aspa {
                    for f in af.iter().take(2) {
                        if let Some(c) = f.customer {
                            probes.push(Item::Aspa { customer: c, providers: vec![c.wrapping_add(1)] });
                        }
                    }
                }
                for f in spec.filters.bgpsec.iter().take(2) {
                    if let (Some(ski), Some(asn)) = (f.ski.clone(), f.asn) {
                        probes.push(Item::RouterKey { ski, asn, info: vec![1, 2, 3] });
                    }
                }
                ctx.sig(&format!("handwritten json version={} aspa-member={} accepted", version, has_aspa_member));
                for item in probes.iter() {
                    evals += 1;
                    let want = spec.filters.drops(item);
                    let got = parsed.drop_payload(&item.lib());
                    if got != want {
                        let what = if want { "filter-matches-but-kept" } else { "dropped-without-matching-filter" };
                        ctx.violation(
                            &format!("C15:file-drop:{}:{}", item.kind(), what),
                            &format!("parsed file: drop_payload = {}, formula gives {}", got, want),
                            json!({"json": hand, "payload": item.json()}),
                        );
                    }
                }
                evals += 1;
                match SlurmFile::from_str(&parsed.to_string()) {
                    Ok(back) if back == parsed => {}
                    other => {
                        ctx.violation(
                            "C15:json-roundtrip:parsed-file",
                            "a parsed file does not survive to_string/from_str",
                            json!({"json": hand, "error": other.err().map(|e| e.to_string())}),
                        );
                    }
                }
                if parsed.filters == spec.filters.lib() && parsed.assertions == spec.lib().assertions {
                    hand_eq += 1;
                }
            }
            Err(_) => {
                hand_rej += 1;
            }
        }
        if i < 2 && ctx.shard == 0 {
            let n_items = spec.items().len();
            ctx.sample("json", || json!({"compact": compact, "assertions": n_items, "reparsed_equal": SlurmFile::from_str(&compact).map(|b| b == file).unwrap_or(false)}));
        }
    }
    // the two degenerate files
    for file in [SlurmFile::default(), SlurmFile::new(ValidationOutputFilters::default(), LocallyAddedAssertions::default())] {
        evals += 1;
        match SlurmFile::from_str(&file.to_string()) {
            Ok(back) if back == file => {}
            _ => ctx.violation("C15:json-roundtrip:empty-file", "an empty file does not round-trip", json!({"json": file.to_string()})),
        }
    }
    ctx.evals(evals);
    ctx.obs("json_files", n);
    ctx.obs("json_files_with_aspa_member", with_aspa);
    ctx.obs("handwritten_json_accepted", hand_ok);
    ctx.obs("handwritten_json_rejected", hand_rej);
    ctx.obs("handwritten_json_equal_to_constructed", hand_eq);
}

pub fn run(ctx: &mut Ctx) {
    ctx.breadcrumb("C15 drop");
    part_drop(ctx);
    ctx.breadcrumb("C15 json");
    part_json(ctx);
}


/// An `io::Write` that takes at most `max` bytes per call.
struct ShortSink {
    out: Vec<u8>,
    max: usize,
}

impl std::io::Write for ShortSink {
    fn write(&mut self, buf: &[u8]) -> std::io::Result<usize> {
        let n = buf.len().min(self.max);
        self.out.extend_from_slice(&buf[..n]);
        Ok(n)
    }
    fn flush(&mut self) -> std::io::Result<()> {
        Ok(())
    }
}

/// The same JSON document with (some of) the characters inside its string
/// literals written as escapes: `/` as `\/`, letters and digits as `\uXXXX`.
/// Existing escapes are left alone.
fn escape_json_strings(text: &str, rng: &mut crate::core::Rng) -> String {
    let mut out = String::with_capacity(text.len() * 2);
    let mut in_str = false;
    let mut chars = text.chars();
    while let Some(c) = chars.next() {
        if !in_str {
            if c == '"' {
                in_str = true;
            }
            out.push(c);
            continue;
        }
        match c {
            '"' => {
                in_str = false;
                out.push(c);
            }
            '\\' => {
                out.push(c);
                if let Some(n) = chars.next() {
                    out.push(n);
                    if n == 'u' {
                        // the four hex digits belong to the escape
                        for _ in 0..4 {
                            if let Some(h) = chars.next() {
                                out.push(h);
                            }
                        }
                    }
                }
            }
            '/' => out.push_str("\\/"),
            c if c.is_ascii_alphanumeric() && rng.chance(1, 3) => out.push_str(&format!("\\u{:04x}", c as u32)),
            c => out.push(c),
        }
    }
    out
}
